(** The fixture menu (DESIGN.md appendix A) in Gallina: the same handlers, vary rules and
    transformations that harness/src/c00pipe.rs builds on the Rust side, and the decoder of a
    scenario into the operations of Model/Cache.v.  Component ["pipe.run"]. *)
From KV Require Export Bytes RustInt Range CacheControl Cache.
Open Scope N_scope.

(** ---- transformations (c00pipe.rs [xform]) ---- *)
Definition xform (id : N) (v : bytes) : bytes :=
  if id =? 0 then lower v
  else if id =? 1 then
    match v with
    | [] => B "none"
    | c :: _ => let l := to_lower c in if (97 <=? l) && (l <=? 109) then B "lo" else B "hi"
    end
  else if id =? 2 then dec (N.of_nat (length v) mod 3)
  else B "k".

(** ---- handlers ---- *)
Record hspec := mkH {
  h_path : bytes; h_kind : N; h_status : N; h_body : bytes; h_headers : list (bytes * bytes);
  h_spref : N; h_cpref : N; h_compress : bool; h_tuple : list (bytes * N * bytes) }.

Definition client_cache_header (cpref : N) : option bytes :=
  if cpref =? 0 then None
  else if cpref =? 1 then Some (B "no-store")
  else if cpref =? 2 then Some (B "max-age=120")
  else Some (B "public, max-age=604800, immutable").

(** [CompressedResponse::set_client_cache]: entry("cache-control").or_insert *)
Definition with_client_cache (cpref : N) (hs : list (bytes * bytes)) : list (bytes * bytes) :=
  match client_cache_header cpref, assoc (B "cache-control") hs with
  | Some v, None => hs ++ [(B "cache-control", v)]
  | _, _ => hs
  end.

Definition method_name (m : N) : bytes :=
  if m =? M_GET then B "GET" else if m =? M_HEAD then B "HEAD" else if m =? M_POST then B "POST"
  else if m =? M_OPTIONS then B "OPTIONS" else B "PUT".

Definition header_text (n : bytes) (r : request) : option bytes :=
  match header n r with Some v => if to_str_ok v then Some v else None | None => None end.

Definition handler_body (h : hspec) (count : N) (r : request) : bytes :=
  h_body h ++
  (if h_kind h =? 1 then rq_path r ++ match rq_query r with Some (c :: q) => 63 :: c :: q | _ => [] end
   else if h_kind h =? 2 then dec count
   else if h_kind h =? 3 then
     concat (map (fun '(n, xf, d) => 124 :: match header_text n r with Some v => xform xf v | None => d end) (h_tuple h))
   else if h_kind h =? 4 then (if get_or_head (rq_method r) then B "GH" else method_name (rq_method r))
   else []).

Definition ERRPAGE : bytes := B "ERRPAGE".
Definition error_fat (status : N) (spref : N) : fat :=
  {| f_status := status;
     f_headers := with_client_cache 3 [(B "content-type", B "text/html; charset=utf-8"); (B "content-encoding", B "identity")];
     f_body := ERRPAGE; f_spref := spref; f_compress := true |}.

Fixpoint find_handler (p : bytes) (hs : list hspec) (i : nat) : option (nat * hspec) :=
  match hs with
  | [] => None
  | h :: r => if beq (h_path h) p then Some (i, h) else find_handler p r (S i)
  end.
(** a later [add_prepare_single] for the same path replaces the earlier one (HashMap insert) *)
Fixpoint find_handler_last (p : bytes) (hs : list hspec) (i : nat) (acc : option (nat * hspec)) : option (nat * hspec) :=
  match hs with
  | [] => acc
  | h :: r => find_handler_last p r (S i) (if beq (h_path h) p then Some (i, h) else acc)
  end.

Fixpoint bump (i : nat) (l : list N) : list N * N :=
  match i, l with
  | O, x :: r => ((x + 1) :: r, x + 1)
  | S j, x :: r => let '(r', n) := bump j r in (x :: r', n)
  | _, [] => ([], 0)
  end.

Definition range_part_ok (r : request) : bool :=
  match sanitize_range (header (B "range") r) with Ok _ => true | _ => false end.

(** path part of sanitize on the generator's domain (no percent escapes): no "./", leading "/",
    not absolute after the first "/" (i.e. does not start with "//").  The full byte-level model
    of this check is Model/PathSan.v (C01). *)
Definition path_part_ok (p : bytes) : bool :=
  negb (contains_sub (B "./") p) && starts_with (B "/") p && negb (starts_with (B "//") p).

Definition compute_fix (handlers : list hspec) (hs : list N) (r : request) (ok : bool) : fat * list N * list bytes :=
  if negb ok then
    (error_fat (if range_part_ok r then 400 else 416) SP_NONE, hs, [])
  else
    match find_handler_last (rq_path r) handlers O None with
    | Some (i, h) =>
        let '(hs', n) := bump i hs in
        ({| f_status := h_status h; f_headers := with_client_cache (h_cpref h) (h_headers h);
            f_body := handler_body h n r; f_spref := h_spref h; f_compress := h_compress h |},
         hs', [B "h" ++ dec (N.of_nat i)])
    | None => (error_fat 404 SP_FULL, hs, [])
    end.

(** ---- default Prime [uri_redirect]: "<p>." -> "<p>.html", "<p>/" -> "<p>/index.html" ---- *)
Definition uri_redirect (r : request) : request :=
  match rev (rq_path r) with
  | c :: _ =>
      if c =? 46 then mkReq (rq_method r) (rq_path r ++ B "html") (rq_query r) (rq_headers r) (rq_addr r)
      else if c =? 47 then mkReq (rq_method r) (rq_path r ++ B "index.html") (rq_query r) (rq_headers r) (rq_addr r)
      else r
  | [] => r
  end.

(** ---- vary rules (exact paths only in the fixture) ---- *)
Definition vrule := (bytes * N * bytes)%type.     (* header name, transformation, default *)
Fixpoint rules_for (p : bytes) (rules : list (bytes * list vrule)) : list vrule :=
  match rules with
  | [] => []
  | (q, rs) :: rest => if beq p q then rs else rules_for p rest
  end.
Definition vary_tuple_fix (rules : list (bytes * list vrule)) (r : request) : tuple :=
  map (fun '(n, xf, d) => match header_text n r with Some v => xform xf v | None => d end)
      (rules_for (rq_path r) rules).
Definition vary_header_fix (rules : list (bytes * list vrule)) (r : request) (f : fat) : list (bytes * bytes) :=
  match f_body f with
  | [] => []
  | _ => [(B "vary", B "accept-encoding, range" ++
                     concat (map (fun '(n, _, _) => B ", " ++ n) (rules_for (rq_path r) rules)))]
  end.

(** ---- If-Modified-Since stand-in: "@T+k" / "@T-k" = scenario start (floored to s) +- k seconds ---- *)
Definition parse_ims_fix (v : bytes) : option Z :=
  match v with
  | 64 :: 84 :: 43 :: d => option_map Z.of_N (parse_u64 d)
  | 64 :: 84 :: 45 :: d => option_map (fun n => (- Z.of_N n)%Z) (parse_u64 d)
  | _ => None
  end.

(** ---- scenario decoding ---- *)
Record config := mkCfg {
  cf_cache : bool; cf_default_ext : bool; cf_ims : bool; cf_handlers : list hspec;
  cf_vary : list (bytes * list vrule); cf_report : list bytes; cf_phase : N }.

Fixpoint kv_get (k : bytes) (l : list xval) : option xval :=
  match l with
  | XL [XB k'; v] :: r => if beq k k' then Some v else kv_get k r
  | _ :: r => kv_get k r
  | [] => None
  end.
Definition kv_flag (k : bytes) (l : list xval) (d : bool) : bool :=
  match kv_get k l with Some v => match d_bool v with Some b0 => b0 | None => d end | None => d end.

Definition d_pair_bb (x : xval) : option (bytes * bytes) :=
  match x with XL [XB a; XB c] => Some (a, c) | _ => None end.
Definition d_vrule (x : xval) : option vrule :=
  match x with XL [XB n; XN xf; XB d] => Some (n, xf, d) | _ => None end.
Definition d_hspec (x : xval) : option hspec :=
  match x with
  | XL [XB p; XN kind; XN st; XB body; hs; XN sp; XN _; XN cp; c; tp] =>
      match d_list d_pair_bb hs, d_bool c, d_list d_vrule tp with
      | Some hs', Some c', Some tp' => Some (mkH p kind st body hs' sp cp c' tp')
      | _, _, _ => None
      end
  | _ => None
  end.
Definition d_varyrule (x : xval) : option (bytes * list vrule) :=
  match x with
  | XL [XB p; rs] => option_map (fun l => (p, l)) (d_list d_vrule rs)
  | _ => None
  end.

Definition d_config (x : xval) : option config :=
  match x with
  | XL l =>
      let hs := match kv_get (B "handlers") l with Some v => d_list d_hspec v | None => Some [] end in
      let vr := match kv_get (B "vary") l with Some v => d_list d_varyrule v | None => Some [] end in
      let rp := match kv_get (B "report") l with Some v => d_list d_B v | None => Some [] end in
      let ph := match kv_get (B "phase") l with Some (XN n) => n | _ => 500 end in
      match hs, vr, rp with
      | Some hs', Some vr', Some rp' =>
          Some (mkCfg (kv_flag (B "cache") l true) (kv_flag (B "default_ext") l false)
                      (negb (kv_flag (B "disable_ims") l false)) hs' vr' rp' ph)
      | _, _, _ => None
      end
  | _ => None
  end.

(** split a request target at the first '?' *)
Fixpoint split_target (t : bytes) (acc : bytes) : bytes * option bytes :=
  match t with
  | [] => (rev acc, None)
  | c :: r => if c =? 63 then (rev acc, Some r) else split_target r (c :: acc)
  end.

Definition d_request (addr : N) (m t : bytes) (hs : list (bytes * bytes)) : request :=
  let '(p, q) := split_target t [] in mkReq (method_of_bytes m) p q hs addr.

Definition d_op (x : xval) : option (op) :=
  match x with
  | XL [XN 0; XN addr; XB m; XB t; hs; XB _] =>
      option_map (fun h => OReq (d_request addr m t h)) (d_list d_pair_bb hs)
  | XL [XN 1; XB t] => Some (OClearPage (d_request 0 (B "GET") t []))
  | XL [XN 2] => Some OClearAll
  | XL [XN 3; XN ms] => Some (OWait ms)
  | _ => None
  end.

(** ---- running and encoding ---- *)
Definition report_headers (report : list bytes) (rp : reply) : xval :=
  let all := rp_headers rp ++ (if rp_last_modified rp then [(B "last-modified", [])] else []) in
  XL (concat (map (fun n =>
        match n with
        | 63 :: n' => match assoc n' all with Some _ => [XL [XB n'; XB []]] | None => [] end
        | _ => match assoc n all with Some v => [XL [XB n; XB v]] | None => [] end
        end) report)).

Definition x_obs (report : list bytes) (o : obs) : xval :=
  match o with
  | ObReply rp lg =>
      XL [XN (rp_status rp); report_headers report rp; XB (rp_body rp); XN 1; XB (rp_identity rp); XL (map XB lg)]
  | ObCleared f c => XL [x_bool f; x_bool c]
  | ObNone => XL []
  end.

Definition sanitize_ok_fix (r : request) : bool := path_part_ok (rq_path r) && range_part_ok r.

Definition run_cfg (cfg : config) (ops : list op) : list obs :=
  run (list N) (compute_fix (cf_handlers cfg)) (cf_cache cfg) (cf_ims cfg) parse_ims_fix sanitize_ok_fix
      (if cf_default_ext cfg then uri_redirect else (fun r => r))
      (fun _ _ => None)
      (vary_tuple_fix (cf_vary cfg)) (vary_header_fix (cf_vary cfg))
      ([], repeat 0 (length (cf_handlers cfg) + 8)) (cf_phase cfg) ops.

Definition run_pipe (x : xval) : xval :=
  match x with
  | XL [c; XL ops] =>
      match d_config c, d_all d_op ops with
      | Some cfg, Some ops' => XL (map (x_obs (cf_report cfg)) (run_cfg cfg ops'))
      | _, _ => bad_input
      end
  | _ => bad_input
  end.

(** the same scenario on a host without response cache (the oracle of C03) *)
Definition run_pipe_nocache (x : xval) : xval :=
  match x with
  | XL [c; XL ops] =>
      match d_config c, d_all d_op ops with
      | Some cfg, Some ops' =>
          let cfg' := mkCfg false (cf_default_ext cfg) (cf_ims cfg) (cf_handlers cfg) (cf_vary cfg) (cf_report cfg) (cf_phase cfg) in
          XL (map (x_obs (cf_report cfg)) (run_cfg cfg' ops'))
      | _, _ => bad_input
      end
  | _ => bad_input
  end.

Definition fixture_table : list (bytes * (xval -> xval)) :=
  [ (B "pipe.run", run_pipe); (B "pipe.run_nocache", run_pipe_nocache) ].
