(** Rust std algorithms whose exact behaviour matters (DESIGN.md section 3).

    [binary_search_by]: transcription of [core::slice::<impl [T]>::binary_search_by]
    (library/core/src/slice/mod.rs; the branch-free version shipped with rustc 1.95:
    the loop count depends only on the length, there is no early exit on [Equal]):

      let mut size = self.len();
      if size == 0 { return Err(0); }
      let mut base = 0usize;
      while size > 1 {
          let half = size / 2;
          let mid = base + half;
          let cmp = f(unsafe { self.get_unchecked(mid) });
          base = hint::select_unpredictable(cmp == Greater, base, mid);
          size -= half;
      }
      let cmp = f(unsafe { self.get_unchecked(base) });
      if cmp == Equal { Ok(base) }
      else { let result = base + (cmp == Less) as usize; Err(result) }

    Rust's [Ordering::{Less,Equal,Greater}] is Coq's [comparison] [Lt | Eq | Gt].
    The correspondence run compares this function with the real one on arbitrary
    (also unsorted) slices and both comparator orientations (component std.bsearch).
    Definitions only; the characterising lemmas are in Proofs/RustStdProofs.v. *)
From Coq Require Export List NArith ZArith Bool Lia Arith.
From Coq Require Import ZifyBool ZifyNat.
Export ListNotations.

Inductive bsres : Type :=
| BOk (i : nat)     (* Ok(i)  *)
| BErr (i : nat).   (* Err(i) *)

Section BinarySearch.
Context {T : Type}.
Variable f : T -> comparison.

(** The [while size > 1] loop.  [fuel] bounds the number of iterations (the caller passes
    [len]); [None] = out of fuel or an index outside the slice (undefined behaviour of
    [get_unchecked]) — [bs_loop_total] (Proofs/RustStdProofs.v) shows that neither happens, for any list. *)
Fixpoint bs_loop (fuel : nat) (l : list T) (base size : nat) : option nat :=
  if Nat.leb size 1 then Some base else
  match fuel with
  | O => None
  | S fuel' =>
      let half := Nat.div size 2 in
      let mid := (base + half)%nat in
      match nth_error l mid with
      | None => None
      | Some x =>
          let cmp := f x in
          let base' := match cmp with Gt => base | _ => mid end in
          bs_loop fuel' l base' (size - half)
      end
  end.

Definition binary_search_by (l : list T) : option bsres :=
  let size := length l in
  if Nat.eqb size 0 then Some (BErr 0) else
  match bs_loop size l 0 size with
  | None => None
  | Some base =>
      match nth_error l base with
      | None => None
      | Some x =>
          match f x with
          | Eq => Some (BOk base)
          | Lt => Some (BErr (base + 1))
          | Gt => Some (BErr base)
          end
      end
  end.

End BinarySearch.
