(** C13 — CORS: model of [kvarn::cors] (src/cors.rs: [Cors::check_cors_request],
    [Cors::is_part_of_origin], [AllowList::{new,add_origin_uri,add_method,allow_all_methods,add_header,
    allow_all_origins,check}], [MethodAllowList::{allowed,to_bytes}], [options_prepare],
    [Extensions::{with_disallow_cors,with_cors}]), of the way its Prime extensions act in
    [Extensions::resolve_prime] (src/extensions.rs) and [kvarn::handle_cache] (src/lib.rs: the override
    URI is the cache *lookup* key and the Prepare key, the request URI the *insert* key), and of the
    [access-control-allow-origin] Package run by [SendKind::send].  Rule sets are Model/RuleSet.v,
    the cache is Model/Cache.v, the registration order of the primes is Model/Registry.v's reference
    map.  Definitions only; proofs live in Proofs/CorsProofs.v. *)
From KV Require Import Registry.
From KV Require PathSan.
From KV Require Export Bytes RustInt Range CacheControl Cache Fixture RuleSet.
Open Scope N_scope.

(** ---- transcription of [http::Uri::try_from(&[u8])] (http 1.5.0: uri/mod.rs [from_shared], [parse_full],
    scheme.rs [Scheme2::parse], authority.rs [validate_authority_bytes], [host], [port], path.rs
    [scan_path_and_query]) with [Uri::scheme_str], [Uri::host], [Uri::port_u16]; not transcribed: the
    length limit (65534 bytes).  The theorems hold for every parser; this one is what the correspondence
    runs, and it is itself compared with the real parser (component "cors.parse"). ---- *)
Record uparts := mkU { u_scheme : option bytes; u_host : option bytes; u_port : option N }.

Definition is_alpha (c : N) : bool := ((65 <=? c) && (c <=? 90)) || ((97 <=? c) && (c <=? 122)).
Definition is_alnum (c : N) : bool := is_alpha c || is_digit c.
Definition scheme_char (c : N) : bool := is_alnum c || (c =? 43) || (c =? 45) || (c =? 46).
Definition c_colon : N := 58. Definition c_slash : N := 47.
(** [URI_CHARS[c] != 0] *)
Definition uri_char (c : N) : bool :=
  (c =? 33) || (c =? 35) || (c =? 36) || ((38 <=? c) && (c <=? 59)) || (c =? 61) || ((63 <=? c) && (c <=? 91))
  || (c =? 93) || (c =? 95) || ((97 <=? c) && (c <=? 122)) || (c =? 126).

(** the scan of [Scheme2::parse]: [Some i] = a ':' at [i] followed by "//" *)
Fixpoint scan_scheme (s : bytes) (i : nat) : option nat :=
  match s with
  | [] => None
  | c :: r =>
      if c =? c_colon then (if starts_with (B "//") r then Some i else None)
      else if scheme_char c then scan_scheme r (S i) else None
  end.
Inductive scheme2 := SchNone | SchStd (name : bytes) (len : nat) | SchOther (n : nat) | SchErr.
Definition parse_scheme (s : bytes) : scheme2 :=
  if Nat.leb 7 (length s) && beq (lower (firstn 7 s)) (B "http://") then SchStd (B "http") 4
  else if Nat.leb 8 (length s) && beq (lower (firstn 8 s)) (B "https://") then SchStd (B "https") 5
  else if Nat.ltb 3 (length s) then
    match scan_scheme s O with
    | Some i => if Nat.ltb 64 i then SchErr else SchOther i
    | None => SchNone
    end
  else SchNone.

(** [validate_authority_bytes]: the loop's variables *)
Record ast := mkAst { a_colons : nat; a_sb : bool; a_eb : bool; a_pct : bool; a_at : option nat }.
Fixpoint auth_scan (s : bytes) (i : nat) (st : ast) : option (nat * ast) :=
  match s with
  | [] => Some (i, st)
  | c :: r =>
      if (c =? c_slash) || (c =? 63) || (c =? 35) then Some (i, st)
      else if negb (uri_char c) then
        (if c =? 37 then auth_scan r (S i) (mkAst (a_colons st) (a_sb st) (a_eb st) true (a_at st)) else None)
      else if c =? c_colon then
        (if Nat.leb 8 (a_colons st) then None else auth_scan r (S i) (mkAst (S (a_colons st)) (a_sb st) (a_eb st) (a_pct st) (a_at st)))
      else if c =? 91 then
        (if a_pct st || a_sb st then None else auth_scan r (S i) (mkAst (a_colons st) true (a_eb st) (a_pct st) (a_at st)))
      else if c =? 93 then
        (if negb (a_sb st) || a_eb st then None else auth_scan r (S i) (mkAst O (a_sb st) true false (a_at st)))
      else if c =? 64 then auth_scan r (S i) (mkAst O (a_sb st) (a_eb st) false (Some i))
      else auth_scan r (S i) st
  end.
Definition parse_authority (s : bytes) : option nat :=
  match s with
  | [] => None
  | _ => match auth_scan s O (mkAst O false false false None) with
         | Some (e, st) =>
             if negb (Bool.eqb (a_sb st) (a_eb st)) then None
             else if Nat.ltb 1 (a_colons st) then None
             else if Nat.ltb 0 e && (match a_at st with Some p => Nat.eqb p (e - 1) | None => false end) then None
             else if a_pct st then None
             else Some e
         | None => None
         end
  end.
(** [authority::host]: after the last '@'; a bracketed literal up to its ']', else up to the first ':' *)
Fixpoint after_last_at (s : bytes) : bytes :=
  match s with
  | [] => []
  | c :: r => if mem_byte 64 r then after_last_at r else if c =? 64 then r else s
  end.
Definition auth_host (a : bytes) : bytes :=
  let hp := after_last_at a in
  match hp with
  | c :: _ =>
      if c =? 91 then match find_byte 93 hp with Some i => firstn (S i) hp | None => hp end
      else match find_byte c_colon hp with Some i => firstn i hp | None => hp end
  | [] => []
  end.
(** [Authority::port]: [rfind(':')] in the whole authority, the rest parsed as [u16] *)
Definition rfind_byte (c : N) (s : bytes) : option nat :=
  match find_byte c (rev s) with Some j => Some (length s - 1 - j)%nat | None => None end.
Definition auth_port (a : bytes) : option N :=
  match rfind_byte c_colon a with Some i => parse_uint 65535 (skipn (S i) a) | None => None end.

(** [scan_path_and_query] + the UTF-8 test of [PathAndQuery::from_shared]: the text starts with '/', '?' or '#' *)
Definition path_class_valid (c : N) : bool :=
  (c =? 33) || ((36 <=? c) && (c <=? 59)) || (c =? 61) || ((64 <=? c) && (c <=? 95)) || ((97 <=? c) && (c <=? 122))
  || (c =? 124) || (c =? 126) || (c =? 34) || (c =? 123) || (c =? 125).
Definition query_class_valid (c : N) : bool :=
  (c =? 33) || ((36 <=? c) && (c <=? 59)) || (c =? 61) || ((63 <=? c) && (c <=? 126)).
Fixpoint pq_scan (inq : bool) (s : bytes) : option bytes :=      (* the text kept: up to a '#' *)
  match s with
  | [] => Some []
  | c :: r =>
      if c =? 35 then Some []
      else if negb inq && (c =? 63) then option_map (cons c) (pq_scan true r)
      else if (if inq then query_class_valid c else path_class_valid c) || (128 <=? c) then option_map (cons c) (pq_scan inq r)
      else None
  end.
Definition pq_ok (s : bytes) : bool :=
  match pq_scan false s with Some k => PathSan.utf8_valid k | None => false end.

Definition parse_uri (s : bytes) : option uparts :=
  match s with
  | [] => None
  | c :: r =>
      if (c =? c_slash) then (if pq_ok s then Some (mkU None None None) else None)
      else if (c =? 42) && Nat.eqb (length r) 0 then Some (mkU None None None)
      else
        let full (sch rest : bytes) :=
          match parse_authority rest with
          | Some e => if Nat.eqb e 0 then None
                      else let a := firstn e rest in
                           if Nat.eqb e (length rest) || pq_ok (skipn e rest)
                           then Some (mkU (Some sch) (Some (auth_host a)) (auth_port a)) else None
          | None => None
          end in
        match parse_scheme s with
        | SchErr => None
        | SchNone =>
            match parse_authority s with
            | Some e => if Nat.eqb e (length s) then Some (mkU None (Some (auth_host s)) (auth_port s)) else None
            | None => None
            end
        | SchStd name n => full name (skipn (n + 3) s)
        | SchOther n => full (firstn n s) (skipn (n + 3) s)
        end
  end.

(** ---- methods ([http::Method] is an abstract type with equality; here a number: the seven
    standard methods the generator uses are 0..6, any other method token (an extension method such as
    [COPY], [TRACE], [GETX] or [get]: [Method::from_bytes] is case sensitive) is [M_EXT] + its bytes
    read as a base-256 number behind a leading 1) ---- *)
Definition M_PUT : N := 4. Definition M_DELETE : N := 5. Definition M_PATCH : N := 6.
Definition M_EXT : N := 1000.
Definition method_char (c : N) : bool := is_alnum c || (c =? 45).
Fixpoint n_of_bytes (acc : N) (s : bytes) : N :=
  match s with [] => acc | c :: r => n_of_bytes (acc * 256 + c) r end.
Fixpoint bytes_of_n (fuel : nat) (n : N) (acc : bytes) : bytes :=
  match fuel with
  | O => acc
  | S f => if n <=? 1 then acc else bytes_of_n f (n / 256) ((n mod 256) :: acc)
  end.
Definition cors_method_of_bytes (m : bytes) : option N :=
  if beq m (B "GET") then Some M_GET else if beq m (B "HEAD") then Some M_HEAD
  else if beq m (B "POST") then Some M_POST else if beq m (B "OPTIONS") then Some M_OPTIONS
  else if beq m (B "PUT") then Some M_PUT else if beq m (B "DELETE") then Some M_DELETE
  else if beq m (B "PATCH") then Some M_PATCH
  else if Nat.ltb 0 (length m) && Nat.leb (length m) 16 && forallb method_char m then Some (M_EXT + n_of_bytes 1 m)
  else None.
Definition cors_method_name (m : N) : bytes :=
  if m =? M_GET then B "GET" else if m =? M_HEAD then B "HEAD" else if m =? M_POST then B "POST"
  else if m =? M_OPTIONS then B "OPTIONS" else if m =? M_PUT then B "PUT"
  else if m =? M_DELETE then B "DELETE" else if M_EXT <=? m then bytes_of_n 20 (m - M_EXT) [] else B "PATCH".

(** ---- [Cors::is_part_of_origin] ---- *)
Definition opt_beq (a c : option bytes) : bool :=
  match a, c with Some x, Some y => beq x y | None, None => true | _, _ => false end.
Definition opt_neq (a c : option N) : bool :=
  match a, c with Some x, Some y => x =? y | None, None => true | _, _ => false end.

(** [str::split_once("://")] *)
Definition split_once_sep (s : bytes) : option (bytes * bytes) :=
  match find_sub (B "://") s with
  | Some i => Some (firstn i s, skipn (i + 3) s)
  | None => None
  end.

(** after the repair (an origin without "://" is never the request's own origin) *)
Definition is_part_of_origin (origin : bytes) (uri_scheme uri_authority : option bytes) : bool :=
  match split_once_sep origin with
  | None => false
  | Some (origin_scheme, origin_authority) =>
      if negb (opt_beq (Some origin_scheme) uri_scheme) then false
      else opt_beq uri_authority (Some origin_authority)
  end.
(** as it was: ["localhost"] and ["null"] counted as the request's own origin *)
Definition is_part_of_origin_v0 (origin : bytes) (uri_scheme uri_authority : option bytes) : bool :=
  match split_once_sep origin with
  | None => beq origin (B "localhost") || beq origin (B "null")
  | Some (origin_scheme, origin_authority) =>
      if negb (opt_beq (Some origin_scheme) uri_scheme) then false
      else opt_beq uri_authority (Some origin_authority)
  end.

(** ---- [AllowList] ---- *)
(** an allowed origin: [add_origin_uri] asserts that it has a host and a scheme, so [check]'s
    [allowed.scheme().map_or("https", ..)] and [allowed.host().unwrap()] always see them *)
Record aorigin := mkAO { ao_scheme : bytes; ao_host : bytes; ao_port : option N }.
Record allow_list := mkAL {
  al_allowed : list aorigin; al_all : bool; al_methods : option (list N);
  al_headers : list bytes; al_cache_ms : N }.
Definition al_new (cache_ms : N) : allow_list := mkAL [] false (Some [M_GET; M_HEAD; M_OPTIONS]) [] cache_ms.
(** [add_origin]: [Uri::try_from(..).unwrap()], then the two [assert!]s of [add_origin_uri] *)
Definition al_add_origin (parse : bytes -> option uparts) (al : allow_list) (o : bytes) : outcome allow_list :=
  match parse o with
  | None => Panic
  | Some u =>
      match u_host u, u_scheme u with
      | Some h, Some sch =>
          Ok (mkAL (al_allowed al ++ [mkAO sch h (u_port u)]) (al_all al) (al_methods al) (al_headers al) (al_cache_ms al))
      | _, _ => Panic
      end
  end.
Definition al_allow_all_origins (al : allow_list) : allow_list :=
  mkAL (al_allowed al) true (al_methods al) (al_headers al) (al_cache_ms al).
Definition mem_N (x : N) (l : list N) : bool := existsb (N.eqb x) l.
Definition mem_bytes (x : bytes) (l : list bytes) : bool := existsb (beq x) l.
Definition al_add_method (al : allow_list) (m : N) : allow_list :=
  let ms := match al_methods al with Some l => l | None => [] end in
  mkAL (al_allowed al) (al_all al) (Some (if mem_N m ms then ms else ms ++ [m])) (al_headers al) (al_cache_ms al).
Definition al_allow_all_methods (al : allow_list) : allow_list :=
  mkAL (al_allowed al) (al_all al) None (al_headers al) (al_cache_ms al).
Definition al_add_header (al : allow_list) (h : bytes) : allow_list :=
  mkAL (al_allowed al) (al_all al) (al_methods al) (if mem_bytes h (al_headers al) then al_headers al else al_headers al ++ [h]) (al_cache_ms al).

(** what [check] returns: the method allow list ([None] = [MethodAllowList::All]), the headers, max-age *)
Definition grant := (option (list N) * list bytes * N)%type.
Definition al_grant (al : allow_list) : grant := (al_methods al, al_headers al, al_cache_ms al).
Definition origin_matches (allowed : aorigin) (origin : uparts) : bool :=
  opt_beq (Some (ao_host allowed)) (u_host origin) && opt_neq (ao_port allowed) (u_port origin)
  && opt_beq (Some (ao_scheme allowed)) (u_scheme origin).
Definition al_check (al : allow_list) (origin : uparts) : option grant :=
  if al_all al then Some (al_grant al)
  else if existsb (fun allowed => origin_matches allowed origin) (al_allowed al) then Some (al_grant al)
  else None.
Definition method_allowed (ms : option (list N)) (m : N) : bool :=
  match ms with None => true | Some l => mem_N m l end.

(** ---- [Cors::resolved_path]: the path the file system resolves a request path to — percent-decoded
    ([kvarn_utils::percent_decode]: the text itself when the decoded bytes are not UTF-8) and without
    repeated '/' ---- *)
Fixpoint collapse_slashes (s : bytes) (prev_slash : bool) : bytes :=
  match s with
  | [] => []
  | c :: r => if (c =? c_slash) && prev_slash then collapse_slashes r true else c :: collapse_slashes r (c =? c_slash)
  end.
Definition resolved_path (p : bytes) : bytes := collapse_slashes (PathSan.util_percent_decode p) false.
(** as it was: the rule was looked up with the path as spelled in the request only *)
Definition resolved_path_v0 (p : bytes) : bytes := p.

(** ---- [Cors::check_cors_request] ---- *)
Definition same_origin_grant : grant := (None, [], 604800000).
Section Check.
  Variable parse : bytes -> option uparts.          (* [Uri::try_from] *)
  Variable ipo : bytes -> option bytes -> option bytes -> bool.   (* [is_part_of_origin] (repaired or v0) *)
  Variable norm : bytes -> bytes.                    (* [resolved_path] (repaired or v0) *)
  Variable get : bytes -> option allow_list.        (* [RuleSet::get] *)

  (** [path]: the path of [extensions::RequestedUri] if a Prime extension rewrote the URI, else of the URI *)
  Definition check_cors_request (m : N) (uri_scheme uri_authority : option bytes) (path : bytes)
             (origin : option bytes) : option grant :=
    match origin with
    | None => Some same_origin_grant
    | Some o =>
        if to_str_ok o && ipo o uri_scheme uri_authority then Some same_origin_grant
        else
          match parse o with
          | Some ou =>
              let check := fun p : bytes =>
                match (match get p with Some cal => al_check cal ou | None => None end) with
                | Some allowed => if method_allowed (fst (fst allowed)) m then Some allowed else None
                | None => None
                end in
              let resolved := norm path in
              if negb (beq resolved path) && (match check resolved with Some _ => false | None => true end) then None
              else check path
          | None => None
          end
    end.
End Check.

(** ---- the property's decision function, written independently of the code's structure:
    same origin = the header is literally [scheme "://" authority]; otherwise allowed iff the rule
    found by [lookup] (in the oracle run: Model/RuleSet.v's [resolve], the most specific rule of the
    configuration history) allows every origin or lists one with equal scheme, host and port, and
    allows the method. ---- *)
Inductive verdict := VSame | VAllow (g : grant) | VRefuse.
Definition cors_spec (parse : bytes -> option uparts) (lookup : bytes -> option allow_list)
           (m : N) (scheme authority path : bytes) (origin : option bytes) : verdict :=
  match origin with
  | None => VSame
  | Some o =>
      if to_str_ok o && beq o (scheme ++ B "://" ++ authority) then VSame
      else match lookup path, parse o with
           | Some al, Some ou =>
               if (al_all al || existsb (fun a => opt_beq (Some (ao_scheme a)) (u_scheme ou) && opt_beq (Some (ao_host a)) (u_host ou)
                                                  && opt_neq (ao_port a) (u_port ou)) (al_allowed al))
                  && (match al_methods al with None => true | Some l => mem_N m l end)
               then VAllow (al_methods al, al_headers al, al_cache_ms al) else VRefuse
           | _, _ => VRefuse
           end
  end.

(** ... and with the two spellings of a path: a request is let through when it is allowed for the path as
    requested and for the path the file system resolves it to; what a preflight reports is the rule of
    the requested path *)
Definition cors_spec2 (norm : bytes -> bytes) (parse : bytes -> option uparts) (lookup : bytes -> option allow_list)
           (m : N) (scheme authority path : bytes) (origin : option bytes) : verdict :=
  match cors_spec parse lookup m scheme authority path origin with
  | VAllow g =>
      if beq (norm path) path then VAllow g
      else match cors_spec parse lookup m scheme authority (norm path) origin with VRefuse => VRefuse | _ => VAllow g end
  | v => v
  end.

(** ---- the file system of a host, as far as a request can see it: the files below the public directory
    by relative path; [fs_find] = what [get_response] / [handle_request] / [read_file] find for a request
    path: the file is named by the percent-decoded path ([None]: not UTF-8, no path at all) without its
    leading '/', the operating system ignores repeated '/' and no name contains a NUL ---- *)
Fixpoint find_file (rel : bytes) (files : list (bytes * bytes)) : option (bytes * bytes) :=
  match files with
  | [] => None
  | (p, c) :: r => if beq p rel then Some (p, c) else find_file rel r
  end.
Definition fs_find (files : list (bytes * bytes)) (p : bytes) : option (bytes * bytes) :=
  match PathSan.decoded_for_use p with
  | None => None
  | Some d =>
      if mem_byte 0 d then None
      else match collapse_slashes d false with
           | c :: rel => if c =? c_slash then find_file rel files else None
           | [] => None
           end
  end.

(** ---- preflight response ([options_prepare]) ---- *)
Fixpoint join_comma (l : list bytes) : bytes :=
  match l with
  | [] => []
  | [x] => x
  | x :: r => x ++ B ", " ++ join_comma r
  end.
Definition methods_bytes (ms : option (list N)) : bytes :=
  match ms with None => B "*" | Some l => join_comma (map cors_method_name l) end.
(** [cache_for.as_secs() + u64::from(cache_for.subsec_nanos() > 0)], the duration given in ms *)
Definition max_age_secs (ms : N) : N := ms / 1000 + (if ms mod 1000 =? 0 then 0 else 1).
Definition H_ACAO := B "access-control-allow-origin".
Definition H_ACAM := B "access-control-allow-methods".
Definition H_ACAH := B "access-control-allow-headers".
Definition H_ACMA := B "access-control-max-age".
Definition DENIED : bytes := B "CORS request denied".
(** the refusal; its server cache preference is [None] after the repair, was [Full] *)
Definition denied_fat_sp (sp : N) : fat := mkFat 403 [] DENIED sp true.
Definition denied_fat : fat := denied_fat_sp SP_NONE.
Definition options_fat_sp (sp : N) (allowed : option grant) : fat :=
  match allowed with
  | None => denied_fat_sp sp
  | Some (methods, headers, cache_ms) =>
      mkFat 204 [(H_ACAM, methods_bytes methods); (H_ACAH, join_comma headers); (H_ACMA, dec (max_age_secs cache_ms))]
            [] SP_NONE true
  end.
Definition options_fat := options_fat_sp SP_NONE.

(** ---- the host's extensions ---- *)
Inductive prime_id := P_deny | P_with_cors | P_options | P_uri_redirect.
Definition with_uri_redirect (l : list (Z * prime_id)) := ref_add l (-100)%Z P_uri_redirect.
Definition with_disallow_cors (l : list (Z * prime_id)) :=
  ref_add (ref_add l 16777216%Z P_deny) 16777215%Z P_options.
Definition with_cors_primes (l : list (Z * prime_id)) := ref_add (with_disallow_cors l) 16777216%Z P_with_cors.

Record ccfg := mkCfgC {
  cc_new : bool;                       (* [Extensions::new()] (has [uri_redirect]) or [Extensions::empty()] *)
  cc_with_cors : bool;                 (* [with_cors(rules)] or only [with_disallow_cors()] *)
  cc_rules : ruleset allow_list;
  cc_handlers : list (bytes * N);      (* marker Prepare handlers: path, server cache preference *)
  cc_cache : bool }.

Definition prime_list (cfg : ccfg) : list (Z * prime_id) :=
  let base := if cc_new cfg then with_disallow_cors (with_uri_redirect []) else [] in
  if cc_with_cors cfg then with_cors_primes base else with_disallow_cors base.

Definition OV_FAIL := B "/./cors_fail".
Definition OV_OPTIONS := B "/./cors_options".
Definition H_ORIGIN := B "origin".
Definition H_HOST := B "host".
Definition H_ACRM := B "access-control-request-method".

(** the application's request handlers: Prepare extensions bound to a path ([prepare_single], looked up with
    the override URI's path, else the request's path), Prepare extensions bound to a predicate
    ([prepare_fn]) and the files of the host ([handle_request]); key and request to response + invocation
    log; [None] = nothing there (404).  Arbitrary in the theorems; in the correspondence [site_app]. *)
Definition app_handlers := bytes -> request -> option (fat * list bytes).
Fixpoint find_marker (p : bytes) (hs : list (bytes * N)) (i : nat) (acc : option (nat * N)) : option (nat * N) :=
  match hs with
  | [] => acc
  | (q, sp) :: r => find_marker p r (S i) (if beq q p then Some (i, sp) else acc)
  end.
Definition marker_app (hs : list (bytes * N)) : app_handlers := fun key r =>
  match find_marker key hs O None with
  | Some (i, sp) => Some (mkFat 200 [] (B "h" ++ dec (N.of_nat i) ++ B ":" ++ rq_path r) sp true, [B "h" ++ dec (N.of_nat i)])
  | None => None
  end.

(** the site of harness/src/c13.rs: marker [prepare_single] handlers (a later one for the same path wins),
    then marker [prepare_fn] handlers (predicate: the raw request path starts with the prefix; the first in
    the list has the highest priority), then the files (GET and HEAD only, else 405); with [own_acao] every
    marker handler sets its own [access-control-allow-origin: *] *)
Record site := mkSite { st_files : list (bytes * bytes); st_fns : list (bytes * N); st_flags : N }.
Definition flag (n : N) (fl : N) : bool := N.testbit fl n.
Definition site_own_acao (s : option site) : bool := match s with Some st => flag 1 (st_flags st) | None => false end.
Definition site_filter_all (s : option site) : bool := match s with Some st => flag 0 (st_flags st) | None => false end.
Definition site_marks (s : option site) : bool := match s with Some st => flag 2 (st_flags st) | None => false end.
(** the port is secure (flag 8; with flag 16 the client speaks HTTP/2): the scheme of the request URI is "https" *)
Definition site_scheme (s : option site) : bytes :=
  if (match s with Some st => flag 3 (st_flags st) | None => false end) then B "https" else B "http".
Fixpoint find_fn (p : bytes) (fns : list (bytes * N)) (i : nat) : option (nat * N) :=
  match fns with
  | [] => None
  | (pre, sp) :: r => if starts_with pre p then Some (i, sp) else find_fn p r (S i)
  end.
Definition marker_fat (tag : bytes) (i : nat) (sp : N) (own : bool) (r : request) : fat * list bytes :=
  (mkFat 200 (if own then [(B "access-control-allow-origin", B "*")] else [])
         (tag ++ dec (N.of_nat i) ++ B ":" ++ rq_path r) sp true, [tag ++ dec (N.of_nat i)]).
Definition site_app (hs : list (bytes * N)) (s : option site) : app_handlers := fun key r =>
  if starts_with (B "/./") key then None
  else
    match find_marker key hs O None with
    | Some (i, sp) => Some (marker_fat (B "h") i sp (site_own_acao s) r)
    | None =>
        match s with
        | None => None
        | Some st =>
            match find_fn (rq_path r) (st_fns st) O with
            | Some (i, sp) => Some (marker_fat (B "f") i sp (site_own_acao s) r)
            | None =>
                match PathSan.decoded_for_use (rq_path r) with
                | None => None                                    (* "Invalid percent encoding in path": no file path *)
                | Some _ =>
                    if get_or_head (rq_method r) then
                      match fs_find (st_files st) (rq_path r) with
                      | Some (_, content) => Some (mkFat 200 [] content SP_FULL true, [])
                      | None => None
                      end
                    else Some (error_fat 405 SP_FULL, [])
                end
            end
        end
    end.

(** [sanitize_request] with percent escapes: the path test of Model/PathSan.v on the decoded path *)
Definition sanitize_ok_pct (r : request) : bool :=
  (match PathSan.sanitize_path (rq_path r) with Ok _ => true | _ => false end) && range_part_ok r.

(** [handle_cache]'s admission with [host.options.status_code_cache_filter] = [filt] ([true] = drop) *)
Definition wants_cache_f (filt : N -> bool) (cache_on : bool) (m : N) (f : fat) : bool :=
  cache_on && pref_caches (f_spref f) && negb (filt (f_status f)) && get_or_head m.
Definition may_store_f (filt : N -> bool) (cache_on : bool) (m : N) (f : fat) : bool :=
  wants_cache_f filt cache_on m f && (N.of_nat (length (f_body f)) <? size_limit) && negb (kvarn_none f).

Section Pipe.
  Variable parse : bytes -> option uparts.
  Variable ipo : bytes -> option bytes -> option bytes -> bool.
  Variable norm : bytes -> bytes.        (* [resolved_path], or the identity before the repair *)
  Variable keep_orig : bool.             (* [resolve_prime] keeps the requested URI ([RequestedUri]); false before the repair *)
  Variable denied_sp : N.                (* server cache preference of the refusal: [SP_NONE], [SP_FULL] before the repair *)
  Variable filt : N -> bool.             (* [host.options.status_code_cache_filter]: [true] = drop *)
  Variable conn_scheme : bytes.          (* "http" on a [PortDescriptor::unsecure], "https" with TLS *)
  Variable cfg : ccfg.
  Variable app : app_handlers.           (* arbitrary in the theorems; [site_app ...] in the run *)

  (** the request URI of an HTTP/1 request is [scheme "://" Host-header target] (kvarn_async::read::request);
      [path]: the path the CORS rules are looked up with *)
  Definition req_check (rules : ruleset allow_list) (path : bytes) (r : request) : option grant :=
    check_cors_request parse ipo norm (rs_get rules) (rq_method r) (Some conn_scheme) (header H_HOST r)
                       path (header H_ORIGIN r).
  (** [request.extensions().get::<RequestedUri>().map_or(request.uri(), ..).path()] *)
  Definition cors_path (orig : option bytes) (r : request) : bytes :=
    if keep_orig then match orig with Some p => p | None => rq_path r end else rq_path r.

  (** a Prime returns [Option<Uri>]: here path and query *)
  Definition call_prime (p : prime_id) (orig : option bytes) (r : request) : option (bytes * option bytes) :=
    match p with
    | P_deny =>
        let missmatch :=
          match header H_ORIGIN r with
          | None => false
          | Some o => if to_str_ok o then negb (ipo o (Some conn_scheme) (header H_HOST r)) else true
          end in
        if missmatch then Some (OV_FAIL, None) else None
    | P_with_cors =>
        match req_check (cc_rules cfg) (cors_path orig r) r with Some _ => None | None => Some (OV_FAIL, None) end
    | P_options =>
        if (rq_method r =? M_OPTIONS)
           && (match header H_ORIGIN r with Some _ => true | None => false end)
           && (match header H_ACRM r with Some _ => true | None => false end)
        then Some (OV_OPTIONS, None) else None
    | P_uri_redirect =>
        let r' := uri_redirect r in
        if beq (rq_path r') (rq_path r) then None else Some (rq_path r', rq_query r')
    end.

  (** [Extensions::resolve_prime]: the request as rewritten, the override URI, the requested path if rewritten *)
  Fixpoint resolve_prime (l : list (Z * prime_id)) (r : request) (uri orig : option bytes) : request * option bytes * option bytes :=
    match l with
    | [] => (r, uri, orig)
    | (_, p) :: rest =>
        match call_prime p orig r with
        | Some (path, query) =>
            if starts_with (B "/./") path then resolve_prime rest r (Some path) orig
            else resolve_prime rest (mkReq (rq_method r) path query (rq_headers r) (rq_addr r)) uri
                               (match orig with Some _ => orig | None => Some (rq_path r) end)
        | None => resolve_prime rest r uri orig
        end
    end.

  (** [handle_request]: the Prepare bound to the override URI's path, else the application's handler for the
      request; [/./cors_options] is [options_prepare] with the rules of [with_cors] (or the empty rule set
      of [with_disallow_cors]); no handler = 404.  [cpath]: the path for the CORS rules. *)
  Definition options_rules : ruleset allow_list := if cc_with_cors cfg then cc_rules cfg else [].
  Definition compute_ov (cpath : bytes) (hs : unit) (r : request) (ov : option bytes) (ok : bool) : fat * unit * list bytes :=
    if negb ok then (error_fat (if range_part_ok r then 400 else 416) SP_NONE, hs, [])
    else
      let key := match ov with Some u => u | None => rq_path r end in
      match app key r with
      | Some (f, lg) => (f, hs, lg)
      | None =>
          if beq key OV_FAIL then (denied_fat_sp denied_sp, hs, [])
          else if beq key OV_OPTIONS then (options_fat_sp denied_sp (req_check options_rules cpath r), hs, [])
          else (error_fat 404 SP_FULL, hs, [])
      end.

  (** ---- [handle_cache] with an override URI: [Model/Cache.v]'s [serve] where the lookup key comes from
      the override URI ([UriKey::path_and_query(overide_uri.unwrap_or(request.uri()))]) and the layer
      below is keyed by it, while [maybe_cache] stores under the request's own URI. ---- *)
  Definition no_negotiate (r : request) (f : fat) : option (N * bytes) := None.
  Definition no_vary_tuple (r : request) : tuple := [].
  Definition no_vary_header (r : request) (f : fat) : list (bytes * bytes) := [].
  Definition key_request (r : request) (ov : option bytes) : request :=
    match ov with Some u => mkReq (rq_method r) u None (rq_headers r) (rq_addr r) | None => r end.

  (** the miss arm ([Model/Cache.v]'s [miss] with the status filter as a parameter) *)
  Definition miss_f (comp : unit -> request -> bool -> fat * unit * list bytes) (c1 : cache) (hs : unit) (now : N)
             (r : request) (ok : bool) : state unit * reply * list bytes :=
    let '(f, hs', lg) := comp hs r ok in
    let lm := wants_cache_f filt (cc_cache cfg) (rq_method r) f in
    if may_store_f filt (cc_cache cfg) (rq_method r) f then
      let e' := {| e_vars := [(no_vary_tuple r, f)]; e_created := now; e_life := lifetime_ms f |} in
      ((c_insert (insert_key r f) e' c1, hs'), finish no_negotiate no_vary_header r f lm false, lg)
    else ((c1, hs'), finish no_negotiate no_vary_header r f lm false, lg).

  (** [handle_cache] after [resolve_prime]: [r] is the request as the primes left it, [ov] the override URI *)
  Definition serve_core (cpath : bytes) (st : state unit) (now : N) (ok : bool) (r : request) (ov : option bytes)
    : state unit * reply * list bytes :=
    let '(c, hs) := st in
    let comp := fun hs r ok => compute_ov cpath hs r ov ok in
    if negb (cc_cache cfg) then
      let '(f, hs', lg) := comp hs r ok in
      ((c, hs'), finish no_negotiate no_vary_header r f false false, lg)
    else
    let '((k, found), c1) := lookup (key_request r ov) c now in
    match found with
    | Some e =>
        if ok && get_or_head (rq_method r) then
          let ims := match header (B "if-modified-since") r with Some v => parse_ims_fix v | None => None end in
          if match ims with Some t => ims_fresh t (e_created e) | None => false end then
            ((c1, hs),
             {| rp_status := 304; rp_headers := []; rp_body := []; rp_identity := [];
                rp_last_modified := true; rp_from_cache := true |}, [])
          else
            match v_find (no_vary_tuple r) (e_vars e) with
            | Some f => ((c1, hs), finish no_negotiate no_vary_header r f true true, [])
            | None =>
                let '(f, hs', lg) := comp hs r ok in
                let e' := {| e_vars := (no_vary_tuple r, f) :: e_vars e; e_created := now;
                             e_life := option_map (fun l => l - (now - e_created e)) (e_life e) |} in
                ((c_insert k e' c1, hs'), finish no_negotiate no_vary_header r f true true, lg)
            end
        else miss_f comp c1 hs now r ok
    | None => miss_f comp c1 hs now r ok
    end.
  Definition primed (r0 : request) : request * option bytes * option bytes := resolve_prime (prime_list cfg) r0 None None.
  Definition serve_ov (st : state unit) (now : N) (r0 : request) : state unit * reply * list bytes :=
    let '(r, ov, orig) := primed r0 in
    serve_core (cors_path orig r) st now (sanitize_ok_pct r0) r ov.

  (** ---- the Package of [with_cors] (priority -1024), applied by [SendKind::send] to every response,
      cached or not, with the request as the primes left it ---- *)
  Fixpoint set_header (n v : bytes) (hs : list (bytes * bytes)) : list (bytes * bytes) :=
    match hs with
    | [] => [(n, v)]
    | (k, w) :: r => if beq k n then (n, v) :: filter (fun h => negb (beq (fst h) n)) r else (k, w) :: set_header n v r
    end.
  Definition cors_package (cpath : bytes) (r : request) (hs : list (bytes * bytes)) : list (bytes * bytes) :=
    if cc_with_cors cfg then
      match header H_ORIGIN r with
      | Some origin =>
          match req_check (cc_rules cfg) cpath r with
          | Some _ => set_header H_ACAO origin hs
          | None => hs
          end
      | None => hs
      end
    else hs.

  (** what the client sees: status, headers after the Package, body (none for HEAD), handler log *)
  Record wire := mkWire { w_status : N; w_headers : list (bytes * bytes); w_body : bytes; w_log : list bytes }.
  Definition respond (st : state unit) (now : N) (r0 : request) : state unit * wire :=
    let '(st', rp, lg) := serve_ov st now r0 in
    let '(r, _, orig) := primed r0 in
    (st', mkWire (rp_status rp) (cors_package (cors_path orig r) r (rp_headers rp))
                 (if rq_method r0 =? M_HEAD then [] else rp_body rp) lg).
  (** the reply was computed now (a miss), not taken from the cache: the Present extensions ran *)
  Definition computed_now (st : state unit) (now : N) (r0 : request) : bool :=
    negb (rp_from_cache (snd (fst (serve_ov st now r0)))).

  Inductive cop := CReq (r : request) | CClear.
  Fixpoint run_conn (marks : bool) (st : state unit) (now : N) (ops : list cop) : list (option (wire * list bytes)) :=
    match ops with
    | [] => []
    | CReq r :: rest =>
        let '(st', w) := respond st now r in
        Some (w, if marks then (if computed_now st now r then [B "P"] else []) ++ [B "T"] else []) :: run_conn marks st' now rest
    | CClear :: rest => None :: run_conn marks ([], snd st) now rest
    end.
  Fixpoint run_conn_state (st : state unit) (now : N) (ops : list (cop * N)) : state unit :=
    match ops with
    | [] => st
    | (CReq r, dt) :: rest => run_conn_state (fst (respond st (now + dt) r)) (now + dt) rest
    | (CClear, dt) :: rest => run_conn_state ([], snd st) (now + dt) rest
    end.

  (** ---- vocabulary of the theorems ---- *)
  (** the rules in force: those of [with_cors], none under the default [with_disallow_cors] *)
  Definition effective_rules : ruleset allow_list := if cc_with_cors cfg then cc_rules cfg else [].
  (** the property's verdict on a request (decision function [cors_spec2], rule found by [RuleSet::get]) *)
  Definition req_verdict (r : request) : verdict :=
    cors_spec2 norm parse (rs_get effective_rules) (rq_method r) conn_scheme
               (match header H_HOST r with Some a => a | None => [] end) (rq_path r) (header H_ORIGIN r).
  (** the request as the non-CORS primes leave it ([uri_redirect] of [Extensions::new()]) *)
  Definition rw (r : request) : request := if cc_new cfg then uri_redirect r else r.
  (** before the repair (no [RequestedUri]): the complement of the class acao_path_rewrite — the rewritten path
      has the same rule *)
  Definition stable (r : request) : Prop :=
    rs_get effective_rules (rq_path (rw r)) = rs_get effective_rules (rq_path r).
  (** cache keys of internal routes: never stored by any history (invariant [no_internal]) *)
  Definition key_internal (k : key) : bool :=
    match k with KPath p => starts_with (B "/./") p | KPathQuery s i => starts_with (B "/./") (firstn i s) end.
  Definition no_internal (c : cache) : Prop := forall k e, In (k, e) c -> key_internal k = false.
End Pipe.
(** no application handler is mounted on an internal route *)
Definition app_external (app : app_handlers) : Prop := forall key r, starts_with (B "/./") key = true -> app key r = None.
(** the default [status_code_cache_filter] *)
Definition default_filter : N -> bool := status_filter_drop.
Definition cache_all_filter : N -> bool := fun _ => false.

(** ---- xval interface ---- *)
Definition d_method (x : xval) : option N := match x with XB m => cors_method_of_bytes m | _ => None end.

Record rule_spec := mkRS {
  rsp_path : bytes; rsp_origins : list bytes; rsp_all : bool; rsp_mclear : bool;
  rsp_methods : list N; rsp_headers : list bytes; rsp_ms : N }.
Definition d_rule (x : xval) : option rule_spec :=
  match x with
  | XL [XB p; os; a; mc; ms; hs; XN t] =>
      match d_list d_B os, d_bool a, d_bool mc, d_list d_method ms, d_list d_B hs with
      | Some os', Some a', Some mc', Some ms', Some hs' => Some (mkRS p os' a' mc' ms' hs' t)
      | _, _, _, _, _ => None
      end
  | _ => None
  end.

(** the builder calls the harness makes (harness/src/c13.rs [build_rules]) *)
Fixpoint add_origins (parse : bytes -> option uparts) (al : allow_list) (os : list bytes) : outcome allow_list :=
  match os with
  | [] => Ok al
  | o :: r => obind (al_add_origin parse al o) (fun al' => add_origins parse al' r)
  end.
Definition build_allow_list (parse : bytes -> option uparts) (s : rule_spec) : outcome allow_list :=
  let al0 := al_new (rsp_ms s) in
  let al1 := if rsp_mclear s then al_allow_all_methods al0 else al0 in
  let al2 := fold_left al_add_method (rsp_methods s) al1 in
  obind (add_origins parse al2 (rsp_origins s)) (fun al3 =>
  let al4 := if rsp_all s then al_allow_all_origins al3 else al3 in
  Ok (fold_left al_add_header (rsp_headers s) al4)).
Fixpoint build_hist (parse : bytes -> option uparts) (l : list rule_spec) : outcome (list (bytes * allow_list)) :=
  match l with
  | [] => Ok []
  | s :: r => obind (build_allow_list parse s) (fun al => obind (build_hist parse r) (fun h => Ok ((rsp_path s, al) :: h)))
  end.

Definition x_grant (g : grant) : xval :=
  let '(ms, hs, t) := g in
  XL [x_option (fun l => XL (map (fun m => XB (cors_method_name m)) l)) ms; XL (map XB hs);
      XN (t / 1000); XN ((t mod 1000) * 1000000)].

(** "cors.check": (L rules (L (L method scheme authority path (L origin?)) ...)) *)
Definition d_probe (x : xval) : option (N * bytes * bytes * bytes * option bytes) :=
  match x with
  | XL [m; XB s; XB a; XB p; o] =>
      match d_method m, d_option d_B o with
      | Some m', Some o' => Some (m', s, a, p, o')
      | _, _ => None
      end
  | _ => None
  end.
Definition run_check_with (ipo : bytes -> option bytes -> option bytes -> bool) (norm : bytes -> bytes) (x : xval) : xval :=
  match x with
  | XL [rules; probes] =>
      match d_list d_rule rules, d_list d_probe probes with
      | Some rs, Some ps =>
          match build_hist parse_uri rs with
          | Ok hist =>
              let rules := rs_build rs_add hist in
              XL [XN 0; XL (map (fun '(m, s, a, p, o) =>
                     x_option x_grant (check_cors_request parse_uri ipo norm (rs_get rules) m (Some s) (Some a) p o)) ps)]
          | _ => XL [XN 96]
          end
      | _, _ => bad_input
      end
  | _ => bad_input
  end.
Definition run_check := run_check_with is_part_of_origin resolved_path.
Definition run_check_v0 := run_check_with is_part_of_origin_v0 resolved_path.
Definition run_check_v1 := run_check_with is_part_of_origin resolved_path_v0.

Definition x_verdict (v : verdict) : xval :=
  match v with VSame => XL [XN 0] | VAllow g => XL [XN 1; x_grant g] | VRefuse => XL [XN 2] end.
(** the decision function on the same probes, the rule looked up by the independent resolver *)
Definition run_check_spec (x : xval) : xval :=
  match x with
  | XL [rules; probes] =>
      match d_list d_rule rules, d_list d_probe probes with
      | Some rs, Some ps =>
          match build_hist parse_uri rs with
          | Ok hist =>
              XL [XN 0; XL (map (fun '(m, s, a, p, o) => x_verdict (cors_spec2 resolved_path parse_uri (resolve hist) m s a p o)) ps)]
          | _ => XL [XN 96]
          end
      | _, _ => bad_input
      end
  | _ => bad_input
  end.

(** "cors.conn": (L (L base with_cors rules handlers cache [site]) ops), site = (L files fns flags) *)
Definition d_handler (x : xval) : option (bytes * N) :=
  match x with XL [XB p; XN sp] => Some (p, sp) | _ => None end.
Definition d_file (x : xval) : option (bytes * bytes) :=
  match x with XL [XB p; XB c] => Some (p, c) | _ => None end.
Definition d_site (x : xval) : option site :=
  match x with
  | XL [files; fns; XN fl] =>
      match d_list d_file files, d_list d_handler fns with
      | Some fs, Some fn => Some (mkSite fs fn fl)
      | _, _ => None
      end
  | _ => None
  end.
Definition d_hdr (x : xval) : option (bytes * bytes) :=
  match x with XL [XB a; XB c] => Some (a, c) | _ => None end.
(** the request as kvarn's HTTP/1 reader hands it on: [parse::headers] does [headers.insert(name, value)],
    so of a repeated header line the last one counts *)
Definition norm_headers (hs : list (bytes * bytes)) : list (bytes * bytes) :=
  fold_left (fun acc kv => filter (fun h => negb (beq (fst h) (fst kv))) acc ++ [kv]) hs [].
Definition d_cop (x : xval) : option cop :=
  match x with
  | XL [XN 0; m; XB t; hs] =>
      match d_method m, d_list d_hdr hs with
      | Some m', Some hs' => let '(p, q) := split_target t [] in Some (CReq (mkReq m' p q (norm_headers hs') 0))
      | _, _ => None
      end
  | XL [XN 2] => Some CClear
  | _ => None
  end.
Definition REPORT : list bytes := [H_ACAO; H_ACAM; H_ACAH; H_ACMA].
Definition x_wire (w : option (wire * list bytes)) : xval :=
  match w with
  | None => XL []
  | Some (w, marks) =>
      XL [XN (w_status w);
          XL (concat (map (fun n => match assoc n (w_headers w) with Some v => [XL [XB n; XB v]] | None => [] end) REPORT));
          XB (w_body w); XL (map XB (w_log w ++ marks))]
  end.
Definition CONN_SCHEME := B "http".
(** the versions of the code: the current one, and each repaired defect undone *)
Record version := mkVer { v_ipo : bytes -> option bytes -> option bytes -> bool; v_norm : bytes -> bytes; v_keep : bool; v_denied : N }.
Definition V_NOW := mkVer is_part_of_origin resolved_path true SP_NONE.
Definition V_NULL0 := mkVer is_part_of_origin_v0 resolved_path true SP_NONE.       (* before c64bc9b *)
Definition V_RAW0 := mkVer is_part_of_origin resolved_path_v0 true SP_NONE.        (* rule looked up with the raw path only *)
Definition V_REWRITE0 := mkVer is_part_of_origin resolved_path false SP_NONE.      (* no RequestedUri *)
Definition V_DENIED0 := mkVer is_part_of_origin resolved_path true SP_FULL.        (* the refusal with preference Full *)
Definition d_cfg (x : xval) : option (N * bool * list rule_spec * list (bytes * N) * bool * option site) :=
  match x with
  | XL (XN base :: wc :: rules :: handlers :: ca :: rest) =>
      match d_bool wc, d_list d_rule rules, d_list d_handler handlers, d_bool ca with
      | Some wc', Some rs, Some hs, Some ca' =>
          match rest with
          | [] => Some (base, wc', rs, hs, ca', None)
          | [st] => match d_site st with Some st' => Some (base, wc', rs, hs, ca', Some st') | None => None end
          | _ => None
          end
      | _, _, _, _ => None
      end
  | _ => None
  end.
Definition site_filter (s : option site) : N -> bool := if site_filter_all s then cache_all_filter else default_filter.
Definition run_conn_with (v : version) (force_nocache : bool) (x : xval) : xval :=
  match x with
  | XL [c; XL ops] =>
      match d_cfg c, d_all d_cop ops with
      | Some (base, wc', rs, hs, ca', st), Some ops' =>
          match build_hist parse_uri rs with
          | Ok hist =>
              let cfg := mkCfgC (base =? 0) wc' (rs_build rs_add hist) hs (ca' && negb force_nocache) in
              XL [XN 0; XL (map x_wire (run_conn parse_uri (v_ipo v) (v_norm v) (v_keep v) (v_denied v) (site_filter st) (site_scheme st) cfg
                                                 (site_app hs st) (site_marks st) ([], tt) 0 ops'))]
          | _ => XL [XN 96]
          end
      | _, _ => bad_input
      end
  | _ => bad_input
  end.
Definition run_conn_x := run_conn_with V_NOW false.
Definition run_conn_v0 := run_conn_with V_NULL0 false.
Definition run_conn_raw0 := run_conn_with V_RAW0 false.
Definition run_conn_rewrite0 := run_conn_with V_REWRITE0 false.
Definition run_conn_denied0 := run_conn_with V_DENIED0 false.
Definition run_conn_nocache := run_conn_with V_NOW true.

(** the property as an oracle on a history: per request the verdict of [cors_spec2] (rule by [resolve])
    and what the property then prescribes about the reply, computed from the reply of the same request
    *without* its Origin on a cache-less server with the same handlers ([None] = nothing prescribed). *)
Definition strip_origin (r : request) : request :=
  mkReq (rq_method r) (rq_path r) (rq_query r) (filter (fun h => negb (beq (fst h) H_ORIGIN)) (rq_headers r)) (rq_addr r).
(** the application's handlers do not look at the Origin header *)
Definition app_ignores_origin (app : app_handlers) : Prop := forall key r, app key (strip_origin r) = app key r.
(** what the code's check returns for a verdict *)
Definition verdict_grant (v : verdict) : option grant :=
  match v with VSame => Some same_origin_grant | VAllow g => Some g | VRefuse => None end.
Definition has (n : bytes) (r : request) : bool := match header n r with Some _ => true | None => false end.
(** the shape the preflight Prime reacts to: OPTIONS with Origin and access-control-request-method *)
Definition pf_shape (r : request) : bool := (rq_method r =? M_OPTIONS) && has H_ORIGIN r && has H_ACRM r.
(** rule lookup by the independent resolver over the configuration history (none without [with_cors]) *)
Definition hist_lookup (cfg : ccfg) (hist : list (bytes * allow_list)) (p : bytes) : option allow_list :=
  if cc_with_cors cfg then resolve hist p else None.
Definition is_preflight (r : request) : bool :=
  (rq_method r =? M_OPTIONS) && (match header H_ACRM r with Some _ => true | None => false end).
Definition spec_one (hist : list (bytes * allow_list)) (with_cors : bool) (cfg : ccfg) (st : option site) (r : request) : xval :=
  let lookup := if with_cors then resolve hist else (fun _ => None) in
  let auth := match header H_HOST r with Some a => a | None => [] end in
  let v := cors_spec2 resolved_path parse_uri lookup (rq_method r) (site_scheme st) auth (rq_path r) (header H_ORIGIN r) in
  let plain := snd (respond parse_uri is_part_of_origin resolved_path true SP_NONE default_filter (site_scheme st)
                      (mkCfgC (cc_new cfg) (cc_with_cors cfg) (cc_rules cfg) (cc_handlers cfg) false)
                      (site_app (cc_handlers cfg) st) ([], tt) 0 (strip_origin r)) in
  let acao := match header H_ORIGIN r with Some o => if with_cors then [XL [XB H_ACAO; XB o]] else [] | None => [] end in
  (* without an Origin (or without with_cors) the Package adds nothing: a handler's own header stays *)
  let own := match header H_ORIGIN r with
             | Some _ => if with_cors then [] else match assoc H_ACAO (w_headers plain) with Some v => [XL [XB H_ACAO; XB v]] | None => [] end
             | None => match assoc H_ACAO (w_headers plain) with Some v => [XL [XB H_ACAO; XB v]] | None => [] end
             end in
  let head := rq_method r =? M_HEAD in
  if negb (sanitize_ok_pct r) then
    (* the request does not pass [sanitize_request] (C01's domain): only "a refused origin gets no
       access-control-allow-origin and no handler" is prescribed *)
    XL [XN 3; XN (match v with VRefuse => 2 | VAllow _ => 1 | VSame => 0 end)]
  else
  match v with
  | VRefuse => XL [XN 2; XN 403; XL []; XB (if head then [] else DENIED)]
  | VAllow (ms, hs, t) =>
      if is_preflight r && with_cors then
        XL [XN 1; XN 204; XL (acao ++ [XL [XB H_ACAM; XB (methods_bytes ms)]; XL [XB H_ACAH; XB (join_comma hs)];
                                       XL [XB H_ACMA; XB (dec (max_age_secs t))]]); XB []]
      else XL [XN 1; XN (w_status plain); XL (acao ++ own); XB (w_body plain)]
  | VSame =>
      if is_preflight r && (match header H_ORIGIN r with Some _ => true | None => false end) then
        XL [XN 0; XN 204; XL (acao ++ [XL [XB H_ACAM; XB (B "*")]; XL [XB H_ACAH; XB []]; XL [XB H_ACMA; XB (B "604800")]]); XB []]
      else XL [XN 0; XN (w_status plain); XL (acao ++ own); XB (w_body plain)]
  end.
Definition run_conn_spec (x : xval) : xval :=
  match x with
  | XL [c; XL ops] =>
      match d_cfg c, d_all d_cop ops with
      | Some (base, wc', rs, hs, ca', st), Some ops' =>
          match build_hist parse_uri rs with
          | Ok hist =>
              let cfg := mkCfgC (base =? 0) wc' (rs_build rs_add hist) hs false in
              XL [XN 0; XL (map (fun o => match o with CReq r => spec_one hist wc' cfg st r | CClear => XL [] end) ops')]
          | _ => XL [XN 96]
          end
      | _, _ => bad_input
      end
  | _ => bad_input
  end.

(** "cors.parse": the parser transcription itself, compared with [Uri::try_from] *)
Definition run_parse (x : xval) : xval :=
  match d_list d_B x with
  | Some l => XL (map (fun b => match parse_uri b with
                                | None => XL []
                                | Some u => XL [x_option XB (u_scheme u); x_option XB (u_host u); x_option XN (u_port u)]
                                end) l)
  | None => bad_input
  end.

(** "cors.resolved": [Cors::resolved_path] through [check_cors_request] is private; the model's version is
    compared through "cors.check" with percent-encoded and double-slash paths *)

Definition cors_table : list (bytes * (xval -> xval)) :=
  [ (B "cors.parse", run_parse); (B "cors.check", run_check); (B "cors.check_v0", run_check_v0); (B "cors.check_v1", run_check_v1);
    (B "cors.check_spec", run_check_spec);
    (B "cors.conn", run_conn_x); (B "cors.conn_v0", run_conn_v0); (B "cors.conn_raw0", run_conn_raw0);
    (B "cors.conn_rewrite0", run_conn_rewrite0); (B "cors.conn_denied0", run_conn_denied0);
    (B "cors.conn_nocache", run_conn_nocache); (B "cors.conn_spec", run_conn_spec) ].
