(** C13 — CORS: model of [kvarn::cors] (src/cors.rs: [Cors::check_cors_request],
    [Cors::is_part_of_origin], [AllowList::{new,add_origin_uri,add_method,allow_all_methods,add_header,
    allow_all_origins,check}], [MethodAllowList::{allowed,to_bytes}], [options_prepare],
    [Extensions::{with_disallow_cors,with_cors}]), of the way its Prime extensions act in
    [Extensions::resolve_prime] (src/extensions.rs) and [kvarn::handle_cache] (src/lib.rs: the override
    URI is the cache *lookup* key and the Prepare key, the request URI the *insert* key), and of the
    [access-control-allow-origin] Package run by [SendKind::send].  Rule sets are Model/RuleSet.v,
    the cache is Model/Cache.v, the registration order of the primes is Model/Registry.v's reference
    map.  Definitions only; proofs live in Proofs/CorsProofs.v. *)
From KV Require Import Registry.
From KV Require Export Bytes RustInt Range CacheControl Cache Fixture RuleSet.
Open Scope N_scope.

(** ---- methods ([http::Method] is an abstract type with equality; here a number) ---- *)
Definition M_PUT : N := 4. Definition M_DELETE : N := 5. Definition M_PATCH : N := 6.
Definition cors_method_of_bytes (m : bytes) : option N :=
  if beq m (B "GET") then Some M_GET else if beq m (B "HEAD") then Some M_HEAD
  else if beq m (B "POST") then Some M_POST else if beq m (B "OPTIONS") then Some M_OPTIONS
  else if beq m (B "PUT") then Some M_PUT else if beq m (B "DELETE") then Some M_DELETE
  else if beq m (B "PATCH") then Some M_PATCH else None.
Definition cors_method_name (m : N) : bytes :=
  if m =? M_GET then B "GET" else if m =? M_HEAD then B "HEAD" else if m =? M_POST then B "POST"
  else if m =? M_OPTIONS then B "OPTIONS" else if m =? M_PUT then B "PUT"
  else if m =? M_DELETE then B "DELETE" else B "PATCH".

(** ---- stand-in for [http::Uri::try_from(&[u8])] (http 1.5.0: uri/mod.rs [from_shared], [parse_full],
    scheme.rs [Scheme2::parse], authority.rs [validate_authority_bytes], [host], [port]) on the grammar
    [scheme "://" host [":" port] ["/" ...]]  |  [host [":" port]]  |  a string with a byte that is no
    URI character.  Userinfo, brackets, percent signs and sub-delimiters are outside the grammar
    (rejected here; such inputs are counted as out-of-domain by the correspondence). ---- *)
Record uparts := mkU { u_scheme : option bytes; u_host : option bytes; u_port : option N }.

Definition is_alpha (c : N) : bool := ((65 <=? c) && (c <=? 90)) || ((97 <=? c) && (c <=? 122)).
Definition is_alnum (c : N) : bool := is_alpha c || is_digit c.
Definition scheme_char (c : N) : bool := is_alnum c || (c =? 43) || (c =? 45) || (c =? 46).
Definition host_char (c : N) : bool := is_alnum c || (c =? 45) || (c =? 46) || (c =? 95) || (c =? 126).
Definition c_colon : N := 58. Definition c_slash : N := 47.

(** the scan of [Scheme2::parse]: [Some i] = a ':' at [i] followed by "//" *)
Fixpoint scan_scheme (s : bytes) (i : nat) : option nat :=
  match s with
  | [] => None
  | c :: r =>
      if c =? c_colon then (if starts_with (B "//") r then Some i else None)
      else if scheme_char c then scan_scheme r (S i) else None
  end.
Inductive scheme2 := SchNone | SchStd (name : bytes) (len : nat) | SchOther (n : nat) | SchErr.
Definition parse_scheme (s : bytes) : scheme2 :=
  if Nat.leb 7 (length s) && beq (lower (firstn 7 s)) (B "http://") then SchStd (B "http") 4
  else if Nat.leb 8 (length s) && beq (lower (firstn 8 s)) (B "https://") then SchStd (B "https") 5
  else if Nat.ltb 3 (length s) then
    match scan_scheme s O with
    | Some i => if Nat.ltb 64 i then SchErr else SchOther i
    | None => SchNone
    end
  else SchNone.

(** [validate_authority_bytes]: end of the authority (first '/', '?', '#') and number of colons *)
Fixpoint auth_scan (s : bytes) (i colons : nat) : option (nat * nat) :=
  match s with
  | [] => Some (i, colons)
  | c :: r =>
      if (c =? c_slash) || (c =? 63) || (c =? 35) then Some (i, colons)
      else if c =? c_colon then auth_scan r (S i) (S colons)
      else if host_char c then auth_scan r (S i) colons
      else None
  end.
Definition parse_authority (s : bytes) : option nat :=
  match s with
  | [] => None
  | _ => match auth_scan s O O with
         | Some (e, colons) => if Nat.ltb 1 colons then None else Some e
         | None => None
         end
  end.
Definition auth_host (a : bytes) : bytes :=
  match find_byte c_colon a with Some i => firstn i a | None => a end.
Definition auth_port (a : bytes) : option N :=
  match find_byte c_colon a with Some i => parse_uint 65535 (skipn (S i) a) | None => None end.

Definition parse_uri (s : bytes) : option uparts :=
  match s with
  | [] => None
  | c :: r =>
      if (c =? c_slash) then Some (mkU None None None)
      else if (c =? 42) && Nat.eqb (length r) 0 then Some (mkU None None None)
      else
        let full (sch rest : bytes) :=
          match parse_authority rest with
          | Some e => if Nat.eqb e 0 then None
                      else let a := firstn e rest in Some (mkU (Some sch) (Some (auth_host a)) (auth_port a))
          | None => None
          end in
        match parse_scheme s with
        | SchErr => None
        | SchNone =>
            match parse_authority s with
            | Some e => if Nat.eqb e (length s) then Some (mkU None (Some (auth_host s)) (auth_port s)) else None
            | None => None
            end
        | SchStd name n => full name (skipn (n + 3) s)
        | SchOther n => full (firstn n s) (skipn (n + 3) s)
        end
  end.

(** ---- [Cors::is_part_of_origin] ---- *)
Definition opt_beq (a c : option bytes) : bool :=
  match a, c with Some x, Some y => beq x y | None, None => true | _, _ => false end.
Definition opt_neq (a c : option N) : bool :=
  match a, c with Some x, Some y => x =? y | None, None => true | _, _ => false end.

(** [str::split_once("://")] *)
Definition split_once_sep (s : bytes) : option (bytes * bytes) :=
  match find_sub (B "://") s with
  | Some i => Some (firstn i s, skipn (i + 3) s)
  | None => None
  end.

(** after the repair (an origin without "://" is never the request's own origin) *)
Definition is_part_of_origin (origin : bytes) (uri_scheme uri_authority : option bytes) : bool :=
  match split_once_sep origin with
  | None => false
  | Some (origin_scheme, origin_authority) =>
      if negb (opt_beq (Some origin_scheme) uri_scheme) then false
      else opt_beq uri_authority (Some origin_authority)
  end.
(** as it was: ["localhost"] and ["null"] counted as the request's own origin *)
Definition is_part_of_origin_v0 (origin : bytes) (uri_scheme uri_authority : option bytes) : bool :=
  match split_once_sep origin with
  | None => beq origin (B "localhost") || beq origin (B "null")
  | Some (origin_scheme, origin_authority) =>
      if negb (opt_beq (Some origin_scheme) uri_scheme) then false
      else opt_beq uri_authority (Some origin_authority)
  end.

(** ---- [AllowList] ---- *)
(** an allowed origin: [add_origin_uri] asserts that it has a host and a scheme, so [check]'s
    [allowed.scheme().map_or("https", ..)] and [allowed.host().unwrap()] always see them *)
Record aorigin := mkAO { ao_scheme : bytes; ao_host : bytes; ao_port : option N }.
Record allow_list := mkAL {
  al_allowed : list aorigin; al_all : bool; al_methods : option (list N);
  al_headers : list bytes; al_cache_ms : N }.
Definition al_new (cache_ms : N) : allow_list := mkAL [] false (Some [M_GET; M_HEAD; M_OPTIONS]) [] cache_ms.
(** [add_origin]: [Uri::try_from(..).unwrap()], then the two [assert!]s of [add_origin_uri] *)
Definition al_add_origin (parse : bytes -> option uparts) (al : allow_list) (o : bytes) : outcome allow_list :=
  match parse o with
  | None => Panic
  | Some u =>
      match u_host u, u_scheme u with
      | Some h, Some sch =>
          Ok (mkAL (al_allowed al ++ [mkAO sch h (u_port u)]) (al_all al) (al_methods al) (al_headers al) (al_cache_ms al))
      | _, _ => Panic
      end
  end.
Definition al_allow_all_origins (al : allow_list) : allow_list :=
  mkAL (al_allowed al) true (al_methods al) (al_headers al) (al_cache_ms al).
Definition mem_N (x : N) (l : list N) : bool := existsb (N.eqb x) l.
Definition mem_bytes (x : bytes) (l : list bytes) : bool := existsb (beq x) l.
Definition al_add_method (al : allow_list) (m : N) : allow_list :=
  let ms := match al_methods al with Some l => l | None => [] end in
  mkAL (al_allowed al) (al_all al) (Some (if mem_N m ms then ms else ms ++ [m])) (al_headers al) (al_cache_ms al).
Definition al_allow_all_methods (al : allow_list) : allow_list :=
  mkAL (al_allowed al) (al_all al) None (al_headers al) (al_cache_ms al).
Definition al_add_header (al : allow_list) (h : bytes) : allow_list :=
  mkAL (al_allowed al) (al_all al) (al_methods al) (if mem_bytes h (al_headers al) then al_headers al else al_headers al ++ [h]) (al_cache_ms al).

(** what [check] returns: the method allow list ([None] = [MethodAllowList::All]), the headers, max-age *)
Definition grant := (option (list N) * list bytes * N)%type.
Definition al_grant (al : allow_list) : grant := (al_methods al, al_headers al, al_cache_ms al).
Definition origin_matches (allowed : aorigin) (origin : uparts) : bool :=
  opt_beq (Some (ao_host allowed)) (u_host origin) && opt_neq (ao_port allowed) (u_port origin)
  && opt_beq (Some (ao_scheme allowed)) (u_scheme origin).
Definition al_check (al : allow_list) (origin : uparts) : option grant :=
  if al_all al then Some (al_grant al)
  else if existsb (fun allowed => origin_matches allowed origin) (al_allowed al) then Some (al_grant al)
  else None.
Definition method_allowed (ms : option (list N)) (m : N) : bool :=
  match ms with None => true | Some l => mem_N m l end.

(** ---- [Cors::check_cors_request] ---- *)
Definition same_origin_grant : grant := (None, [], 604800000).
Section Check.
  Variable parse : bytes -> option uparts.          (* [Uri::try_from] *)
  Variable ipo : bytes -> option bytes -> option bytes -> bool.   (* [is_part_of_origin] (repaired or v0) *)
  Variable get : bytes -> option allow_list.        (* [RuleSet::get] *)

  Definition check_cors_request (m : N) (uri_scheme uri_authority : option bytes) (path : bytes)
             (origin : option bytes) : option grant :=
    match origin with
    | None => Some same_origin_grant
    | Some o =>
        if to_str_ok o && ipo o uri_scheme uri_authority then Some same_origin_grant
        else
          match parse o with
          | Some ou =>
              match (match get path with Some cal => al_check cal ou | None => None end) with
              | Some allowed => if method_allowed (fst (fst allowed)) m then Some allowed else None
              | None => None
              end
          | None => None
          end
    end.
End Check.

(** ---- the property's decision function, written independently of the code's structure:
    same origin = the header is literally [scheme "://" authority]; otherwise allowed iff the rule
    found by [lookup] (in the oracle run: Model/RuleSet.v's [resolve], the most specific rule of the
    configuration history) allows every origin or lists one with equal scheme, host and port, and
    allows the method. ---- *)
Inductive verdict := VSame | VAllow (g : grant) | VRefuse.
Definition cors_spec (parse : bytes -> option uparts) (lookup : bytes -> option allow_list)
           (m : N) (scheme authority path : bytes) (origin : option bytes) : verdict :=
  match origin with
  | None => VSame
  | Some o =>
      if to_str_ok o && beq o (scheme ++ B "://" ++ authority) then VSame
      else match lookup path, parse o with
           | Some al, Some ou =>
               if (al_all al || existsb (fun a => opt_beq (Some (ao_scheme a)) (u_scheme ou) && opt_beq (Some (ao_host a)) (u_host ou)
                                                  && opt_neq (ao_port a) (u_port ou)) (al_allowed al))
                  && (match al_methods al with None => true | Some l => mem_N m l end)
               then VAllow (al_methods al, al_headers al, al_cache_ms al) else VRefuse
           | _, _ => VRefuse
           end
  end.

(** ---- preflight response ([options_prepare]) ---- *)
Fixpoint join_comma (l : list bytes) : bytes :=
  match l with
  | [] => []
  | [x] => x
  | x :: r => x ++ B ", " ++ join_comma r
  end.
Definition methods_bytes (ms : option (list N)) : bytes :=
  match ms with None => B "*" | Some l => join_comma (map cors_method_name l) end.
(** [cache_for.as_secs() + u64::from(cache_for.subsec_nanos() > 0)], the duration given in ms *)
Definition max_age_secs (ms : N) : N := ms / 1000 + (if ms mod 1000 =? 0 then 0 else 1).
Definition H_ACAO := B "access-control-allow-origin".
Definition H_ACAM := B "access-control-allow-methods".
Definition H_ACAH := B "access-control-allow-headers".
Definition H_ACMA := B "access-control-max-age".
Definition DENIED : bytes := B "CORS request denied".
Definition denied_fat : fat := mkFat 403 [] DENIED SP_FULL true.
Definition options_fat (allowed : option grant) : fat :=
  match allowed with
  | None => denied_fat
  | Some (methods, headers, cache_ms) =>
      mkFat 204 [(H_ACAM, methods_bytes methods); (H_ACAH, join_comma headers); (H_ACMA, dec (max_age_secs cache_ms))]
            [] SP_NONE true
  end.

(** ---- the host's extensions ---- *)
Inductive prime_id := P_deny | P_with_cors | P_options | P_uri_redirect.
Definition with_uri_redirect (l : list (Z * prime_id)) := ref_add l (-100)%Z P_uri_redirect.
Definition with_disallow_cors (l : list (Z * prime_id)) :=
  ref_add (ref_add l 16777216%Z P_deny) 16777215%Z P_options.
Definition with_cors_primes (l : list (Z * prime_id)) := ref_add (with_disallow_cors l) 16777216%Z P_with_cors.

Record ccfg := mkCfgC {
  cc_new : bool;                       (* [Extensions::new()] (has [uri_redirect]) or [Extensions::empty()] *)
  cc_with_cors : bool;                 (* [with_cors(rules)] or only [with_disallow_cors()] *)
  cc_rules : ruleset allow_list;
  cc_handlers : list (bytes * N);      (* marker Prepare handlers: path, server cache preference *)
  cc_cache : bool }.

Definition prime_list (cfg : ccfg) : list (Z * prime_id) :=
  let base := if cc_new cfg then with_disallow_cors (with_uri_redirect []) else [] in
  if cc_with_cors cfg then with_cors_primes base else with_disallow_cors base.

Definition OV_FAIL := B "/./cors_fail".
Definition OV_OPTIONS := B "/./cors_options".
Definition H_ORIGIN := B "origin".
Definition H_HOST := B "host".
Definition H_ACRM := B "access-control-request-method".

(** the application's Prepare extensions bound to a path ([prepare_single]): key (the override URI's path,
    else the request's path) and request to response + invocation log; [None] = nothing mounted there.
    The marker handlers of the correspondence (harness/src/c13.rs): a later one for the same path wins. *)
Definition app_handlers := bytes -> request -> option (fat * list bytes).
Fixpoint find_marker (p : bytes) (hs : list (bytes * N)) (i : nat) (acc : option (nat * N)) : option (nat * N) :=
  match hs with
  | [] => acc
  | (q, sp) :: r => find_marker p r (S i) (if beq q p then Some (i, sp) else acc)
  end.
Definition marker_app (hs : list (bytes * N)) : app_handlers := fun key r =>
  match find_marker key hs O None with
  | Some (i, sp) => Some (mkFat 200 [] (B "h" ++ dec (N.of_nat i) ++ B ":" ++ rq_path r) sp true, [B "h" ++ dec (N.of_nat i)])
  | None => None
  end.

Section Pipe.
  Variable parse : bytes -> option uparts.
  Variable ipo : bytes -> option bytes -> option bytes -> bool.
  Variable conn_scheme : bytes.          (* "http" on a [PortDescriptor::unsecure], "https" with TLS *)
  Variable cfg : ccfg.
  Variable app : app_handlers.           (* arbitrary in the theorems; [marker_app (cc_handlers cfg)] in the run *)

  (** the request URI of an HTTP/1 request is [scheme "://" Host-header target] (kvarn_async::read::request) *)
  Definition req_check (rules : ruleset allow_list) (r : request) : option grant :=
    check_cors_request parse ipo (rs_get rules) (rq_method r) (Some conn_scheme) (header H_HOST r)
                       (rq_path r) (header H_ORIGIN r).

  (** a Prime returns [Option<Uri>]: here path and query *)
  Definition call_prime (p : prime_id) (r : request) : option (bytes * option bytes) :=
    match p with
    | P_deny =>
        let missmatch :=
          match header H_ORIGIN r with
          | None => false
          | Some o => if to_str_ok o then negb (ipo o (Some conn_scheme) (header H_HOST r)) else true
          end in
        if missmatch then Some (OV_FAIL, None) else None
    | P_with_cors =>
        match req_check (cc_rules cfg) r with Some _ => None | None => Some (OV_FAIL, None) end
    | P_options =>
        if (rq_method r =? M_OPTIONS)
           && (match header H_ORIGIN r with Some _ => true | None => false end)
           && (match header H_ACRM r with Some _ => true | None => false end)
        then Some (OV_OPTIONS, None) else None
    | P_uri_redirect =>
        let r' := uri_redirect r in
        if beq (rq_path r') (rq_path r) then None else Some (rq_path r', rq_query r')
    end.

  (** [Extensions::resolve_prime] *)
  Fixpoint resolve_prime (l : list (Z * prime_id)) (r : request) (uri : option bytes) : request * option bytes :=
    match l with
    | [] => (r, uri)
    | (_, p) :: rest =>
        match call_prime p r with
        | Some (path, query) =>
            if starts_with (B "/./") path then resolve_prime rest r (Some path)
            else resolve_prime rest (mkReq (rq_method r) path query (rq_headers r) (rq_addr r)) uri
        | None => resolve_prime rest r uri
        end
    end.

  (** [handle_request] on a host with [disable_fs]: the Prepare bound to the override URI's path, else to
      the request's path; [/./cors_options] is [options_prepare] with the rules of [with_cors] (or the
      empty rule set of [with_disallow_cors]); no handler = 404. *)
  Definition options_rules : ruleset allow_list := if cc_with_cors cfg then cc_rules cfg else [].
  Definition compute_ov (hs : unit) (r : request) (ov : option bytes) (ok : bool) : fat * unit * list bytes :=
    if negb ok then (error_fat (if range_part_ok r then 400 else 416) SP_NONE, hs, [])
    else
      let key := match ov with Some u => u | None => rq_path r end in
      match app key r with
      | Some (f, lg) => (f, hs, lg)
      | None =>
          if beq key OV_FAIL then (denied_fat, hs, [])
          else if beq key OV_OPTIONS then (options_fat (req_check options_rules r), hs, [])
          else (error_fat 404 SP_FULL, hs, [])
      end.

  (** ---- [handle_cache] with an override URI: [Model/Cache.v]'s [serve] where the lookup key comes from
      the override URI ([UriKey::path_and_query(overide_uri.unwrap_or(request.uri()))]) and the layer
      below is keyed by it, while [maybe_cache] stores under the request's own URI. ---- *)
  Definition no_negotiate (r : request) (f : fat) : option (N * bytes) := None.
  Definition no_vary_tuple (r : request) : tuple := [].
  Definition no_vary_header (r : request) (f : fat) : list (bytes * bytes) := [].
  Definition key_request (r : request) (ov : option bytes) : request :=
    match ov with Some u => mkReq (rq_method r) u None (rq_headers r) (rq_addr r) | None => r end.

  (** [handle_cache] after [resolve_prime]: [r] is the request as the primes left it, [ov] the override URI *)
  Definition serve_core (st : state unit) (now : N) (ok : bool) (r : request) (ov : option bytes)
    : state unit * reply * list bytes :=
    let '(c, hs) := st in
    let comp := fun hs r ok => compute_ov hs r ov ok in
    if negb (cc_cache cfg) then
      let '(f, hs', lg) := comp hs r ok in
      ((c, hs'), finish no_negotiate no_vary_header r f false false, lg)
    else
    let '((k, found), c1) := lookup (key_request r ov) c now in
    match found with
    | Some e =>
        if ok && get_or_head (rq_method r) then
          let ims := match header (B "if-modified-since") r with Some v => parse_ims_fix v | None => None end in
          if match ims with Some t => ims_fresh t (e_created e) | None => false end then
            ((c1, hs),
             {| rp_status := 304; rp_headers := []; rp_body := []; rp_identity := [];
                rp_last_modified := true; rp_from_cache := true |}, [])
          else
            match v_find (no_vary_tuple r) (e_vars e) with
            | Some f => ((c1, hs), finish no_negotiate no_vary_header r f true true, [])
            | None =>
                let '(f, hs', lg) := comp hs r ok in
                let e' := {| e_vars := (no_vary_tuple r, f) :: e_vars e; e_created := now;
                             e_life := option_map (fun l => l - (now - e_created e)) (e_life e) |} in
                ((c_insert k e' c1, hs'), finish no_negotiate no_vary_header r f true true, lg)
            end
        else miss unit comp (cc_cache cfg) true no_negotiate no_vary_tuple no_vary_header c1 hs now r ok
    | None => miss unit comp (cc_cache cfg) true no_negotiate no_vary_tuple no_vary_header c1 hs now r ok
    end.
  Definition serve_ov (st : state unit) (now : N) (r0 : request) : state unit * reply * list bytes :=
    let '(r, ov) := resolve_prime (prime_list cfg) r0 None in
    serve_core st now (sanitize_ok_fix r0) r ov.

  (** ---- the Package of [with_cors] (priority -1024), applied by [SendKind::send] to every response,
      cached or not, with the request as the primes left it ---- *)
  Fixpoint set_header (n v : bytes) (hs : list (bytes * bytes)) : list (bytes * bytes) :=
    match hs with
    | [] => [(n, v)]
    | (k, w) :: r => if beq k n then (n, v) :: r else (k, w) :: set_header n v r
    end.
  Definition cors_package (r : request) (hs : list (bytes * bytes)) : list (bytes * bytes) :=
    if cc_with_cors cfg then
      match header H_ORIGIN r with
      | Some origin =>
          match req_check (cc_rules cfg) r with
          | Some _ => set_header H_ACAO origin hs
          | None => hs
          end
      | None => hs
      end
    else hs.

  (** what the client sees: status, headers after the Package, body (none for HEAD), handler log *)
  Record wire := mkWire { w_status : N; w_headers : list (bytes * bytes); w_body : bytes; w_log : list bytes }.
  Definition respond (st : state unit) (now : N) (r0 : request) : state unit * wire :=
    let '(st', rp, lg) := serve_ov st now r0 in
    let r := fst (resolve_prime (prime_list cfg) r0 None) in
    (st', mkWire (rp_status rp) (cors_package r (rp_headers rp))
                 (if rq_method r0 =? M_HEAD then [] else rp_body rp) lg).

  Inductive cop := CReq (r : request) | CClear.
  Fixpoint run_conn (st : state unit) (now : N) (ops : list cop) : list (option wire) :=
    match ops with
    | [] => []
    | CReq r :: rest => let '(st', w) := respond st now r in Some w :: run_conn st' now rest
    | CClear :: rest => None :: run_conn ([], snd st) now rest
    end.
  Fixpoint run_conn_state (st : state unit) (now : N) (ops : list (cop * N)) : state unit :=
    match ops with
    | [] => st
    | (CReq r, dt) :: rest => run_conn_state (fst (respond st (now + dt) r)) (now + dt) rest
    | (CClear, dt) :: rest => run_conn_state ([], snd st) (now + dt) rest
    end.

  (** ---- vocabulary of the theorems ---- *)
  (** the rules in force: those of [with_cors], none under the default [with_disallow_cors] *)
  Definition effective_rules : ruleset allow_list := if cc_with_cors cfg then cc_rules cfg else [].
  (** the property's verdict on a request (decision function [cors_spec], rule found by [RuleSet::get]) *)
  Definition req_verdict (r : request) : verdict :=
    cors_spec parse (rs_get effective_rules) (rq_method r) conn_scheme
              (match header H_HOST r with Some a => a | None => [] end) (rq_path r) (header H_ORIGIN r).
  (** the request as the non-CORS primes leave it ([uri_redirect] of [Extensions::new()]) *)
  Definition rw (r : request) : request := if cc_new cfg then uri_redirect r else r.
  (** complement of the known class [acao_path_rewrite]: the rewritten path has the same rule *)
  Definition stable (r : request) : Prop :=
    rs_get effective_rules (rq_path (rw r)) = rs_get effective_rules (rq_path r).
  (** cache keys of internal routes: never stored by any history (invariant [no_internal]) *)
  Definition key_internal (k : key) : bool :=
    match k with KPath p => starts_with (B "/./") p | KPathQuery s i => starts_with (B "/./") (firstn i s) end.
  Definition no_internal (c : cache) : Prop := forall k e, In (k, e) c -> key_internal k = false.
End Pipe.
(** no application handler is mounted on an internal route *)
Definition app_external (app : app_handlers) : Prop := forall key r, starts_with (B "/./") key = true -> app key r = None.

(** ---- xval interface ---- *)
Definition d_method (x : xval) : option N := match x with XB m => cors_method_of_bytes m | _ => None end.

Record rule_spec := mkRS {
  rsp_path : bytes; rsp_origins : list bytes; rsp_all : bool; rsp_mclear : bool;
  rsp_methods : list N; rsp_headers : list bytes; rsp_ms : N }.
Definition d_rule (x : xval) : option rule_spec :=
  match x with
  | XL [XB p; os; a; mc; ms; hs; XN t] =>
      match d_list d_B os, d_bool a, d_bool mc, d_list d_method ms, d_list d_B hs with
      | Some os', Some a', Some mc', Some ms', Some hs' => Some (mkRS p os' a' mc' ms' hs' t)
      | _, _, _, _, _ => None
      end
  | _ => None
  end.

(** the builder calls the harness makes (harness/src/c13.rs [build_rules]) *)
Fixpoint add_origins (parse : bytes -> option uparts) (al : allow_list) (os : list bytes) : outcome allow_list :=
  match os with
  | [] => Ok al
  | o :: r => obind (al_add_origin parse al o) (fun al' => add_origins parse al' r)
  end.
Definition build_allow_list (parse : bytes -> option uparts) (s : rule_spec) : outcome allow_list :=
  let al0 := al_new (rsp_ms s) in
  let al1 := if rsp_mclear s then al_allow_all_methods al0 else al0 in
  let al2 := fold_left al_add_method (rsp_methods s) al1 in
  obind (add_origins parse al2 (rsp_origins s)) (fun al3 =>
  let al4 := if rsp_all s then al_allow_all_origins al3 else al3 in
  Ok (fold_left al_add_header (rsp_headers s) al4)).
Fixpoint build_hist (parse : bytes -> option uparts) (l : list rule_spec) : outcome (list (bytes * allow_list)) :=
  match l with
  | [] => Ok []
  | s :: r => obind (build_allow_list parse s) (fun al => obind (build_hist parse r) (fun h => Ok ((rsp_path s, al) :: h)))
  end.

Definition x_grant (g : grant) : xval :=
  let '(ms, hs, t) := g in
  XL [x_option (fun l => XL (map (fun m => XB (cors_method_name m)) l)) ms; XL (map XB hs);
      XN (t / 1000); XN ((t mod 1000) * 1000000)].

(** "cors.check": (L rules (L (L method scheme authority path (L origin?)) ...)) *)
Definition d_probe (x : xval) : option (N * bytes * bytes * bytes * option bytes) :=
  match x with
  | XL [m; XB s; XB a; XB p; o] =>
      match d_method m, d_option d_B o with
      | Some m', Some o' => Some (m', s, a, p, o')
      | _, _ => None
      end
  | _ => None
  end.
Definition run_check_with (ipo : bytes -> option bytes -> option bytes -> bool) (x : xval) : xval :=
  match x with
  | XL [rules; probes] =>
      match d_list d_rule rules, d_list d_probe probes with
      | Some rs, Some ps =>
          match build_hist parse_uri rs with
          | Ok hist =>
              let rules := rs_build rs_add hist in
              XL [XN 0; XL (map (fun '(m, s, a, p, o) =>
                     x_option x_grant (check_cors_request parse_uri ipo (rs_get rules) m (Some s) (Some a) p o)) ps)]
          | _ => XL [XN 96]
          end
      | _, _ => bad_input
      end
  | _ => bad_input
  end.
Definition run_check := run_check_with is_part_of_origin.
Definition run_check_v0 := run_check_with is_part_of_origin_v0.

Definition x_verdict (v : verdict) : xval :=
  match v with VSame => XL [XN 0] | VAllow g => XL [XN 1; x_grant g] | VRefuse => XL [XN 2] end.
(** the decision function on the same probes, the rule looked up by the independent resolver *)
Definition run_check_spec (x : xval) : xval :=
  match x with
  | XL [rules; probes] =>
      match d_list d_rule rules, d_list d_probe probes with
      | Some rs, Some ps =>
          match build_hist parse_uri rs with
          | Ok hist =>
              XL [XN 0; XL (map (fun '(m, s, a, p, o) => x_verdict (cors_spec parse_uri (resolve hist) m s a p o)) ps)]
          | _ => XL [XN 96]
          end
      | _, _ => bad_input
      end
  | _ => bad_input
  end.

(** "cors.conn": (L (L base with_cors rules handlers cache) ops) *)
Definition d_handler (x : xval) : option (bytes * N) :=
  match x with XL [XB p; XN sp] => Some (p, sp) | _ => None end.
Definition d_hdr (x : xval) : option (bytes * bytes) :=
  match x with XL [XB a; XB c] => Some (a, c) | _ => None end.
(** the request as kvarn's HTTP/1 reader hands it on: [parse::headers] does [headers.insert(name, value)],
    so of a repeated header line the last one counts *)
Definition norm_headers (hs : list (bytes * bytes)) : list (bytes * bytes) :=
  fold_left (fun acc kv => filter (fun h => negb (beq (fst h) (fst kv))) acc ++ [kv]) hs [].
Definition d_cop (x : xval) : option cop :=
  match x with
  | XL [XN 0; m; XB t; hs] =>
      match d_method m, d_list d_hdr hs with
      | Some m', Some hs' => let '(p, q) := split_target t [] in Some (CReq (mkReq m' p q (norm_headers hs') 0))
      | _, _ => None
      end
  | XL [XN 2] => Some CClear
  | _ => None
  end.
Definition REPORT : list bytes := [H_ACAO; H_ACAM; H_ACAH; H_ACMA].
Definition x_wire (w : option wire) : xval :=
  match w with
  | None => XL []
  | Some w =>
      XL [XN (w_status w);
          XL (concat (map (fun n => match assoc n (w_headers w) with Some v => [XL [XB n; XB v]] | None => [] end) REPORT));
          XB (w_body w); XL (map XB (w_log w))]
  end.
Definition CONN_SCHEME := B "http".
Definition run_conn_with (ipo : bytes -> option bytes -> option bytes -> bool) (force_nocache : bool) (x : xval) : xval :=
  match x with
  | XL [XL [XN base; wc; rules; handlers; ca]; XL ops] =>
      match d_bool wc, d_list d_rule rules, d_list d_handler handlers, d_bool ca, d_all d_cop ops with
      | Some wc', Some rs, Some hs, Some ca', Some ops' =>
          match build_hist parse_uri rs with
          | Ok hist =>
              let cfg := mkCfgC (base =? 0) wc' (rs_build rs_add hist) hs (ca' && negb force_nocache) in
              XL [XN 0; XL (map x_wire (run_conn parse_uri ipo CONN_SCHEME cfg (marker_app hs) ([], tt) 0 ops'))]
          | _ => XL [XN 96]
          end
      | _, _, _, _, _ => bad_input
      end
  | _ => bad_input
  end.
Definition run_conn_x := run_conn_with is_part_of_origin false.
Definition run_conn_v0 := run_conn_with is_part_of_origin_v0 false.
Definition run_conn_nocache := run_conn_with is_part_of_origin true.

(** the property as an oracle on a history: per request the verdict of [cors_spec] (rule by [resolve])
    and what the property then prescribes about the reply, computed from the reply of the same request
    *without* its Origin on a cache-less server with the same handlers ([None] = nothing prescribed). *)
Definition strip_origin (r : request) : request :=
  mkReq (rq_method r) (rq_path r) (rq_query r) (filter (fun h => negb (beq (fst h) H_ORIGIN)) (rq_headers r)) (rq_addr r).
(** the application's handlers do not look at the Origin header *)
Definition app_ignores_origin (app : app_handlers) : Prop := forall key r, app key (strip_origin r) = app key r.
(** what the code's check returns for a verdict *)
Definition verdict_grant (v : verdict) : option grant :=
  match v with VSame => Some same_origin_grant | VAllow g => Some g | VRefuse => None end.
Definition has (n : bytes) (r : request) : bool := match header n r with Some _ => true | None => false end.
(** the shape the preflight Prime reacts to: OPTIONS with Origin and access-control-request-method *)
Definition pf_shape (r : request) : bool := (rq_method r =? M_OPTIONS) && has H_ORIGIN r && has H_ACRM r.
(** rule lookup by the independent resolver over the configuration history (none without [with_cors]) *)
Definition hist_lookup (cfg : ccfg) (hist : list (bytes * allow_list)) (p : bytes) : option allow_list :=
  if cc_with_cors cfg then resolve hist p else None.
Definition is_preflight (r : request) : bool :=
  (rq_method r =? M_OPTIONS) && (match header H_ACRM r with Some _ => true | None => false end).
Definition spec_one (hist : list (bytes * allow_list)) (with_cors : bool) (cfg : ccfg) (r : request) : xval :=
  let lookup := if with_cors then resolve hist else (fun _ => None) in
  let auth := match header H_HOST r with Some a => a | None => [] end in
  let v := cors_spec parse_uri lookup (rq_method r) CONN_SCHEME auth (rq_path r) (header H_ORIGIN r) in
  let plain := snd (respond parse_uri is_part_of_origin CONN_SCHEME
                      (mkCfgC (cc_new cfg) (cc_with_cors cfg) (cc_rules cfg) (cc_handlers cfg) false)
                      (marker_app (cc_handlers cfg)) ([], tt) 0 (strip_origin r)) in
  let acao := match header H_ORIGIN r with Some o => if with_cors then [XL [XB H_ACAO; XB o]] else [] | None => [] end in
  let head := rq_method r =? M_HEAD in
  if negb (sanitize_ok_fix r) then
    (* the request does not pass [sanitize_request] (C01's domain): only "a refused origin gets no
       access-control-allow-origin and no handler" is prescribed *)
    XL [XN 3; XN (match v with VRefuse => 2 | VAllow _ => 1 | VSame => 0 end)]
  else
  match v with
  | VRefuse => XL [XN 2; XN 403; XL []; XB (if head then [] else DENIED)]
  | VAllow (ms, hs, t) =>
      if is_preflight r && with_cors then
        XL [XN 1; XN 204; XL (acao ++ [XL [XB H_ACAM; XB (methods_bytes ms)]; XL [XB H_ACAH; XB (join_comma hs)];
                                       XL [XB H_ACMA; XB (dec (max_age_secs t))]]); XB []]
      else XL [XN 1; XN (w_status plain); XL acao; XB (w_body plain)]
  | VSame =>
      if is_preflight r && (match header H_ORIGIN r with Some _ => true | None => false end) then
        XL [XN 0; XN 204; XL (acao ++ [XL [XB H_ACAM; XB (B "*")]; XL [XB H_ACAH; XB []]; XL [XB H_ACMA; XB (B "604800")]]); XB []]
      else XL [XN 0; XN (w_status plain); XL acao; XB (w_body plain)]
  end.
Definition run_conn_spec (x : xval) : xval :=
  match x with
  | XL [XL [XN base; wc; rules; handlers; ca]; XL ops] =>
      match d_bool wc, d_list d_rule rules, d_list d_handler handlers, d_bool ca, d_all d_cop ops with
      | Some wc', Some rs, Some hs, Some ca', Some ops' =>
          match build_hist parse_uri rs with
          | Ok hist =>
              let cfg := mkCfgC (base =? 0) wc' (rs_build rs_add hist) hs false in
              XL [XN 0; XL (map (fun o => match o with CReq r => spec_one hist wc' cfg r | CClear => XL [] end) ops')]
          | _ => XL [XN 96]
          end
      | _, _, _, _, _ => bad_input
      end
  | _ => bad_input
  end.

(** "cors.parse": the stand-in parser itself, compared with [Uri::try_from] on the grammar *)
Definition run_parse (x : xval) : xval :=
  match d_list d_B x with
  | Some l => XL (map (fun b => match parse_uri b with
                                | None => XL []
                                | Some u => XL [x_option XB (u_scheme u); x_option XB (u_host u); x_option XN (u_port u)]
                                end) l)
  | None => bad_input
  end.

Definition cors_table : list (bytes * (xval -> xval)) :=
  [ (B "cors.parse", run_parse); (B "cors.check", run_check); (B "cors.check_v0", run_check_v0); (B "cors.check_spec", run_check_spec);
    (B "cors.conn", run_conn_x); (B "cors.conn_v0", run_conn_v0); (B "cors.conn_nocache", run_conn_nocache);
    (B "cors.conn_spec", run_conn_spec) ].
