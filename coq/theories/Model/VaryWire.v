(** C05 on the wire — what [SendKind::send] (src/lib.rs) does to the reply of [handle_cache] as far as the
    status, the body and the [vary] header are concerned: [CriticalRequestComponents::apply_to_response]
    (Model/Range.v: the range is cut out, [content-range] / [accept-ranges] are inserted), the
    [error::default(416, host, "Range start after end of body")] page that *replaces* the response when the
    range starts at or after the end of the body (never a 304: repair 9ae9b1a), the body that is dropped after a
    1xx / 204 / 304 head (repair 89e2956), [Extensions::resolve_package], and the rule that a HEAD
    request gets no body bytes.  What [send] does besides ([content-length], [connection], the version) touches
    neither of the three and is the subject of C08 (Model/Http1Write.v).
    Definitions only. *)
From KV Require Export Vary.
Open Scope N_scope.

Record wreply := mkW {
  w_status : N;
  w_headers : list (bytes * bytes);
  w_body : bytes;                  (* the body handed to the pipe; not written when the request is HEAD *)
  w_last_modified : bool }.

(** the [vary] value of a page: "accept-encoding, range" and the header of each rule, in rule order *)
Definition vary_text (refs : list rule) : bytes :=
  B "accept-encoding, range" ++ concat (map (fun ru => B ", " ++ ru_name ru) refs).

(** [vary::apply_header_from_settings] (added by the repair): the rules' names as a header list *)
Definition settings_headers (refs : list rule) : hcoll := map (fun ru => (ru_name ru, [])) refs.

Definition err416_headers : list (bytes * bytes) :=
  [(B "content-type", B "text/html; charset=utf-8"); (B "content-encoding", B "identity");
   (B "reason", B "Range start after end of body")].

Section Wire.
  Variable rules_of : bytes -> list rule.
  (** [resolve_package] for this request, on the header list of the response *)
  Variable package : request -> list (bytes * bytes) -> list (bytes * bytes).
  (** body of the 416 page ([utils::hardcoded_error_body] or [<host>/errors/416.html]) *)
  Variable err416_body : bytes.
  (** [true]: the repaired [send], which puts the page's [vary] header on the 416 page; [false]: as it was *)
  Variable fixed : bool.
  (** [true]: the 416 page lists the rule headers of the URI the response was cached under — the internal URI of a Prime
      extension, if any, which [handle_cache] leaves in the request's extensions ([extensions::InternalUri]) —, like the
      response it replaces; [false]: as it was after 21f0154 and before this repair: those of the request's own path *)
  Variable fix_ov : bool.

  (** 1xx, 204 and 304 responses end with the head: [send] drops their body first (repair 89e2956) *)
  Definition no_body_status (st : N) : bool := ((100 <=? st) && (st <=? 199)) || (st =? 204) || (st =? 304).
  Definition send_body (rp : reply) : bytes := if no_body_status (rp_status rp) then [] else rp_body rp.

  (** [q]: the request as [send] sees it (after the Prime extensions) and the override URI; [san]: [sanitize_data]
      ([None] = [Err], [Some range] = [Ok]); [rp]: what [handle_cache] returned.
      A 304 Not Modified is not range-sliced (repair 9ae9b1a: [if let (Ok(data), false) = (&data, not_modified)]):
      it goes out as it is, whatever the [range] header says. *)
  Definition send_v (q : routed) (san : option (option (N * N))) (rp : reply) : outcome wreply :=
    let r := fst q in
    let not_modified := rp_status rp =? 304 in
    match (if not_modified then None else san) with
    | None => Ok (mkW (rp_status rp) (package r (rp_headers rp)) (send_body rp) (rp_last_modified rp))
    | Some rg =>
        match apply_range true rg (rp_status rp) (send_body rp) with
        | Ok x =>
            let hs1 := match r_content_range x with
                       | Some cr => hm_insert (B "content-range") cr (rp_headers rp)
                       | None => rp_headers rp
                       end in
            let hs2 := if r_accept_ranges x then hm_insert (B "accept-ranges") (B "bytes") hs1 else hs1 in
            Ok (mkW (r_status x) (package r hs2) (r_body x) (rp_last_modified rp))
        | Err _ =>
            let hs := if fixed
                      then apply_header err416_headers err416_body
                                        (settings_headers (rules_of (if fix_ov then cpath q else rq_path r))) false
                      else err416_headers in
            Ok (mkW 416 (package r hs) err416_body false)
        | Panic => Panic
        end
    end.

  (** the body bytes on the wire *)
  Definition wire_body (r : request) (w : wreply) : bytes := if rq_method r =? M_HEAD then [] else w_body w.
End Wire.

(** ---- the fixture instance (harness/src/c05wire.rs) ---- *)
(** [sanitize_data] of a request (computed before the Prime extensions run) *)
Definition san_fix (r0 : request) : option (option (N * N)) :=
  if sanitize_ok_fix r0
  then match sanitize_range (header (B "range") r0) with Ok rg => Some rg | _ => None end
  else None.

(** the Package extensions of [Extensions::new()] (referrer-policy, content-security-policy, server, CORS) set
    headers of their own and leave [vary] alone; the run reports [vary] and [last-modified] only *)
Definition package_fix (r : request) (hs : list (bytes * bytes)) : list (bytes * bytes) := hs.

Definition x_wreply (report : list bytes) (r : request) (w : wreply) (lg : list bytes) : xval :=
  XL [XN (w_status w);
      report_headers report (mkReply (w_status w) (w_headers w) [] [] (w_last_modified w) false);
      XB (wire_body r w); XN 1; XL (map XB lg)].

Fixpoint wire_ops (fixed fix_ov : bool) (cfg : config) (routes : list route_t) (st : vcache * list N) (now : N) (ops : list op)
  : outcome (list xval) :=
  match ops with
  | [] => Ok []
  | o :: rest =>
      match stepV_fix cfg routes st now o with
      | Ok (st', now', ob, _) =>
          let x := match o, ob with
                   | OReq r0, ObReply rp lg =>
                       let q := prime_fix cfg routes r0 in
                       match send_v (rules_fix (cf_vary cfg)) package_fix ERRPAGE fixed fix_ov q (san_fix r0) rp with
                       | Ok w => x_wreply (cf_report cfg) (fst q) w lg
                       | _ => XL [XN 2]
                       end
                   | _, _ => x_obs (cf_report cfg) ob
                   end in
          match wire_ops fixed fix_ov cfg routes st' now' rest with
          | Ok l => Ok (x :: l)
          | o' => o'
          end
      | Err e => Err e
      | Panic => Panic
      end
  end.

Definition run_vary_wire_gen (fixed fix_ov : bool) (x : xval) : xval :=
  match x with
  | XL [c; XL ops] =>
      match d_config c, d_all d_op ops with
      | Some cfg, Some ops' =>
          if negb (rules_ok cfg) then XL [XN 2] else
          match wire_ops fixed fix_ov cfg (d_routes c) ([], repeat 0 (length (cf_handlers cfg) + 8)) (cf_phase cfg) ops' with
          | Ok l => XL l
          | Err e => XL [XN 1; XN e]
          | Panic => XL [XN 2]
          end
      | _, _ => bad_input
      end
  | _ => bad_input
  end.

Definition run_vary_wire := run_vary_wire_gen true true.
(** the model of [send] before the repair 21f0154: the 416 page carries no [vary] *)
Definition run_vary_wire_v0 := run_vary_wire_gen false false.
(** the model of [send] after 21f0154 and before the repair of the 416 page of an internal route: the rule headers of the
    request's own path *)
Definition run_vary_wire_ov_v0 := run_vary_wire_gen true false.

Definition varywire_table : list (bytes * (xval -> xval)) :=
  [ (B "vary.wire", run_vary_wire); (B "vary.wire_v0", run_vary_wire_v0); (B "vary.wire_ov_v0", run_vary_wire_ov_v0) ].
