(** C03 / C04 — the response-cache layer of [kvarn::handle_cache] (src/lib.rs) in full: Model/Cache.v
    extended by
      - streamed responses ([FatResponse::with_future*]: never stored, never negotiated),
      - the size of a body as a number ([fx_pad] filler bytes in front of the explicit body, so that the
        4 MiB limit is decided without materialising 4 MiB),
      - the host's status filter as a parameter ([host.options.status_code_cache_filter]),
      - the difference between the lookup key (the internal override URI of a Prime extension, if any)
        and the insert key (always the request URI),
      - [handle_vary_missing] with its admission test (the repaired code; [fix_vary = false] is the code
        before the repair, which pushed every computed variant),
      - per-variant bookkeeping (ghost field [v_stored]) so that "never served more than N seconds after it
        was stored" can be stated for every variant of an entry.
    Definitions only.  Component ["pipex.run"] (harness/src/c04x.rs). *)
From KV Require Export Bytes RustInt Range CacheControl Cache Fixture.
From KV Require Import RuleSet.
Open Scope N_scope.

(** ---- what the layer below returns ---- *)
Record fatx := mkFX {
  fx_fat : fat;
  fx_stream : option (option N);   (* [future]: None | Some None (no length) | Some (Some len) *)
  fx_pad : N }.                    (* identity body = [fx_pad] filler bytes ++ [f_body fx_fat] *)
Definition fx_len (x : fatx) : N := fx_pad x + N.of_nat (length (f_body (fx_fat x))).
Definition is_stream (x : fatx) : bool := match fx_stream x with Some _ => true | None => false end.
Definition plain (f : fat) : fatx := mkFX f None 0.

(** ---- admission: [get_cache] (no future, host has a cache, status filter, preference, method), then
    [insert_cache_item] ([kvarn-cache-control: none]) and [MokaCache::insert] (size limit) ---- *)
Definition wants_cache_x (cache_on : bool) (sfilter : N -> bool) (m : N) (x : fatx) : bool :=
  negb (is_stream x) && cache_on && pref_caches (f_spref (fx_fat x)) && negb (sfilter (f_status (fx_fat x)))
  && get_or_head m.
Definition may_store_x (cache_on : bool) (sfilter : N -> bool) (m : N) (x : fatx) : bool :=
  wants_cache_x cache_on sfilter m x && (fx_len x <? size_limit) && negb (kvarn_none (fx_fat x)).
Definition lifetime_x (x : fatx) : option N := lifetime_ms (fx_fat x).
(** the response depends on the query ([ServerCachePreference::query_matters]) *)
Definition qmx (x : fatx) : bool := f_spref (fx_fat x) =? SP_QUERY.

(** ---- entries: every variant remembers when it was computed and stored (ghost) ---- *)
Record variant := mkVar { v_tuple : tuple; v_resp : fatx; v_stored : N }.
Record entryx := mkEX {
  ex_vars : list variant;
  ex_created : N;                  (* ms; reset by every re-insert *)
  ex_life : option N }.            (* ms from [ex_created]; None = never expires *)
Definition cachex := list (key * entryx).

Fixpoint xc_find (k : key) (c : cachex) : option entryx :=
  match c with
  | [] => None
  | (k', e) :: r => if key_eqb k k' then Some e else xc_find k r
  end.
Fixpoint xc_remove (k : key) (c : cachex) : cachex :=
  match c with
  | [] => []
  | (k', e) :: r => if key_eqb k k' then xc_remove k r else (k', e) :: xc_remove k r
  end.
Definition xc_insert (k : key) (e : entryx) (c : cachex) : cachex := (k, e) :: xc_remove k c.

Definition xfresh (e : entryx) (now : N) : bool :=
  match ex_life e with None => true | Some l => now - ex_created e <=? l end.
(** absolute time after which the entry is no longer served; None = never *)
Definition x_expiry (e : entryx) : option N := option_map (fun l => ex_created e + l) (ex_life e).

(** [get_cache_item]: an expired entry is invalidated and reported absent. *)
Definition xget_item (k : key) (c : cachex) (now : N) : option entryx * cachex :=
  match xc_find k c with
  | Some e => if xfresh e now then (Some e, c) else (None, xc_remove k c)
  | None => (None, c)
  end.
(** lookup order of [handle_cache]: PathQuery key, then Path key — of the URI [lr] looked up. *)
Definition xlookup (lr : request) (c : cachex) (now : N) : (key * option entryx) * cachex :=
  match xget_item (key_pq lr) c now with
  | (Some e, c') => ((key_pq lr, Some e), c')
  | (None, c') =>
      match xget_item (key_p lr) c' now with
      | (res, c'') => ((key_p lr, res), c'')
      end
  end.

Fixpoint xv_find (t : tuple) (vs : list variant) : option variant :=
  match vs with
  | [] => None
  | v :: r => if tuple_eqb t (v_tuple v) then Some v else xv_find t r
  end.

(** a query-dependent response may only join an entry that is keyed with the query *)
Definition qm_key_ok (k : key) (x : fatx) : bool :=
  negb (qmx x) || match k with KPathQuery _ _ => true | KPath _ => false end.

(** remaining lifetime of the entry, capped by the lifetime of the variant pushed now *)
Definition min_life (remaining variant_life : option N) : option N :=
  match remaining, variant_life with
  | Some a, Some b => Some (N.min a b)
  | Some a, None => Some a
  | None, b => b
  end.

(** ---- replies ---- *)
Record replyx := mkRX {
  rx_status : N;
  rx_headers : list (bytes * bytes);
  rx_pad : N; rx_body : bytes;            (* decoded body sent = [rx_pad] filler bytes ++ [rx_body] *)
  rx_ipad : N; rx_identity : bytes;       (* [CacheReply::identity_body] *)
  rx_last_modified : bool;
  rx_from_cache : bool;                   (* answered by the hit arm (also when the variant was computed) *)
  rx_stream : option (option N) }.        (* [CacheReply::future] *)

Section LayerX.
  Variable hstate : Type.
  (** the layer below: request after the rewriting Primes, the internal override (path, query) if a Prime
      asked for one, result of [sanitize_request] *)
  Variable compute : hstate -> request -> option (bytes * option bytes) -> bool -> fatx * hstate * list bytes.
  Variable cache_on : bool.
  Variable ims_on : bool.                                   (* not disable_if_modified_since *)
  (** the three repairs made in the repo worktree; [false] = the code before the repair *)
  Variable fix_vary : bool.                                 (* [handle_vary_missing] applies the admission test *)
  Variable fix_ovkey : bool.                                (* the insert key is built from the URI that was looked up *)
  Variable fix_clear : bool.                                (* [clear_page] also clears the default-redirect target *)
  Variable fix_svary : bool.                                (* no vary header on a stream without length in either arm *)
  Variable fix_qmkey : bool.                                (* a query-dependent variant does not join an entry keyed by the path alone *)
  Variable fix_ims : bool.                                  (* 304 only when the entry holds the variant the request selects *)
  Variable sfilter : N -> bool.                             (* status filter: true = Drop *)
  Variable parse_ims : bytes -> option Z.
  Variable sanitize_ok : request -> bool.
  Variable prime : request -> request.                      (* Primes that rewrite the request URI *)
  Variable override : request -> option (bytes * option bytes).   (* Primes that answer "/./..." *)
  Variable negotiate : request -> fatx -> option (N * bytes).
  (** the transformed vary tuple / the vary header; [ov]: the rules are those of the URI the response is cached under *)
  Variable vary_tuple : request -> option (bytes * option bytes) -> tuple.
  Variable vary_header : request -> option (bytes * option bytes) -> fatx -> list (bytes * bytes).
  Variable clear_alias : request -> option request.         (* [uri_redirect_target] of a cleared URI *)

  (** the URI that is looked up: the override if there is one *)
  Definition lookup_req (r : request) (ov : option (bytes * option bytes)) : request :=
    match ov with
    | Some (p, q) => mkReq (rq_method r) p q (rq_headers r) (rq_addr r)
    | None => r
    end.

  (** [clone_preferred] (never for a stream: [compress] is forced to None) + [vary::apply_header].
      [miss_arm]: before the repair only the miss arm skipped the vary header of a stream without length. *)
  Definition finishX (r : request) (ov : option (bytes * option bytes)) (x : fatx) (lm cached miss_arm : bool) : replyx :=
    match (if is_stream x then None else negotiate r x) with
    | Some (st, body) =>
        {| rx_status := st; rx_headers := vary_header r ov (plain (mkFat st [] body SP_NONE false));
           rx_pad := 0; rx_body := body; rx_ipad := fx_pad x; rx_identity := f_body (fx_fat x);
           rx_last_modified := lm; rx_from_cache := cached; rx_stream := None |}
    | None =>
        {| rx_status := f_status (fx_fat x);
           rx_headers := f_headers (fx_fat x) ++
                         (if (miss_arm || fix_svary) && match fx_stream x with Some None => true | _ => false end then []
                          else vary_header r ov x);
           rx_pad := fx_pad x; rx_body := f_body (fx_fat x); rx_ipad := fx_pad x; rx_identity := f_body (fx_fat x);
           rx_last_modified := lm; rx_from_cache := cached; rx_stream := fx_stream x |}
    end.

  Definition statex := (cachex * hstate)%type.

  (** the miss arm: compute, [maybe_cache].  [last-modified] is added whenever [maybe_cache] went to the
      cache (even if the insert was then refused for size or [kvarn-cache-control: none]). *)
  Definition missX (c1 : cachex) (hs : hstate) (now : N) (r : request) (ov : option (bytes * option bytes)) (ok : bool)
    : statex * replyx * list bytes :=
    let '(x, hs', lg) := compute hs r ov ok in
    let lm := ims_on && wants_cache_x cache_on sfilter (rq_method r) x in
    if may_store_x cache_on sfilter (rq_method r) x then
      let e' := {| ex_vars := [mkVar (vary_tuple r ov) x now]; ex_created := now; ex_life := lifetime_x x |} in
      ((xc_insert (insert_key (if fix_ovkey then lookup_req r ov else r) (fx_fat x)) e' c1, hs'), finishX r ov x lm false true, lg)
    else ((c1, hs'), finishX r ov x lm false true, lg).

  (** [handle_vary_missing]: compute; if the new variant is admitted (always, before the repair) push it and
      re-insert the entry with the remaining lifetime (after the repair: capped by the variant's own) *)
  Definition vary_missingX (c1 : cachex) (hs : hstate) (now : N) (r : request) (ov : option (bytes * option bytes))
             (ok : bool) (k : key) (e : entryx) : statex * replyx * list bytes :=
    let '(x, hs', lg) := compute hs r ov ok in
    let rp := finishX r ov x ims_on true false in
    let remaining := option_map (fun l => l - (now - ex_created e)) (ex_life e) in
    if fix_vary then
      if may_store_x cache_on sfilter (rq_method r) x && (negb fix_qmkey || qm_key_ok k x) then
        let e' := {| ex_vars := mkVar (vary_tuple r ov) x now :: ex_vars e; ex_created := now;
                     ex_life := min_life remaining (lifetime_x x) |} in
        ((xc_insert k e' c1, hs'), rp, lg)
      else ((c1, hs'), rp, lg)
    else
      let e' := {| ex_vars := mkVar (vary_tuple r ov) x now :: ex_vars e; ex_created := now; ex_life := remaining |} in
      ((xc_insert k e' c1, hs'), rp, lg).

  (** [handle_cache] for one request at time [now] (ms). *)
  Definition serveX (st : statex) (now : N) (r0 : request) : statex * replyx * list bytes :=
    let '(c, hs) := st in
    let ok := sanitize_ok r0 in
    let r := prime r0 in
    let ov := override r0 in
    if negb cache_on then
      let '(x, hs', lg) := compute hs r ov ok in
      ((c, hs'), finishX r ov x false false true, lg)
    else
    let '((k, found), c1) := xlookup (lookup_req r ov) c now in
    match found with
    | Some e =>
        if ok && get_or_head (rq_method r) then
          let ims := if ims_on then match header (B "if-modified-since") r with
                                    | Some v => parse_ims v | None => None end
                     else None in
          if match ims with Some t => ims_fresh t (ex_created e) | None => false end
             && (negb fix_ims || match xv_find (vary_tuple r ov) (ex_vars e) with Some _ => true | None => false end) then
            ((c1, hs),
             {| rx_status := 304; rx_headers := []; rx_pad := 0; rx_body := []; rx_ipad := 0; rx_identity := [];
                rx_last_modified := ims_on; rx_from_cache := true; rx_stream := None |}, [])
          else
            match xv_find (vary_tuple r ov) (ex_vars e) with
            | Some v => ((c1, hs), finishX r ov (v_resp v) ims_on true false, [])
            | None => vary_missingX c1 hs now r ov ok k e
            end
        else
          missX c1 hs now r ov ok
    | None => missX c1 hs now r ov ok
    end.

  (** operations of a history *)
  Inductive opx :=
  | XReq (r : request)
  | XClearPage (r : request)      (* clear_page(host, uri): both keys of the uri as given *)
  | XClearAll
  | XWait (ms : N).

  Definition xclear_uri (r : request) (c : cachex) : cachex := xc_remove (key_p r) (xc_remove (key_pq r) c).
  Definition xhas_uri (r : request) (c : cachex) : bool :=
    match xc_find (key_pq r) c, xc_find (key_p r) c with None, None => false | _, _ => true end.
  (** [Collection::clear_page]: the URI as given and (after the repair) what the default redirect makes of it *)
  Definition xclear_page (r : request) (c : cachex) : cachex :=
    match (if fix_clear then clear_alias r else None) with
    | Some r' => xclear_uri r' (xclear_uri r c)
    | None => xclear_uri r c
    end.
  Definition xcleared (r : request) (c : cachex) : bool :=
    xhas_uri r c || match (if fix_clear then clear_alias r else None) with
                    | Some r' => xhas_uri r' (xclear_uri r c)
                    | None => false
                    end.

  Inductive obsx :=
  | XbReply (rp : replyx) (lg : list bytes)
  | XbCleared (found cleared : bool)
  | XbNone.

  Definition stepX (st : statex) (now : N) (o : opx) : statex * N * obsx :=
    match o with
    | XReq r => let '(st', rp, lg) := serveX st now r in (st', now, XbReply rp lg)
    | XClearPage r =>
        let '(c, hs) := st in
        ((xclear_page r c, hs), now, XbCleared true (cache_on && xcleared r c))
    | XClearAll => let '(c, hs) := st in (([], hs), now, XbNone)
    | XWait ms => (st, now + ms, XbNone)
    end.

  Fixpoint runX (st : statex) (now : N) (ops : list opx) : list obsx :=
    match ops with
    | [] => []
    | o :: rest => let '(st', now', ob) := stepX st now o in ob :: runX st' now' rest
    end.

  Fixpoint runX_state (st : statex) (now : N) (ops : list opx) : statex * N :=
    match ops with
    | [] => (st, now)
    | o :: rest => let '(st', now', _) := stepX st now o in runX_state st' now' rest
    end.
End LayerX.

(** ==== the extended fixture (harness/src/c04x.rs) ==== *)
Record behaviour := mkBeh { b_value : bytes; b_spec : hspec; b_pad : N; b_stream : N }.
Record xhandler := mkXH { xh_path : bytes; xh_sel : bytes; xh_behs : list behaviour }.

Definition d_behaviour (x : xval) : option behaviour :=
  match x with
  | XL [XB v; h; XN pad; XN stream] => option_map (fun h' => mkBeh v h' pad stream) (d_hspec h)
  | _ => None
  end.
Definition d_xhandler (x : xval) : option xhandler :=
  match x with
  | XL [XB p; XB sel; bs] =>
      match d_list d_behaviour bs with
      | Some (b :: r) => Some (mkXH p sel (b :: r))
      | _ => None
      end
  | _ => None
  end.

Fixpoint find_xhandler_last (p : bytes) (hs : list xhandler) (i : nat) (acc : option (nat * xhandler)) : option (nat * xhandler) :=
  match hs with
  | [] => acc
  | h :: r => find_xhandler_last p r (S i) (if beq (xh_path h) p then Some (i, h) else acc)
  end.

Definition select_behaviour (xh : xhandler) (r : request) : option behaviour :=
  let v := match xh_sel xh with [] => [] | _ => match header (xh_sel xh) r with Some v => v | None => [] end end in
  match find (fun b => beq (b_value b) v) (xh_behs xh) with
  | Some b => Some b
  | None => hd_error (xh_behs xh)
  end.

Definition stream_of (code : N) (len : N) : option (option N) :=
  if code =? 0 then None else if code =? 2 then Some (Some len) else Some None.
Definition stream_code (s : option (option N)) : N :=
  match s with None => 0 | Some None => 1 | Some (Some _) => 2 end.

Definition fat_of_spec (h : hspec) (n : N) (r : request) : fat :=
  {| f_status := h_status h; f_headers := with_client_cache (h_cpref h) (h_headers h);
     f_body := handler_body h n r; f_spref := h_spref h; f_compress := h_compress h |}.

(** [handle_request] over the fixture: sanitize error page; the Prepare extension bound to the path of the
    override URI (if any) or of the request URI — extended handlers replace plain ones of the same path
    (they are added later); 404. *)
(** the Prepare extension that [Extensions::new] binds to "/./cors_fail" *)
Definition CORS_FAIL : bytes := B "/./cors_fail".
Definition cors_fail_fat : fat :=
  {| f_status := 403; f_headers := with_client_cache 3 []; f_body := B "CORS request denied"; f_spref := SP_FULL;
     f_compress := true |}.

Definition compute_x (default_ext : bool) (handlers : list hspec) (xhandlers : list xhandler) (hs : list N) (r : request)
           (ov : option (bytes * option bytes)) (ok : bool) : fatx * list N * list bytes :=
  (* sanitize_request tests the path first (UnsafePath -> 400), then the range (RangeNotSatisfiable -> 416) *)
  if negb ok then (plain (error_fat (if negb (path_part_ok (rq_path r)) then 400 else 416) SP_NONE), hs, [])
  else
    let p := match ov with Some (p, _) => p | None => rq_path r end in
    if default_ext && beq p CORS_FAIL then (plain cors_fail_fat, hs, []) else
    match find_xhandler_last p (firstn 8 xhandlers) O None with
    | Some (i, xh) =>
        match select_behaviour xh r with
        | Some b =>
            let idx := (length handlers + i)%nat in
            let '(hs', n) := bump idx hs in
            let f := fat_of_spec (b_spec b) n r in
            let x0 := mkFX f None (b_pad b) in
            (mkFX f (stream_of (b_stream b) (fx_len x0)) (b_pad b), hs', [B "h" ++ dec (N.of_nat idx)])
        | None => (plain (error_fat 404 SP_FULL), hs, [])
        end
    | None =>
        match find_handler_last p handlers O None with
        | Some (i, h) =>
            let '(hs', n) := bump i hs in
            (plain (fat_of_spec h n r), hs', [B "h" ++ dec (N.of_nat i)])
        | None => (plain (error_fat 404 SP_FULL), hs, [])
        end
    end.

(** [vary::apply_header]: nothing on an empty body; a streamed response does not vary on range *)
(** the request whose path selects the vary rules: after the repair the URI the response is cached under *)
Definition vary_req (fix_ovkey : bool) (r : request) (ov : option (bytes * option bytes)) : request :=
  if fix_ovkey then match ov with Some (p, q) => mkReq (rq_method r) p q (rq_headers r) (rq_addr r) | None => r end else r.
(** the vary rules of a path: [Vary::rules_from_path] = [extensions::RuleSet::get] (Model/RuleSet.v, C14: [rs_add] = [add_mut], called by the
    harness in the order of the configuration's list; [rs_get] = first match of the sorted vector) — the exact rule, else the longest
    pattern "<prefix>*" whose prefix starts the path; no rule = [Settings::empty()] *)
Definition rules_for_x (p : bytes) (rules : list (bytes * list vrule)) : list vrule :=
  match rs_get (rs_build rs_add rules) p with Some rs => rs | None => [] end.
(** [VariedResponse::get_headers_for_request] over a rule list *)
Definition tuple_of_rules (rs : list vrule) (r : request) : tuple :=
  map (fun '(n, xf, d) => match header_text n r with Some v => xform xf v | None => d end) rs.
Definition vary_tuple_x (fix_ovkey : bool) (rules : list (bytes * list vrule)) (r : request) (ov : option (bytes * option bytes)) : tuple :=
  tuple_of_rules (rules_for_x (rq_path (vary_req fix_ovkey r ov)) rules) (vary_req fix_ovkey r ov).
Definition vary_header_x (fix_ovkey : bool) (rules : list (bytes * list vrule)) (r0 : request) (ov : option (bytes * option bytes)) (x : fatx) : list (bytes * bytes) :=
  let r := vary_req fix_ovkey r0 ov in
  if fx_len x =? 0 then []
  else
    let no_range := is_stream x && negb (match assoc (B "vary") (f_headers (fx_fat x)) with
                                         | Some v => to_str_ok v && contains_sub (B "range") v | None => false end) in
    [(B "vary", (if no_range then B "accept-encoding" else B "accept-encoding, range") ++
                concat (map (fun '(n, _, _) => B ", " ++ n) (rules_for_x (rq_path r) rules)))].

(** status filter menu: 0 default, 1 cache everything, 2 cache only 200 *)
Definition sfilter_fix (id : N) (s : N) : bool :=
  if id =? 1 then false else if id =? 2 then negb (s =? 200) else status_filter_drop s.

(** override Prime of the menu: (header, internal path) *)
Definition override_fix (ovp : option (bytes * bytes)) (r : request) : option (bytes * option bytes) :=
  match ovp with
  | Some (n, p) => if starts_with (B "/./") p then match header n r with Some _ => Some (p, None) | None => None end else None
  | None => None
  end.

(** [Cors::is_part_of_origin] against the URI the harness builds ("http://" host target) *)
Definition same_origin (origin : bytes) (authority : bytes) : bool :=
  match find_sub (B "://") origin with
  | Some i => beq (firstn i origin) (B "http") && beq (skipn (i + 3) origin) authority
  | None => false
  end.
(** the denial Prime of [Extensions::new] (with_disallow_cors): an Origin header that is not text or not the
    request's own origin reroutes to "/./cors_fail".  (The preflight Prime — OPTIONS with
    access-control-request-method — is outside the fixture: the generators never send that header.) *)
Definition cors_override (r : request) : option (bytes * option bytes) :=
  match header (B "origin") r with
  | Some o =>
      let authority := match header (B "host") r with Some h => h | None => B "localhost" end in
      if to_str_ok o && same_origin o authority then None else Some (CORS_FAIL, None)
  | None => None
  end.
(** all Primes in priority order; the last internal answer wins *)
Definition override_x (default_ext : bool) (ovp : option (bytes * bytes)) (r0 : request) : option (bytes * option bytes) :=
  let r := if default_ext then uri_redirect r0 else r0 in
  match override_fix ovp r with
  | Some o => Some o
  | None => if default_ext then cors_override r0 else None
  end.

(** [uri_redirect_target] with the default options, whether or not the redirect extension is mounted *)
Definition clear_alias_fix (r : request) : option request :=
  match rev (rq_path r) with
  | c :: _ => if (c =? 46) || (c =? 47) then Some (uri_redirect r) else None
  | [] => None
  end.

Record configx := mkCfgX {
  cx_base : config; cx_xhandlers : list xhandler; cx_sfilter : N; cx_ovprime : option (bytes * bytes);
  cx_fix_vary : bool; cx_fix_ovkey : bool; cx_fix_clear : bool; cx_fix_svary : bool; cx_fix_qmkey : bool; cx_fix_ims : bool }.

Definition d_configx (x : xval) : option configx :=
  match d_config x, x with
  | Some base, XL l =>
      let xh := match kv_get (B "xhandlers") l with Some v => d_list d_xhandler v | None => Some [] end in
      let sf := match kv_get (B "sfilter") l with Some (XN n) => n | _ => 0 end in
      let ovp := match kv_get (B "ovprime") l with Some (XL [XB n; XB p]) => Some (n, p) | _ => None end in
      match xh with
      | Some xh' => Some (mkCfgX base xh' sf ovp (negb (kv_flag (B "v0_vary") l false)) (negb (kv_flag (B "v0_ovkey") l false))
                                 (negb (kv_flag (B "v0_clear") l false)) (negb (kv_flag (B "v0_svary") l false))
                                 (negb (kv_flag (B "v0_qmkey") l false)) (negb (kv_flag (B "v0_ims") l false)))
      | None => None
      end
  | _, _ => None
  end.

Definition d_opx (x : xval) : option opx :=
  match d_op x with
  | Some (OReq r) => Some (XReq r)
  | Some (OClearPage r) => Some (XClearPage r)
  | Some OClearAll => Some XClearAll
  | Some (OWait ms) => Some (XWait ms)
  | None => None
  end.

(** a leading run of n >= 1 zero bytes is written "PAD<n>:" *)
Fixpoint leading_zeros (s : bytes) : nat :=
  match s with
  | c :: r => if c =? 0 then S (leading_zeros r) else O
  | [] => O
  end.
Definition canon_pad (pad : N) (body : bytes) : bytes :=
  let z := leading_zeros body in
  let n := pad + N.of_nat z in
  if n =? 0 then body else B "PAD" ++ dec n ++ B ":" ++ skipn z body.

Definition report_headers_x (report : list bytes) (rp : replyx) : xval :=
  let all := rx_headers rp ++ (if rx_last_modified rp then [(B "last-modified", [])] else []) in
  XL (concat (map (fun n =>
        match n with
        | 63 :: n' => match assoc n' all with Some _ => [XL [XB n'; XB []]] | None => [] end
        | _ => match assoc n all with Some v => [XL [XB n; XB v]] | None => [] end
        end) report)).

Definition x_obsx (report : list bytes) (o : obsx) : xval :=
  match o with
  | XbReply rp lg =>
      XL [XN (rx_status rp); report_headers_x report rp; XB (canon_pad (rx_pad rp) (rx_body rp)); XN 1;
          XB (canon_pad (rx_ipad rp) (rx_identity rp)); XL (map XB lg); XN (stream_code (rx_stream rp))]
  | XbCleared f c => XL [x_bool f; x_bool c]
  | XbNone => XL []
  end.

Definition run_cfgx (cache_on : bool) (cx : configx) (ops : list opx) : list obsx :=
  let cfg := cx_base cx in
  runX (list N) (compute_x (cf_default_ext cfg) (cf_handlers cfg) (cx_xhandlers cx)) cache_on (cf_ims cfg)
       (cx_fix_vary cx) (cx_fix_ovkey cx) (cx_fix_clear cx) (cx_fix_svary cx) (cx_fix_qmkey cx) (cx_fix_ims cx)
       (sfilter_fix (cx_sfilter cx)) parse_ims_fix sanitize_ok_fix
       (if cf_default_ext cfg then uri_redirect else (fun r => r))
       (override_x (cf_default_ext cfg) (cx_ovprime cx))
       (fun _ _ => None)
       (vary_tuple_x (cx_fix_ovkey cx) (cf_vary cfg)) (vary_header_x (cx_fix_ovkey cx) (cf_vary cfg)) clear_alias_fix
       ([], repeat 0 (length (cf_handlers cfg) + 8)) (cf_phase cfg) ops.

Definition run_cfgx_state (cache_on : bool) (cx : configx) (ops : list opx) : (cachex * list N) * N :=
  let cfg := cx_base cx in
  runX_state (list N) (compute_x (cf_default_ext cfg) (cf_handlers cfg) (cx_xhandlers cx)) cache_on (cf_ims cfg)
       (cx_fix_vary cx) (cx_fix_ovkey cx) (cx_fix_clear cx) (cx_fix_svary cx) (cx_fix_qmkey cx) (cx_fix_ims cx)
       (sfilter_fix (cx_sfilter cx)) parse_ims_fix sanitize_ok_fix
       (if cf_default_ext cfg then uri_redirect else (fun r => r))
       (override_x (cf_default_ext cfg) (cx_ovprime cx))
       (fun _ _ => None)
       (vary_tuple_x (cx_fix_ovkey cx) (cf_vary cfg)) (vary_header_x (cx_fix_ovkey cx) (cf_vary cfg)) clear_alias_fix
       ([], repeat 0 (length (cf_handlers cfg) + 8)) (cf_phase cfg) ops.

Definition run_pipex (x : xval) : xval :=
  match x with
  | XL [c; XL ops] =>
      match d_configx c, d_all d_opx ops with
      | Some cx, Some ops' => XL (map (x_obsx (cf_report (cx_base cx))) (run_cfgx (cf_cache (cx_base cx)) cx ops'))
      | _, _ => bad_input
      end
  | _ => bad_input
  end.

(** the same scenario on a host without response cache (the oracle of C03) *)
Definition run_pipex_nocache (x : xval) : xval :=
  match x with
  | XL [c; XL ops] =>
      match d_configx c, d_all d_opx ops with
      | Some cx, Some ops' => XL (map (x_obsx (cf_report (cx_base cx))) (run_cfgx false cx ops'))
      | _, _ => bad_input
      end
  | _ => bad_input
  end.

(** ---- component cc.parse: [CacheControl] called directly ---- *)
Definition x_cc (c : cache_control) : xval :=
  XL [x_option XN (cc_max_age c); x_bool (cc_no_store c); x_bool (cc_store c); x_option XN (cc_freshness c)].
Definition run_cc_parse (x : xval) : xval :=
  match x with
  | XL [XN which; XB v] =>
      if negb (to_str_ok v) then XL [XN 96]
      else if which =? 0 then x_outcome x_cc (from_cache_control v)
      else if which =? 1 then x_outcome x_cc (from_kvarn_cache_control true v)
      else bad_input
  | XL [XN 2; hs] =>
      match d_list d_pair_bb hs with
      | Some hs' => x_outcome x_cc (cc_from_headers true hs')
      | None => bad_input
      end
  | _ => bad_input
  end.

(** component pipex.pair (the real-vs-real oracle of C03: the list of operations on which a host with and a host
    without response cache answer differently): empty by Properties/C03.v [cache_transparent] whenever the scenario
    decodes, its handlers honour the contract and no request carries If-Modified-Since *)
Definition run_pipex_pair (x : xval) : xval :=
  match x with
  | XL [c; XL ops] =>
      match d_configx c, d_all d_opx ops with
      | Some _, Some _ => XL []
      | _, _ => bad_input
      end
  | _ => bad_input
  end.

Definition cachex_table : list (bytes * (xval -> xval)) :=
  [ (B "pipex.run", run_pipex); (B "pipex.run_nocache", run_pipex_nocache); (B "pipex.pair", run_pipex_pair);
    (B "cc.parse", run_cc_parse) ].
