(** C09 (connection level) — model of the request path AROUND the range arithmetic:
    [kvarn::handle_cache] (src/lib.rs: [sanitize_request] computed once, BEFORE the response-cache
    lookup; the cache-hit guard [sanitize_data.is_ok() && GET|HEAD]; the miss path
    [get_response] -> handler or [sanitize_error_into_response]; [maybe_cache]) and
    [SendKind::send] (range applied to the CONTENT-ENCODED body that [clone_preferred] chose,
    the 416 short-circuit, [ensure_length] after slicing, no body for HEAD).
    The range arithmetic itself is Model/Range.v.  Definitions only; proofs in
    Proofs/RangeConnProofs.v. *)
From KV Require Export Bytes RustInt Range.
Open Scope N_scope.

(** A representation: what [CompressedResponse::clone_preferred] hands to [send] for one
    Accept-Encoding class — the [content-encoding] header (absent on an empty body) and the
    encoded body.  Which bytes a compressor produces is external: a page is given as the list
    of its representations, indexed by the Accept-Encoding class of the request. *)
Record repr := { rp_encoding : option bytes; rp_body : bytes }.
Definition page := list repr.
Definition no_repr : repr := {| rp_encoding := None; rp_body := [] |}.
Definition choose (pg : page) (ae : N) : repr := nth (N.to_nat ae) pg no_repr.

Inductive meth := GET | HEAD.
Record creq := { q_method : meth; q_ae : N; q_range : option bytes }.

(** What layer 4 ([handle_cache]) hands to [send]. *)
Inductive layer4 :=
| L4Repr (r : repr)      (** a 200 representation, from the response cache or freshly made *)
| L4Error416.            (** [error::sanitize_error_into_response]; ServerCachePreference::None, never stored *)

(** [handle_cache].  [cache] is the response-cache entry of this URI ([None] = absent),
    [caching] = the host has a response cache and the page's server cache preference stores it.
    [sd] is [sanitize_request]'s result (range part). *)
Definition handle_cache_m (caching : bool) (pg : page) (cache : option page) (q : creq)
    (sd : outcome (option (N * N))) : layer4 * option page :=
  match cache, sd with
  | Some stored, Ok _ =>
      (* "Found in cache!": guard [sanitize_data.is_ok() && matches!(method, GET | HEAD)] *)
      (L4Repr (choose stored (q_ae q)), cache)
  | _, Ok _ =>
      (* get_response -> handle_request; clone_preferred; maybe_cache *)
      (L4Repr (choose pg (q_ae q)), if caching then Some pg else cache)
  | _, _ =>
      (* get_response -> sanitize_error_into_response; not cached *)
      (L4Error416, cache)
  end.

(** What the client reads from the socket. *)
Record wire := {
  w_status : N;
  w_content_range : option bytes;
  w_content_length : N;
  w_content_encoding : option bytes;
  w_accept_ranges : bool;
  w_body : bytes }.
Inductive wreply := W416 | WResp (w : wire).

(** [ensure_length] (after [apply_to_response]), [split_response], body only when the method is not HEAD. *)
Definition on_wire (m : meth) (enc : option bytes) (r : ranged) : wire :=
  {| w_status := r_status r;
     w_content_range := r_content_range r;
     w_content_length := N.of_nat (length (r_body r));
     w_content_encoding := enc;
     w_accept_ranges := r_accept_ranges r;
     w_body := match m with GET => r_body r | HEAD => [] end |}.

(** [SendKind::send]. *)
Definition send_m (checked : bool) (m : meth) (sd : outcome (option (N * N))) (l4 : layer4)
  : outcome wreply :=
  match l4 with
  | L4Error416 => Ok W416
  | L4Repr rp =>
      match sd with
      | Ok range =>
          match apply_range checked range 200 (rp_body rp) with
          | Panic => Panic
          | Err _ => Ok W416               (* default_error(416, "Range start after end of body") *)
          | Ok r => Ok (WResp (on_wire m (rp_encoding rp) r))
          end
      | Err _ =>
          (* [if let Ok(data) = &data] is false: the representation is sent untouched
             (never reached with today's cache-hit guard — see conn_step_spec) *)
          Ok (WResp (on_wire m (rp_encoding rp)
                {| r_status := 200; r_content_range := None; r_accept_ranges := false;
                   r_body := rp_body rp |}))
      | Panic => Panic
      end
  end.

(** One request on the connection: reply and the new cache entry. *)
Definition conn_step (checked caching : bool) (pg : page) (cache : option page) (q : creq)
  : outcome wreply * option page :=
  let sd := sanitize_range (q_range q) in
  let (l4, cache') := handle_cache_m caching pg cache q sd in
  (send_m checked (q_method q) sd l4, cache').

Fixpoint serve_history (checked caching : bool) (pg : page) (cache : option page) (reqs : list creq)
  : outcome (list wreply) :=
  match reqs with
  | [] => Ok []
  | q :: rest =>
      let (o, cache') := conn_step checked caching pg cache q in
      obind o (fun w =>
      obind (serve_history checked caching pg cache' rest) (fun ws => Ok (w :: ws)))
  end.

(** The reply to [q] after the history prefix [pre] on a host that started with an empty cache. *)
Definition reply_after (checked caching : bool) (pg : page) (pre : list creq) (q : creq)
  : outcome wreply :=
  obind (serve_history checked caching pg None (pre ++ [q])) (fun ws => Ok (last ws W416)).

(** ---- Specification: [range_spec] of the representation a request WITHOUT Range receives
    under the same Accept-Encoding; nothing else of the history matters. ---- *)
Definition header_range (hdr : option bytes) : option (N * N) :=
  match hdr with Some v => parse_range v | None => None end.

Definition wire_spec (m : meth) (rp : repr) (hdr : option bytes) : wreply :=
  match range_spec (header_range hdr) (rp_body rp) with
  | R416 => W416
  | RResp r =>
      WResp {| w_status := r_status r;
               w_content_range := r_content_range r;
               w_content_length := N.of_nat (length (r_body r));
               w_content_encoding := rp_encoding rp;
               w_accept_ranges := r_accept_ranges r;
               w_body := match m with GET => r_body r | HEAD => [] end |}
  end.
Definition reply_spec (pg : page) (q : creq) : wreply :=
  wire_spec (q_method q) (choose pg (q_ae q)) (q_range q).
Definition history_spec (pg : page) (reqs : list creq) : list wreply := map (reply_spec pg) reqs.

Definition strip_body (w : wreply) : wreply :=
  match w with
  | W416 => W416
  | WResp w => WResp {| w_status := w_status w; w_content_range := w_content_range w;
                        w_content_length := w_content_length w;
                        w_content_encoding := w_content_encoding w;
                        w_accept_ranges := w_accept_ranges w; w_body := [] |}
  end.
Definition omap {A B} (f : A -> B) (o : outcome A) : outcome B :=
  match o with Ok a => Ok (f a) | Err e => Err e | Panic => Panic end.

Definition page_fits (pg : page) : Prop :=
  Forall (fun rp => N.of_nat (length (rp_body rp)) <= u64_max) pg.
(** The cache entry of the URI is absent or holds this page's response. *)
Definition cache_ok (pg : page) (cache : option page) : Prop := cache = None \/ cache = Some pg.

(** ---- xval interface ---- *)
Definition x_wreply (w : wreply) : xval :=
  match w with
  | W416 => XL [XN 416]
  | WResp w => XL [XN (w_status w); x_option XB (w_content_range w); XN (w_content_length w);
                   x_option XB (w_content_encoding w); x_bool (w_accept_ranges w); XB (w_body w)]
  end.

Definition d_repr (x : xval) : option repr :=
  match x with
  | XL [e; XB b] =>
      match d_option d_B e with
      | Some enc => Some {| rp_encoding := enc; rp_body := b |}
      | None => None
      end
  | _ => None
  end.
Definition d_creq (x : xval) : option creq :=
  match x with
  | XL [XN m; XN ae; h] =>
      match (if N.eqb m 0 then Some GET else if N.eqb m 1 then Some HEAD else None), d_option d_B h with
      | Some m, Some hdr => Some {| q_method := m; q_ae := ae; q_range := hdr |}
      | _, _ => None
      end
  | _ => None
  end.

(** input: (L checked (L cache_on pref_full compress kind) body reprs reqs) *)
Definition d_conn_case (x : xval) : option (bool * bool * page * list creq) :=
  match x with
  | XL [c; XL [co; pf; _; _]; XB _; rs; qs] =>
      match d_bool c, d_bool co, d_bool pf, d_list d_repr rs, d_list d_creq qs with
      | Some checked, Some cache_on, Some pref_full, Some pg, Some reqs =>
          Some (checked, cache_on && pref_full, pg, reqs)
      | _, _, _, _, _ => None
      end
  | _ => None
  end.

Definition run_serve_history (x : xval) : xval :=
  match d_conn_case x with
  | Some (checked, caching, pg, reqs) =>
      x_outcome (x_list x_wreply) (serve_history checked caching pg None reqs)
  | None => bad_input
  end.

(** spec component: the specification evaluated on the same input (oracle run) *)
Definition run_history_spec (x : xval) : xval :=
  match d_conn_case x with
  | Some (_, _, pg, reqs) => x_outcome (x_list x_wreply) (Ok (history_spec pg reqs))
  | None => bad_input
  end.

Definition rangeconn_table : list (bytes * (xval -> xval)) :=
  [ (B "range.conn", run_serve_history);
    (B "range.conn_spec", run_history_spec) ].
