(** C09 (connection level) — model of the request path AROUND the range arithmetic:
    [kvarn::handle_cache] (src/lib.rs: [sanitize_request] computed once, BEFORE the response-cache
    lookup; the cache-hit guard [sanitize_data.is_ok() && GET|HEAD]; on a hit the [If-Modified-Since]
    test that builds an empty 304; the miss path [get_response] -> handler or
    [sanitize_error_into_response]; [maybe_cache], GET|HEAD only) and
    [SendKind::send] (no body under a 1xx / 204 / 304 head; range applied to the CONTENT-ENCODED body
    that [clone_preferred] chose — not to a 304 —, the 416 short-circuit, [ensure_length] after slicing,
    no body for HEAD), and of [extensions::stream_body] (a file streamed through a response-pipe future:
    range parsed by the extension itself, [apply_to_response] skipped, the future not run for HEAD).
    A page with vary rules has one cached item that holds a VARIANT per class of request
    ([VariedResponse]): the If-Modified-Since test answers 304 only for a variant the item holds, a
    request for another variant runs the handler ([handle_vary_missing]) and adds it.
    The range arithmetic itself is Model/Range.v.  Definitions only; proofs in
    Proofs/RangeConnProofs.v. *)
From KV Require Export Bytes RustInt Range.
Open Scope N_scope.

(** A representation: what [CompressedResponse::clone_preferred] hands to [send] for one
    Accept-Encoding class — the [content-encoding] header (absent on an empty body) and the
    encoded body.  Which bytes a compressor produces is external: a page is given as the list
    of its representations, indexed by the Accept-Encoding class of the request. *)
Record repr := { rp_encoding : option bytes; rp_body : bytes }.
Definition page := list repr.
Definition no_repr : repr := {| rp_encoding := None; rp_body := [] |}.
Definition choose (pg : page) (ae : N) : repr := nth (N.to_nat ae) pg no_repr.

(** [POST] stands for every method that is neither GET nor HEAD. *)
Inductive meth := GET | HEAD | POST.
Definition get_or_head (m : meth) : bool := match m with POST => false | _ => true end.

(** A request: method, Accept-Encoding class, the values of its [Range] header LINES in order,
    its [If-Modified-Since] class (1 = not older than the cached response: the client's copy is
    fresh; anything else = absent / older / unparsable), and its class under the page's vary rules
    ([VariedResponse::get_headers_for_request]: the transformed values of the request headers that
    the rules name, the rule's default for an absent one; two requests are in the same class when
    these collections are equal; 0 on a page without rules, where the collection is always empty). *)
Record rreq := { rq_method : meth; rq_ae : N; rq_ranges : list bytes; rq_ims : N; rq_lang : N }.
(** [request.headers().get("range")]: the HTTP/1 request parser stores each header line with
    [HeaderMap::insert] (utils/src/parse.rs), so the map holds the LAST line. *)
Definition rq_range (q : rreq) : option bytes := hd_error (rev (rq_ranges q)).
Definition fresh (q : rreq) : bool := N.eqb (rq_ims q) 1.

(** What layer 4 ([handle_cache]) hands to [send]. *)
Inductive layer4 :=
| L4Resp (status : N) (r : repr) (** the handler's status and a representation (from the response cache or
                                     freshly made), or the empty 304 *)
| L4Error416.            (** [error::sanitize_error_into_response]; ServerCachePreference::None, never stored *)

(** A cached item ([VariedResponse.responses]): the variants it holds, each with the class of the
    request that created it and the response stored for it.  (The code keeps the vector sorted by the
    header collections and searches it by binary search; the model keeps the order of arrival and
    searches linearly: the same membership.  Position and order are C05's subject.) *)
Definition item := list (N * page).
Fixpoint get_by_request (it : item) (lang : N) : option page :=
  match it with
  | [] => None
  | (l, p) :: rest => if N.eqb l lang then Some p else get_by_request rest lang
  end.

(** [handle_cache].  [cache] is the response-cache entry of this URI ([None] = absent),
    [caching] = the host has a response cache, the page's server cache preference stores it and
    [status_code_cache_filter] lets the handler's [status] in.
    [sd] is [sanitize_request]'s result (range part). *)
Definition handle_cache_m (caching : bool) (status : N) (pg : page) (cache : option item) (q : rreq)
    (sd : outcome (option (N * N))) : layer4 * option item :=
  let miss := (* get_response -> handle_request; VariedResponse::new; clone_preferred; maybe_cache (GET | HEAD only) *)
    (L4Resp status (choose pg (rq_ae q)),
     if caching && get_or_head (rq_method q) then Some [(rq_lang q, pg)] else cache) in
  match sd with
  | Ok _ =>
      match cache with
      | Some it =>
          (* "Found in cache!": guard [sanitize_data.is_ok() && matches!(method, GET | HEAD)] *)
          if get_or_head (rq_method q) then
            let held := get_by_request it (rq_lang q) in
            (* client_request_is_fresh: the If-Modified-Since test && resp.get_by_request(request).is_ok()
               — only a variant the item holds is vouched for: Response::new(Bytes::new()), 304 *)
            if fresh q && (match held with Some _ => true | None => false end) then (L4Resp 304 no_repr, cache)
            else
              match held with
              | Some stored => (L4Resp status (choose stored (rq_ae q)), cache)
              | None =>
                  (* handle_vary_missing: get_response (the handler runs); the new variant enters the item on
                     the terms of a new item (get_cache: response cache, preference, status filter, GET | HEAD) *)
                  (L4Resp status (choose pg (rq_ae q)),
                   if caching then Some (it ++ [(rq_lang q, pg)]) else cache)
              end
          else miss
      | None => miss
      end
  | _ =>
      (* get_response -> sanitize_error_into_response; not cached *)
      (L4Error416, cache)
  end.

(** What the client reads from the socket. *)
Record wire := {
  w_status : N;
  w_content_range : option bytes;
  w_content_length : N;
  w_content_encoding : option bytes;
  w_accept_ranges : bool;
  w_body : bytes }.
Inductive wreply := W416 | WResp (w : wire).

(** [ensure_length] (after [apply_to_response]), [split_response], body only when the method is not HEAD. *)
Definition on_wire (m : meth) (enc : option bytes) (r : ranged) : wire :=
  {| w_status := r_status r;
     w_content_range := r_content_range r;
     w_content_length := N.of_nat (length (r_body r));
     w_content_encoding := enc;
     w_accept_ranges := r_accept_ranges r;
     w_body := match m with HEAD => [] | _ => r_body r end |}.

Definition untouched (status : N) (body : bytes) : ranged :=
  {| r_status := status; r_content_range := None; r_accept_ranges := false; r_body := body |}.

(** 1xx, 204 and 304 responses end with the head. *)
Definition bodyless (status : N) : bool :=
  ((100 <=? status) && (status <=? 199)) || (status =? 204) || (status =? 304).
Definition body_sent (status : N) (rp : repr) : bytes := if bodyless status then [] else rp_body rp.

(** [SendKind::send].  [guard304 = true] is today's code (the body of a 1xx / 204 / 304 response is dropped
    before anything else — its headers stay —, and a 304 is sent as it is);
    [guard304 = false] is kvarn 0.6.3, which kept such a body and applied the range to the empty body of
    the 304. *)
Definition send_gen (guard304 checked : bool) (m : meth) (sd : outcome (option (N * N))) (l4 : layer4)
  : outcome wreply :=
  match l4 with
  | L4Error416 => Ok W416
  | L4Resp status rp0 =>
      let rp := {| rp_encoding := rp_encoding rp0;
                   rp_body := if guard304 then body_sent status rp0 else rp_body rp0 |} in
      match sd with
      | Ok range =>
          if guard304 && N.eqb status 304 then
            Ok (WResp (on_wire m (rp_encoding rp) (untouched status (rp_body rp))))
          else
          match apply_range checked range status (rp_body rp) with
          | Panic => Panic
          | Err _ => Ok W416               (* default_error(416, "Range start after end of body") *)
          | Ok r => Ok (WResp (on_wire m (rp_encoding rp) r))
          end
      | Err _ =>
          (* [if let Ok(data) = &data] is false: the representation is sent untouched
             (never reached with today's cache-hit guard — see rstep_spec) *)
          Ok (WResp (on_wire m (rp_encoding rp) (untouched status (rp_body rp))))
      | Panic => Panic
      end
  end.
Definition send_m := send_gen true.
Definition send_m_063 := send_gen false.

(** One request on the connection: reply and the new cache entry. *)
Definition rstep_gen (guard304 checked caching : bool) (status : N) (pg : page) (cache : option item) (q : rreq)
  : outcome wreply * option item :=
  let sd := sanitize_range (rq_range q) in
  let (l4, cache') := handle_cache_m caching status pg cache q sd in
  (send_gen guard304 checked (rq_method q) sd l4, cache').
Definition rstep := rstep_gen true.
Definition rstep_063 := rstep_gen false.

Fixpoint serve_history (checked caching : bool) (status : N) (pg : page) (cache : option item) (reqs : list rreq)
  : outcome (list wreply) :=
  match reqs with
  | [] => Ok []
  | q :: rest =>
      let (o, cache') := rstep checked caching status pg cache q in
      obind o (fun w =>
      obind (serve_history checked caching status pg cache' rest) (fun ws => Ok (w :: ws)))
  end.

(** The reply to [q] after the history prefix [pre] on a host that started with an empty cache. *)
Definition reply_after (checked caching : bool) (status : N) (pg : page) (pre : list rreq) (q : rreq)
  : outcome wreply :=
  obind (serve_history checked caching status pg None (pre ++ [q])) (fun ws => Ok (last ws W416)).

(** ---- Specification ----
    [a > b] is refused with 416 whatever else the request says.  Otherwise: when the same request
    without Range is answered 304 (the server holds the response this request selects, the method is
    GET/HEAD and the client's copy is fresh) there is no representation to take a range of and the
    answer is that 304; else the answer is [range_spec] of the representation a request WITHOUT Range
    receives under the same Accept-Encoding (an empty one when the status is 1xx or 204).
    [held] = the classes of request whose response the server holds for this URI. *)
Definition header_range (hdr : option bytes) : option (N * N) :=
  match hdr with Some v => parse_range v | None => None end.
Definition rejected (hdr : option bytes) : bool :=
  match header_range hdr with Some (a, c) => c <? a | None => false end.

Definition wire_of (m : meth) (enc : option bytes) (r : range_reply) : wreply :=
  match r with
  | R416 => W416
  | RResp r =>
      WResp {| w_status := r_status r;
               w_content_range := r_content_range r;
               w_content_length := N.of_nat (length (r_body r));
               w_content_encoding := enc;
               w_accept_ranges := r_accept_ranges r;
               w_body := match m with HEAD => [] | _ => r_body r end |}
  end.
Definition wire_spec (status : N) (m : meth) (rp : repr) (hdr : option bytes) : wreply :=
  wire_of m (rp_encoding rp) (range_spec_st status (header_range hdr) (body_sent status rp)).
Definition not_modified : wreply :=
  WResp {| w_status := 304; w_content_range := None; w_content_length := 0;
           w_content_encoding := None; w_accept_ranges := false; w_body := [] |}.
Definition holds (held : list N) (lang : N) : bool := existsb (N.eqb lang) held.
Definition answers_304 (held : list N) (q : rreq) : bool :=
  holds held (rq_lang q) && get_or_head (rq_method q) && fresh q.
Definition reply_spec (status : N) (pg : page) (held : list N) (q : rreq) : wreply :=
  if rejected (rq_range q) then W416
  else if answers_304 held q then not_modified
  else wire_spec status (rq_method q) (choose pg (rq_ae q)) (rq_range q).
(** The server holds the response of a class after a GET/HEAD of that class that was not refused, when the
    page is one that is stored. *)
Definition stored_after (caching : bool) (held : list N) (q : rreq) : list N :=
  if caching && get_or_head (rq_method q) && negb (rejected (rq_range q)) && negb (holds held (rq_lang q))
  then held ++ [rq_lang q] else held.
Fixpoint history_spec (caching : bool) (status : N) (pg : page) (held : list N) (reqs : list rreq) : list wreply :=
  match reqs with
  | [] => []
  | q :: rest => reply_spec status pg held q :: history_spec caching status pg (stored_after caching held q) rest
  end.
Definition held_by (cache : option item) : list N := match cache with Some it => map fst it | None => [] end.

(** The property as a function of the reply that the SAME request WITHOUT any Range line receives in
    the same state ("the representation that a request without Range would receive"). *)
Definition unranged (q : rreq) : rreq :=
  {| rq_method := rq_method q; rq_ae := rq_ae q; rq_ranges := []; rq_ims := rq_ims q; rq_lang := rq_lang q |}.
Definition ranged_of (hdr : option bytes) (w : wreply) : wreply :=
  if rejected hdr then W416 else
  match w with
  | W416 => W416
  | WResp full =>
      if N.eqb (w_status full) 304 then WResp full
      else wire_of GET (w_content_encoding full) (range_spec_st (w_status full) (header_range hdr) (w_body full))
  end.

Definition strip_body (w : wreply) : wreply :=
  match w with
  | W416 => W416
  | WResp w => WResp {| w_status := w_status w; w_content_range := w_content_range w;
                        w_content_length := w_content_length w;
                        w_content_encoding := w_content_encoding w;
                        w_accept_ranges := w_accept_ranges w; w_body := [] |}
  end.
Definition omap {A B} (f : A -> B) (o : outcome A) : outcome B :=
  match o with Ok a => Ok (f a) | Err e => Err e | Panic => Panic end.

Definition page_fits (pg : page) : Prop :=
  Forall (fun rp => N.of_nat (length (rp_body rp)) <= u64_max) pg.
(** The cache entry of the URI is absent or every variant it holds is this page's response. *)
Definition vcache_ok (pg : page) (cache : option item) : Prop :=
  match cache with None => True | Some it => Forall (fun v => snd v = pg) it end.
(** The same for a page without vary rules, whose item has one variant (used by [conn_step] below). *)
Definition cache_ok (pg : page) (cache : option page) : Prop := cache = None \/ cache = Some pg.

(** ---- [extensions::stream_body]: a file sent by a response-pipe future ----
    [handle_cache] never finds such a response in the cache (a future is never stored) and
    [send] calls [apply_to_response] with [is_stream = true], which does nothing: the extension
    parses the range itself.  [fixed = true] is today's code (end clamped to the file, 416 when the
    start is not inside the file, 206 + content-range; [send] does not run the future for HEAD);
    [fixed = false] is kvarn 0.6.3 (status 200, no content-range, content-length [end - start] with
    [end] NOT clamped, never 416; the future ran for every method: the bytes followed a HEAD reply too).
    [sw_sent] is what the future writes: at most [content-length] bytes are the body of this reply. *)
Record swire := { sw_head : wire; sw_sent : bytes }.
Definition stream_prepare (fixed checked : bool) (file : bytes) (range : option (N * N))
  : outcome (option swire) :=   (* None = the 416 error page *)
  let file_len := N.of_nat (length file) in
  let start := match range with Some (s, _) => s | None => 0 end in
  let unclamped := match range with Some (_, e) => e | None => file_len end in
  let e := if fixed then N.min unclamped file_len else unclamped in
  if fixed && (match range with Some _ => file_len <=? start | None => false end) then Ok None else
  obind (sub_u64 checked e start) (fun len =>
  let sent := firstn (N.to_nat (N.min e file_len - start)) (skipn (N.to_nat start) file) in
  let ranged_reply := fixed && (match range with Some _ => true | None => false end) in
  obind (if ranged_reply then sub_u64 checked e 1 else Ok 0) (fun last =>
  Ok (Some {| sw_head := {| w_status := if ranged_reply then 206 else 200;
                            w_content_range :=
                              if ranged_reply
                              then Some (B "bytes " ++ dec start ++ B "-" ++ dec last ++ B "/" ++ dec file_len)
                              else None;
                            w_content_length := len;
                            w_content_encoding := None;
                            w_accept_ranges := false;
                            w_body := [] |};
              sw_sent := sent |}))).

(** One request for a streamed file, as the client frames it: [content-length] bytes of body
    (fewer were sent: the reply never completes — [SShort]); for HEAD the head alone. *)
Inductive sreply := S416 | SResp (w : wire) | SShort (w : wire) (received : bytes).
Definition stream_step (fixed checked : bool) (file : bytes) (q : rreq) : outcome sreply :=
  match sanitize_range (rq_range q) with
  | Panic => Panic
  | Err _ => Ok S416                  (* get_response: sanitize_error_into_response, the extension is not called *)
  | Ok range =>
      match stream_prepare fixed checked file range with
      | Panic => Panic
      | Err e => Err e
      | Ok None => Ok S416
      | Ok (Some sw) =>
          let h := sw_head sw in
          if fixed && (match rq_method q with HEAD => true | _ => false end) then
            (* SendKind::send: the future is not called, nothing follows the head *)
            Ok (SResp {| w_status := w_status h; w_content_range := w_content_range h;
                         w_content_length := w_content_length h; w_content_encoding := None;
                         w_accept_ranges := false; w_body := [] |})
          else
          if N.of_nat (length (sw_sent sw)) <? w_content_length h then Ok (SShort h (sw_sent sw))
          else Ok (SResp {| w_status := w_status h; w_content_range := w_content_range h;
                            w_content_length := w_content_length h; w_content_encoding := None;
                            w_accept_ranges := false;
                            w_body := firstn (N.to_nat (w_content_length h)) (sw_sent sw) |})
      end
  end.
Definition stream_history (fixed checked : bool) (file : bytes) (reqs : list rreq) : outcome (list sreply) :=
  fold_right (fun q acc => obind (stream_step fixed checked file q) (fun w => obind acc (fun ws => Ok (w :: ws))))
             (Ok []) reqs.

(** Specification of a streamed file: the property's [range_spec] of the file's bytes (no content-encoding;
    [accept-ranges] is not part of the property and not sent by the extension). *)
Definition stream_spec (file : bytes) (q : rreq) : sreply :=
  match range_spec (header_range (rq_range q)) file with
  | R416 => S416
  | RResp r => SResp {| w_status := r_status r; w_content_range := r_content_range r;
                        w_content_length := N.of_nat (length (r_body r)); w_content_encoding := None;
                        w_accept_ranges := false;
                        w_body := match rq_method q with HEAD => [] | _ => r_body r end |}
  end.

(** ---- The special case that Model/Panics.v (C02) builds on: handler status 200, one Range line at most,
    no If-Modified-Since, GET/HEAD.  Defined BY the general step, so it is the same model. ---- *)
Record creq := { q_method : meth; q_ae : N; q_range : option bytes }.
Definition lift_creq (q : creq) : rreq :=
  {| rq_method := q_method q; rq_ae := q_ae q;
     rq_ranges := match q_range q with Some v => [v] | None => [] end; rq_ims := 0; rq_lang := 0 |}.
(** a page without vary rules: the item, when there is one, holds the single variant (class 0) *)
Definition item_of (p : page) : item := [(0, p)].
Definition page_of (it : item) : option page := match it with (_, p) :: _ => Some p | [] => None end.
Definition conn_step (checked caching : bool) (pg : page) (cache : option page) (q : creq)
  : outcome wreply * option page :=
  let (o, cache') := rstep checked caching 200 pg (option_map item_of cache) (lift_creq q) in
  (o, match cache' with Some it => page_of it | None => None end).
Definition reply_spec_200 (pg : page) (q : creq) : wreply := reply_spec 200 pg [] (lift_creq q).

(** ---- small definitions used in the statements and witnesses ---- *)
(** What the server holds after a history that started with an empty cache. *)
Definition stored_by (caching : bool) (pre : list rreq) : list N := fold_left (stored_after caching) pre [].

Definition ex_page : page :=
  [ {| rp_encoding := Some (B "identity"); rp_body := B "0123456789" |};
    {| rp_encoding := Some (B "gzip"); rp_body := B "GZIPPEDBYTES" |} ].
Definition ex_conditional : rreq :=
  {| rq_method := GET; rq_ae := 0; rq_ranges := [B "bytes=0-3"]; rq_ims := 1; rq_lang := 0 |}.
(** the same request for another variant of the page (vary rule: another class) *)
Definition ex_conditional_other : rreq :=
  {| rq_method := GET; rq_ae := 0; rq_ranges := [B "bytes=0-3"]; rq_ims := 1; rq_lang := 2 |}.

Definition ex_file : bytes := B "0123456789".
Definition ex_get (v : bytes) : rreq := {| rq_method := GET; rq_ae := 0; rq_ranges := [v]; rq_ims := 0; rq_lang := 0 |}.
Definition ex_head (v : bytes) : rreq := {| rq_method := HEAD; rq_ae := 0; rq_ranges := [v]; rq_ims := 0; rq_lang := 0 |}.

(** a ranged GET for the closed interval [r] *)
Definition range_header (r : N * N) : bytes := B "bytes=" ++ dec (fst r) ++ [c_dash] ++ dec (snd r).
Definition get_range (ae lang : N) (r : N * N) : rreq :=
  {| rq_method := GET; rq_ae := ae; rq_ranges := [range_header r]; rq_ims := 0; rq_lang := lang |}.
Definition wbody (w : wreply) : bytes := match w with W416 => [] | WResp w => w_body w end.

(** ---- xval interface ---- *)
Definition x_wire (w : wire) : xval :=
  XL [XN (w_status w); x_option XB (w_content_range w); XN (w_content_length w);
      x_option XB (w_content_encoding w); x_bool (w_accept_ranges w); XB (w_body w)].
Definition x_wreply (w : wreply) : xval :=
  match w with
  | W416 => XL [XN 416]
  | WResp w => x_wire w
  end.
Definition x_sreply (w : sreply) : xval :=
  match w with
  | S416 => XL [XN 416]
  | SResp w => x_wire w
  | SShort w got => XL [XN 94; x_wire w; XB got]
  end.

Definition d_repr (x : xval) : option repr :=
  match x with
  | XL [e; XB b] =>
      match d_option d_B e with
      | Some enc => Some {| rp_encoding := enc; rp_body := b |}
      | None => None
      end
  | _ => None
  end.
Definition d_meth (m : N) : option meth :=
  if N.eqb m 0 then Some GET else if N.eqb m 1 then Some HEAD else if N.eqb m 2 then Some POST else None.
(** (L method ae (L range ...) [ims]) *)
Definition d_rreq (x : xval) : option rreq :=
  match x with
  | XL [XN m; XN ae; h] =>
      match d_meth m, d_list d_B h with
      | Some m, Some hs => Some {| rq_method := m; rq_ae := ae; rq_ranges := hs; rq_ims := 0; rq_lang := 0 |}
      | _, _ => None
      end
  | XL [XN m; XN ae; h; XN ims] =>
      match d_meth m, d_list d_B h with
      | Some m, Some hs => Some {| rq_method := m; rq_ae := ae; rq_ranges := hs; rq_ims := ims; rq_lang := 0 |}
      | _, _ => None
      end
  | XL [XN m; XN ae; h; XN ims; XN lang] =>
      (* the 5th field (Accept-Language class) selects the variant of a page with a vary rule on that header
         (every variant of the fixture's page has the same representations) *)
      match d_meth m, d_list d_B h with
      | Some m, Some hs => Some {| rq_method := m; rq_ae := ae; rq_ranges := hs; rq_ims := ims; rq_lang := lang |}
      | _, _ => None
      end
  | _ => None
  end.

(** [host::default_status_code_cache_filter]: dropped are 1xx, 304 and the client errors other than 404 and 410. *)
Definition status_cached (s : N) : bool :=
  negb (((400 <=? s) && (s <=? 403)) || ((405 <=? s) && (s <=? 409)) || ((411 <=? s) && (s <=? 499))
        || ((100 <=? s) && (s <=? 199)) || (s =? 304)).

Record conn_case := { cc_checked : bool; cc_caching : bool; cc_kind : N; cc_status : N; cc_body : bytes;
                      cc_page : page; cc_reqs : list rreq }.
(** input: (L checked (L cache_on pref_full compress kind [status]) body reprs reqs) *)
Definition d_conn_case (x : xval) : option conn_case :=
  match x with
  | XL [c; XL (co :: pf :: _ :: XN kind :: st); XB body; rs; qs] =>
      match d_bool c, d_bool co, d_bool pf, d_list d_repr rs, d_list d_rreq qs,
            (match st with [] => Some 200 | [XN s] => Some s | _ => None end) with
      | Some checked, Some cache_on, Some pref_full, Some pg, Some reqs, Some status =>
          Some {| cc_checked := checked; cc_caching := cache_on && pref_full && status_cached status;
                  cc_kind := kind; cc_status := status; cc_body := body; cc_page := pg; cc_reqs := reqs |}
      | _, _, _, _, _, _ => None
      end
  | _ => None
  end.

(** Only a page of kind 4 has a vary rule (on accept-language); on every other page the header selects nothing. *)
Definition class_of (kind : N) (q : rreq) : rreq :=
  if N.eqb kind 4 then q
  else {| rq_method := rq_method q; rq_ae := rq_ae q; rq_ranges := rq_ranges q; rq_ims := rq_ims q; rq_lang := 0 |}.
Definition cc_requests (c : conn_case) : list rreq := map (class_of (cc_kind c)) (cc_reqs c).

Definition run_serve_history (x : xval) : xval :=
  match d_conn_case x with
  | Some c =>
      if N.eqb (cc_kind c) 2
      then x_outcome (x_list x_sreply) (stream_history true (cc_checked c) (cc_body c) (cc_reqs c))
      else x_outcome (x_list x_wreply)
             (serve_history (cc_checked c) (cc_caching c) (cc_status c) (cc_page c) None (cc_requests c))
  | None => bad_input
  end.

(** spec component: the specification evaluated on the same input (oracle run) *)
Definition run_history_spec (x : xval) : xval :=
  match d_conn_case x with
  | Some c =>
      if N.eqb (cc_kind c) 2
      then x_outcome (x_list x_sreply) (Ok (map (stream_spec (cc_body c)) (cc_reqs c)))
      else x_outcome (x_list x_wreply)
             (Ok (history_spec (cc_caching c) (cc_status c) (cc_page c) [] (cc_requests c)))
  | None => bad_input
  end.

(** kvarn 0.6.3 (before the repairs), for replaying the refutation witnesses *)
Definition run_serve_history_063 (x : xval) : xval :=
  match d_conn_case x with
  | Some c =>
      if N.eqb (cc_kind c) 2
      then x_outcome (x_list x_sreply) (stream_history false (cc_checked c) (cc_body c) (cc_reqs c))
      else x_outcome (x_list x_wreply)
             (fold_right (fun q acc => obind (fst (rstep_063 (cc_checked c) (cc_caching c) (cc_status c) (cc_page c)
                                                     (Some [(rq_lang q, cc_page c)]) q))
                                         (fun w => obind acc (fun ws => Ok (w :: ws)))) (Ok []) (cc_requests c))
  | None => bad_input
  end.

Definition rangeconn_table : list (bytes * (xval -> xval)) :=
  [ (B "range.conn", run_serve_history);
    (B "range.conn_spec", run_history_spec);
    (B "range.conn_063", run_serve_history_063) ].
