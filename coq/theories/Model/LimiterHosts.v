(** C12 — the server with several hosts and requests for unknown hosts (src/lib.rs
    [handle_connection], src/host.rs [Collection::get_from_request], [CollectionBuilder::insert]).

    [handle_connection], per request:
        host = descriptor.data.get_from_request(&request, sni)       // by the Host header (no TLS here)
        None  => 409 "The host you're looking for wasn't found.", then  return Ok(())   (connection closed;
                 no host, so no host limiter is asked: such requests are limited at accept only)
        Some(host) => match host.limiter.register(address.ip()) { Drop => return, Send => 429, Passed => answer }
    Every [Host] owns a [LimitManager] (own counters); [CollectionBuilder::insert] makes the pre-host
    limiter a clone of the limiter of the FIRST host inserted (shared counters) unless
    [set_pre_host_limiter] replaces it.  So the counters are per (client address, host), plus the
    accept-time limiter which shares those of host 0.

    This file generalises [sconfig] / [serve_requests] / [accept_step] of Model/Limiter.v: the first
    host and the pre-host limiter are the pair of that file, the further hosts a list.
    Definitions only; proofs in Proofs/LimiterHostsProofs.v. *)
From KV Require Export Bytes RustInt Limiter.
Open Scope N_scope.

(** Which host a request names: the i-th of the collection, or none of them. *)
Inductive target : Type := THost (i : nat) | TUnknown.

Record mconfig : Type := { m_base : sconfig; m_extra : list config }.

(** counters: (pre-host limiter, host 0) as in Limiter.v, and one state per further host *)
Definition mlims : Type := ((lstate * lstate) * list lstate)%type.
Definition mstart (t0 : N) (mc : mconfig) : mlims := ((init t0, init t0), map (fun _ => init t0) (m_extra mc)).

Inductive mreply : Type := MNormal | MTooMany | MConflict.

Fixpoint set_nth {A : Type} (i : nat) (x : A) (l : list A) : list A :=
  match l, i with
  | [], _ => []
  | _ :: r, O => x :: r
  | y :: r, S j => y :: set_nth j x r
  end.

(** The limiter verdict for one request: which manager is asked and what it says; [None]: no host. *)
Definition ask (checked : bool) (mc : mconfig) (p : mlims) (a t : N) (tg : target) : option (mlims * outcome action) :=
  match tg with
  | TUnknown => None
  | THost O =>
      let (st1, d) := register checked (host_cfg (m_base mc)) (snd (fst p)) a t in
      Some ((after_host (shared (m_base mc)) st1 (fst p), snd p), d)
  | THost (S k) =>
      match nth_error (m_extra mc) k, nth_error (snd p) k with
      | Some c, Some st =>
          let (st1, d) := register checked c st a t in
          Some ((fst p, set_nth k st1 (snd p)), d)
      | _, _ => None                                (* no such host: unknown *)
      end
  end.

Fixpoint serve_m (checked : bool) (mc : mconfig) (p : mlims) (a : N) (reqs : list (N * target))
  : mlims * list mreply * bool :=
  match reqs with
  | [] => (p, [], false)
  | (t, tg) :: r =>
      match ask checked mc p a t tg with
      | None => (p, [MConflict], match r with [] => false | _ => true end)   (* 409, then the connection is closed *)
      | Some (p1, d) =>
          match d with
          | Ok Passed => let '(p2, l, c) := serve_m checked mc p1 a r in (p2, MNormal :: l, c)
          | Ok Send => let '(p2, l, c) := serve_m checked mc p1 a r in (p2, MTooMany :: l, c)
          | _ => (p1, [], true)
          end
      end
  end.

Inductive mevent : Type :=
| MConn (a t : N) (reqs : list (N * target))
| MErr
| MShut.
Inductive mresult : Type := MRefused | MServed (answers : list mreply) (cut : bool).

Record mloop : Type := { m_status : lstatus; m_fails : N; m_lims : mlims }.

Definition maccept_step (checked : bool) (mc : mconfig) (s : mloop) (e : mevent) : mloop * option mresult :=
  match m_status s with
  | Running =>
      match e with
      | MShut => ({| m_status := ReturnedOk; m_fails := m_fails s; m_lims := m_lims s |}, None)
      | MErr =>
          let f := m_fails s + 1 in
          ({| m_status := if fail_threshold <? f then ReturnedErr else Running; m_fails := f; m_lims := m_lims s |}, None)
      | MConn a t reqs =>
          let (st1, d) := register checked (pre_cfg (m_base mc)) (fst (fst (m_lims s))) a t in
          let p1 := (after_pre (shared (m_base mc)) st1 (fst (m_lims s)), snd (m_lims s)) in
          match d with
          | Ok Drop => ({| m_status := Running; m_fails := 0; m_lims := p1 |}, Some (MServed [] true))
          | Ok _ =>
              let '(p2, l, c) := serve_m checked mc p1 a reqs in
              ({| m_status := Running; m_fails := 0; m_lims := p2 |}, Some (MServed l c))
          | _ => ({| m_status := Panicked; m_fails := 0; m_lims := p1 |}, Some (MServed [] true))
          end
      end
  | _ => (s, match e with MConn _ _ _ => Some MRefused | _ => None end)
  end.

Fixpoint maccept_run (checked : bool) (mc : mconfig) (s : mloop) (evs : list mevent) : mloop * list mresult :=
  match evs with
  | [] => (s, [])
  | e :: r =>
      let (s1, o) := maccept_step checked mc s e in
      let (s2, os) := maccept_run checked mc s1 r in
      (s2, match o with Some x => x :: os | None => os end)
  end.

Definition maccept_loop (checked : bool) (mc : mconfig) (t0 : N) (evs : list mevent) : list mresult * lstatus :=
  let (s, os) := maccept_run checked mc {| m_status := Running; m_fails := 0; m_lims := mstart t0 mc |} evs in
  (os, m_status s).

(** ---- specification: one reference counter per manager ---------------------------------------- *)
Definition qlims : Type := ((qstate * qstate) * list qstate)%type.
Definition qmstart (t0 : N) (mc : mconfig) : qlims := ((qinit t0, qinit t0), map (fun _ => qinit t0) (m_extra mc)).

Definition qask (mc : mconfig) (p : qlims) (a t : N) (tg : target) : option (qlims * action) :=
  match tg with
  | TUnknown => None
  | THost O =>
      let (q1, d) := qstep (host_cfg (m_base mc)) (snd (fst p)) a t in
      Some ((after_host (shared (m_base mc)) q1 (fst p), snd p), d)
  | THost (S k) =>
      match nth_error (m_extra mc) k, nth_error (snd p) k with
      | Some c, Some q =>
          let (q1, d) := qstep c q a t in
          Some ((fst p, set_nth k q1 (snd p)), d)
      | _, _ => None
      end
  end.

Fixpoint spec_serve_m (mc : mconfig) (p : qlims) (a : N) (reqs : list (N * target)) : qlims * list mreply * bool :=
  match reqs with
  | [] => (p, [], false)
  | (t, tg) :: r =>
      match qask mc p a t tg with
      | None => (p, [MConflict], match r with [] => false | _ => true end)
      | Some (p1, d) =>
          match d with
          | Passed => let '(p2, l, c) := spec_serve_m mc p1 a r in (p2, MNormal :: l, c)
          | Send => let '(p2, l, c) := spec_serve_m mc p1 a r in (p2, MTooMany :: l, c)
          | Drop => (p1, [], true)
          end
      end
  end.

Definition is_mconn (e : mevent) : bool := match e with MConn _ _ _ => true | _ => false end.
Definition mrefused_all (evs : list mevent) : list mresult := map (fun _ => MRefused) (filter is_mconn evs).

Fixpoint spec_mevents (mc : mconfig) (p : qlims) (f : N) (evs : list mevent) : list mresult * lstatus :=
  match evs with
  | [] => ([], Running)
  | MShut :: r => (mrefused_all r, ReturnedOk)
  | MErr :: r => if fail_threshold <? f + 1 then (mrefused_all r, ReturnedErr) else spec_mevents mc p (f + 1) r
  | MConn a t reqs :: r =>
      let (q1, d) := qstep (pre_cfg (m_base mc)) (fst (fst p)) a t in
      let p1 := (after_pre (shared (m_base mc)) q1 (fst p), snd p) in
      match d with
      | Drop => let (os, st) := spec_mevents mc p1 0 r in (MServed [] true :: os, st)
      | _ => let '(p2, l, c) := spec_serve_m mc p1 a reqs in
             let (os, st) := spec_mevents mc p2 0 r in (MServed l c :: os, st)
      end
  end.
Definition spec_mserver (mc : mconfig) (t0 : N) (evs : list mevent) : list mresult * lstatus :=
  spec_mevents mc (qmstart t0 mc) 0 evs.

Fixpoint mcalls_bound (evs : list mevent) : nat :=
  match evs with
  | [] => O
  | MConn _ _ reqs :: r => (S (length reqs) + mcalls_bound r)%nat
  | _ :: r => mcalls_bound r
  end.

(** the requests a connection makes to host [i] and to other hosts *)
Definition to_host (i : nat) (rq : N * target) : bool :=
  match snd rq with THost j => Nat.eqb i j | TUnknown => false end.

(** embedding of the one-host server of Limiter.v *)
Definition m_of_conn (e : conn_event) : option mevent :=
  match e with
  | Conn a t reqs => Some (MConn a t (map (fun t => (t, THost O)) reqs))
  | AcceptErr => Some MErr
  | Shutdown => Some MShut
  | _ => None
  end.
Definition r_of_m (r : mresult) : conn_result :=
  match r with
  | MRefused => Refused
  | MServed l c => Served (map (fun x => match x with MTooMany => TooMany | _ => Normal end) l) c
  end.

(** ------------------------------------------------------------------------------------
    xval interface.
    limiter.hosts : (L checked msconf (L ev ...))
      msconf : (L (N path) config pre (N bind) (L config ...))   as limiter.server + the further hosts
      ev     : (L (N addr) (N dt) (L (N target) ...))   a connection; target i = i-th host, 99 = a name no host has
               (L (N 200) (N n)) | (L (N 201))         accept errors / shutdown
      the requests of a connection are made at the clock reading of the connection *)
Definition d_target (x : xval) : option target :=
  match x with XN 99 => Some TUnknown | XN i => Some (THost (N.to_nat i)) | _ => None end.
Inductive mev : Type := MEConn (a dt : N) (tgs : list target) | MEErrs (n : nat) | MEShut.
Definition d_mev (x : xval) : option mev :=
  match x with
  | XL [XN 200; XN n] => Some (MEErrs (N.to_nat n))
  | XL [XN 201] => Some MEShut
  | XL [XN a; XN dt; tgs] => match d_list d_target tgs with Some l => Some (MEConn a dt l) | None => None end
  | _ => None
  end.
Fixpoint abs_mevs (now : N) (l : list mev) : list mevent :=
  match l with
  | [] => []
  | MEConn a dt tgs :: r => MConn a (now + dt) (map (fun tg => (now + dt, tg)) tgs) :: abs_mevs (now + dt) r
  | MEErrs n :: r => repeat MErr n ++ abs_mevs now r
  | MEShut :: r => MShut :: abs_mevs now r
  end.
Definition d_mconfig (x : xval) : option mconfig :=
  match x with
  | XL [p; cf; pre; b; XL ex] =>
      match d_sconfig (XL [p; cf; pre; b]), d_all d_config ex with
      | Some sc, Some l => Some {| m_base := sc; m_extra := l |}
      | _, _ => None
      end
  | _ => None
  end.
Definition mreply_code (r : mreply) : N := match r with MNormal => 200 | MTooMany => 429 | MConflict => 409 end.
Definition x_mresult (r : mresult) : xval :=
  match r with
  | MRefused => XL [XN 3]
  | MServed l c => XL [XN 0; XL (map (fun r => XN (mreply_code r)) l); x_bool c]
  end.
Definition run_hosts_gen (f : bool -> mconfig -> N -> list mevent -> list mresult * lstatus) (x : xval) : xval :=
  match x with
  | XL [c; cf; h] =>
      match d_bool c, d_mconfig cf, d_list d_mev h with
      | Some checked, Some mc, Some es =>
          let (os, al) := f checked mc 0 (abs_mevs 0 es) in
          XL [XL (map x_mresult os); x_bool (running al)]
      | _, _, _ => bad_input
      end
  | _ => bad_input
  end.
Definition run_hosts := run_hosts_gen maccept_loop.
Definition run_hosts_spec := run_hosts_gen (fun _ mc t0 evs => spec_mserver mc t0 evs).

Definition limiterhosts_table : list (bytes * (xval -> xval)) :=
  [ (B "limiter.hosts", run_hosts);
    (B "limiter.hosts_spec", run_hosts_spec) ].
