(** Extraction: ExtrOcamlBasic only; numbers stay the extracted inductives. *)
From Coq Require Import Extraction ExtrOcamlBasic.
From KV Require Import Dispatch.
From Coq Require Import BinNat BinPos.
Extraction Language OCaml.
Extraction "model.ml" dispatch N.add N.mul N.div_eucl N.eqb N.of_nat.
