(** One dispatcher for all executable models (DESIGN.md 2.2). *)
From KV Require Import Bytes Range.

Definition dispatch_table : list (bytes * (xval -> xval)) :=
  [ (B "range.serve", run_serve_range);
    (B "range.parse", run_parse_range);
    (B "range.spec", run_range_spec) ].

Fixpoint lookup (c : bytes) (t : list (bytes * (xval -> xval))) : option (xval -> xval) :=
  match t with
  | [] => None
  | (k, f) :: r => if beq k c then Some f else lookup c r
  end.

Definition dispatch (comp : bytes) (x : xval) : xval :=
  match lookup comp dispatch_table with
  | Some f => f x
  | None => XL [XN 98]
  end.
