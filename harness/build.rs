// Generates mods.rs: one `mod` per src/c_*.rs / src/cNN.rs component file and a dispatcher over them.
// Each component file exposes `pub fn dispatch(comp: &str, x: &X) -> Option<X>`.
use std::io::Write;
fn main() {
    let out = std::path::PathBuf::from(std::env::var("OUT_DIR").unwrap()).join("mods.rs");
    let src = std::path::PathBuf::from(std::env::var("CARGO_MANIFEST_DIR").unwrap()).join("src");
    let mut names: Vec<String> = std::fs::read_dir(&src)
        .unwrap()
        .filter_map(|e| e.ok())
        .map(|e| e.file_name().to_string_lossy().to_string())
        .filter(|n| n.starts_with('c') && n.ends_with(".rs") && n[1..2].chars().all(|c| c.is_ascii_digit()))
        .map(|n| n.trim_end_matches(".rs").to_string())
        .collect();
    names.sort();
    let mut f = std::fs::File::create(out).unwrap();
    for n in &names {
        writeln!(f, "#[path = \"{}/{}.rs\"] pub mod {};", src.display(), n, n).unwrap();
    }
    writeln!(f, "pub fn dispatch_all(comp: &str, x: &crate::xval::X) -> Option<crate::xval::X> {{").unwrap();
    for n in &names {
        writeln!(f, "    if let Some(r) = {}::dispatch(comp, x) {{ return Some(r); }}", n).unwrap();
    }
    writeln!(f, "    None\n}}").unwrap();
    println!("cargo:rerun-if-changed=src");
}
