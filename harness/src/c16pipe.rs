//! C16 run order: a host whose `Extensions` is built by a sequence of real
//! `Extensions::{add_*, remove_*}` calls with marker extensions, then real requests through
//! `kvarn::handle_connection` over a loopback TCP pair (one connection per request; the
//! server task is joined before the log is read, so Post extensions have run).
//!
//! scenario = (L (L edit...) (L (B path)...))
//! edit     = (L kind code prio key payload body)   kind 0 prime 1 prepare_fn 2 present_fn 3 package 4 post
//!                                                  5 prepare_single 6 present_internal 7 present_file
//!                                                  code 0 add, 1 add with Id::no_override(), 2 remove
//! payload  = (L 0 from to) | (L 1 prefix body) | (L 2 prefix) | (L 3)
//! result   = (L (L outcome (L event...))...)   outcome = (L 0 (L status body)) | (L 2) connection closed without answer
use crate::xval::X;
use bytes::Bytes;
use kvarn::extensions::{Extensions, Id};
use kvarn::prelude::*;
use std::sync::{Arc, Mutex};

type Log = Arc<Mutex<Vec<X>>>;

struct Marker {
    log: Log,
    prio: Mutex<i128>, // the priority the extension was registered with (after no_override)
    a: Vec<u8>,
    b: Vec<u8>,
}

fn leak(s: &[u8]) -> Option<&'static str> {
    let s = std::str::from_utf8(s).ok()?;
    Some(Box::leak(s.to_owned().into_boxed_str()))
}

fn ood() -> X {
    X::L(vec![X::N(96)])
}

struct Edit {
    kind: u128,
    code: u128,
    prio: i128,
    key: Vec<u8>,
    ptag: u128,
    pa: Vec<u8>,
    pb: Vec<u8>,
    body: Vec<u8>,
}

fn parse_edit(x: &X) -> Option<Edit> {
    let l = x.as_l()?;
    if l.len() != 6 {
        return None;
    }
    let p = l[4].as_l()?;
    let ptag = p.first()?.as_n()?;
    let (pa, pb) = match (ptag, p.len()) {
        (0, 3) | (1, 3) => (p[1].as_b()?.to_vec(), p[2].as_b()?.to_vec()),
        (2, 2) => (p[1].as_b()?.to_vec(), Vec::new()),
        (3, 1) => (Vec::new(), Vec::new()),
        _ => return None,
    };
    let (kind, code) = (l[0].as_n()?, l[1].as_n()?);
    if kind >= 8 || code >= 3 {
        return None;
    }
    Some(Edit { kind, code, prio: l[2].as_z()?, key: l[3].as_b()?.to_vec(), ptag, pa, pb, body: l[5].as_b()?.to_vec() })
}

/// The priority an `Id` ended up with is only visible in the listing; the markers log the
/// priority found there (looked up by the unique name given to each edit).
fn apply(ext: &mut Extensions, e: &Edit, idx: usize, log: &Log) -> Option<()> {
    let name = leak(format!("m{idx}").as_bytes())?;
    if e.prio < i32::MIN as i128 || e.prio > i32::MAX as i128 {
        return None;
    }
    let mk = || {
        let id = Id::new(e.prio as i32, name);
        if e.code == 1 {
            id.no_override()
        } else {
            id
        }
    };
    let marker = Arc::new(Marker { log: log.clone(), prio: Mutex::new(e.prio), a: e.pa.clone(), b: e.pb.clone() });
    let keep = marker.clone();
    let remove = e.code == 2;
    let key = leak(&e.key)?;
    match e.kind {
        0 if remove => ext.remove_prime(mk()),
        0 => {
            if e.ptag != 0 {
                return None;
            }
            // the `to` of a rewrite must be a valid path-only URI
            Uri::try_from(&e.pb[..]).ok()?;
            ext.add_prime(
                kvarn::prime!(req, _host, _addr, move |marker: Arc<Marker>| {
                    let seen = req.uri().path().as_bytes().to_vec();
                    marker.log.lock().unwrap().push(X::L(vec![X::N(0), X::z(*marker.prio.lock().unwrap()), X::b(&seen)]));
                    if seen == marker.a {
                        Some(Uri::try_from(&marker.b[..]).unwrap())
                    } else {
                        None
                    }
                }),
                mk(),
            );
            fix_prio(&keep, ext.get_prime().iter().map(|t| &t.0), name);
        }
        1 if remove => ext.remove_prepare_fn(mk()),
        1 => {
            if e.ptag != 1 {
                return None;
            }
            let m2 = marker.clone();
            ext.add_prepare_fn(
                Box::new(move |req, _| req.uri().path().as_bytes().starts_with(&m2.a)),
                kvarn::prepare!(req, _host, _path, _addr, move |marker: Arc<Marker>| {
                    let seen = req.uri().path().as_bytes().to_vec();
                    marker.log.lock().unwrap().push(X::L(vec![X::N(2), X::z(*marker.prio.lock().unwrap()), X::b(&seen)]));
                    FatResponse::no_cache(Response::new(Bytes::copy_from_slice(&marker.b)))
                }),
                mk(),
            );
            fix_prio(&keep, ext.get_prepare_fn().iter().map(|t| &t.0), name);
        }
        2 if remove => ext.remove_present_fn(mk()),
        2 => {
            if e.ptag != 2 {
                return None;
            }
            let m2 = marker.clone();
            ext.add_present_fn(
                Box::new(move |req, _| req.uri().path().as_bytes().starts_with(&m2.a)),
                kvarn::present!(data, move |marker: Arc<Marker>| {
                    // a present_fn extension looking at its (empty) arguments
                    let nargs = data.args.iter().count();
                    let mut ev = vec![X::N(3), X::z(*marker.prio.lock().unwrap())];
                    if nargs != 0 {
                        ev.push(X::n(nargs));
                    }
                    marker.log.lock().unwrap().push(X::L(ev));
                }),
                mk(),
            );
            fix_prio(&keep, ext.get_present_fn().iter().map(|t| &t.0), name);
        }
        3 if remove => ext.remove_package(mk()),
        3 => {
            ext.add_package(
                kvarn::package!(_resp, _req, _host, _addr, move |marker: Arc<Marker>| {
                    marker.log.lock().unwrap().push(X::L(vec![X::N(6), X::z(*marker.prio.lock().unwrap())]));
                }),
                mk(),
            );
            fix_prio(&keep, ext.get_package().iter().map(|t| &t.0), name);
        }
        4 if remove => ext.remove_post(mk()),
        4 => {
            ext.add_post(
                kvarn::post!(_req, _host, _pipe, _bytes, _addr, move |marker: Arc<Marker>| {
                    marker.log.lock().unwrap().push(X::L(vec![X::N(7), X::z(*marker.prio.lock().unwrap())]));
                }),
                mk(),
            );
            fix_prio(&keep, ext.get_post().iter().map(|t| &t.0), name);
        }
        5 if remove => ext.remove_prepare_single(key),
        5 => {
            let body = e.body.clone();
            let k = e.key.clone();
            let m = Arc::new(Marker { log: log.clone(), prio: Mutex::new(0), a: k, b: body });
            ext.add_prepare_single(
                key,
                kvarn::prepare!(req, _host, _path, _addr, move |m: Arc<Marker>| {
                    let seen = req.uri().path().as_bytes().to_vec();
                    m.log.lock().unwrap().push(X::L(vec![X::N(1), X::b(&m.a), X::b(&seen)]));
                    FatResponse::no_cache(Response::new(Bytes::copy_from_slice(&m.b)))
                }),
            );
        }
        6 if remove => ext.remove_present_internal(key),
        6 => {
            let m = Arc::new(Marker { log: log.clone(), prio: Mutex::new(0), a: e.key.clone(), b: Vec::new() });
            ext.add_present_internal(
                key,
                kvarn::present!(data, move |m: Arc<Marker>| {
                    let name = data.args.name().as_bytes().to_vec();
                    let args: Vec<X> = data.args.iter().map(|a| X::b(a.as_bytes())).collect();
                    m.log.lock().unwrap().push(X::L(vec![X::N(5), X::b(&name), X::L(args)]));
                }),
            );
        }
        _ if remove => ext.remove_present_file(key),
        _ => {
            let m = Arc::new(Marker { log: log.clone(), prio: Mutex::new(0), a: e.key.clone(), b: Vec::new() });
            ext.add_present_file(
                key,
                kvarn::present!(data, move |m: Arc<Marker>| {
                    let nargs = data.args.iter().count();
                    let mut ev = vec![X::N(4), X::b(&m.a)];
                    if nargs != 0 {
                        ev.push(X::n(nargs));
                    }
                    m.log.lock().unwrap().push(X::L(ev));
                }),
            );
        }
    }
    Some(())
}

fn fix_prio<'a>(marker: &Arc<Marker>, ids: impl Iterator<Item = &'a Id>, name: &str) {
    for id in ids {
        if id.name() == name {
            *marker.prio.lock().unwrap() = id.priority() as i128;
        }
    }
}

async fn one_request(desc: Arc<PortDescriptor>, path: &[u8]) -> std::io::Result<Option<(u16, Vec<u8>)>> {
    use tokio::io::{AsyncReadExt, AsyncWriteExt};
    let listener = tokio::net::TcpListener::bind("127.0.0.1:0").await?;
    let addr = listener.local_addr()?;
    let mut client = tokio::net::TcpStream::connect(addr).await?;
    let (server_end, peer) = listener.accept().await?;
    let task = tokio::spawn(async move {
        let _ = kvarn::handle_connection(kvarn::Incoming::Tcp(server_end), peer, desc, || true).await;
    });
    let mut req = Vec::new();
    req.extend_from_slice(b"GET ");
    req.extend_from_slice(path);
    req.extend_from_slice(b" HTTP/1.1\r\nHost: localhost\r\n\r\n");
    client.write_all(&req).await?;
    let mut buf = Vec::new();
    let mut tmp = [0u8; 4096];
    let mut result = None;
    let mut head_end = None;
    loop {
        if head_end.is_none() {
            head_end = buf.windows(4).position(|w| w == b"\r\n\r\n").map(|p| p + 4);
        }
        if let Some(he) = head_end {
            let head = String::from_utf8_lossy(&buf[..he]).to_ascii_lowercase();
            let status: u16 = head.split(' ').nth(1).and_then(|s| s.parse().ok()).unwrap_or(0);
            let len: usize = head
                .lines()
                .find_map(|l| l.strip_prefix("content-length:").map(|v| v.trim().parse::<usize>().unwrap_or(0)))
                .unwrap_or(0);
            if buf.len() >= he + len {
                result = Some((status, buf[he..he + len].to_vec()));
                break;
            }
        }
        let n = match tokio::time::timeout(Duration::from_secs(10), client.read(&mut tmp)).await {
            Ok(Ok(n)) => n,
            Ok(Err(e)) if e.kind() == std::io::ErrorKind::ConnectionReset => 0,
            Ok(Err(e)) => return Err(e),
            Err(_) => return Err(std::io::Error::new(std::io::ErrorKind::TimedOut, "no response")),
        };
        if n == 0 {
            if !buf.is_empty() {
                return Err(std::io::Error::new(std::io::ErrorKind::UnexpectedEof, "partial response"));
            }
            break;
        }
        buf.extend_from_slice(&tmp[..n]);
    }
    // end of the connection: the server task returns (or has panicked); only then is the log complete
    let _ = client.shutdown().await;
    drop(client);
    match tokio::time::timeout(Duration::from_secs(10), task).await {
        Ok(_) => {}
        Err(_) => return Err(std::io::Error::new(std::io::ErrorKind::TimedOut, "server task did not end")),
    }
    Ok(result)
}

fn run(x: &X) -> X {
    let l = match x.as_l() {
        Some(l) if l.len() == 2 => l,
        _ => return X::bad(),
    };
    let (edits, paths) = match (l[0].as_l(), l[1].as_l()) {
        (Some(e), Some(p)) => (e, p),
        _ => return X::bad(),
    };
    let log: Log = Arc::new(Mutex::new(Vec::new()));
    let mut ext = Extensions::empty();
    for (idx, e) in edits.iter().enumerate() {
        let e = match parse_edit(e) {
            Some(e) => e,
            None => return X::bad(),
        };
        // a panicking edit (no_override at i32::MIN) unwinds before the vector is touched
        let r = std::panic::catch_unwind(std::panic::AssertUnwindSafe(|| apply(&mut ext, &e, idx, &log)));
        if let Ok(None) = r {
            return ood();
        }
    }
    let mut ps = Vec::new();
    for p in paths {
        match p.as_b() {
            Some(p) if p.first() == Some(&b'/') && Uri::try_from(p).is_ok() => ps.push(p.to_vec()),
            Some(_) => return ood(),
            None => return X::bad(),
        }
    }
    let mut options = host::Options::new();
    options.disable_fs();
    let mut host = Host::unsecure("localhost", "/nonexistent-kvarn-verif", ext, options);
    host.limiter.disable();
    host.disable_response_cache();
    host.disable_fs_cache();
    let coll = HostCollection::builder().insert(host).build();
    let desc = Arc::new(PortDescriptor::unsecure(8080, coll));
    let rt = tokio::runtime::Builder::new_current_thread().enable_all().build().unwrap();
    let out = rt.block_on(async move {
        let mut out = Vec::new();
        for p in &ps {
            log.lock().unwrap().clear();
            let r = one_request(desc.clone(), p).await;
            let events: Vec<X> = log.lock().unwrap().clone();
            out.push(match r {
                Err(e) => X::L(vec![X::N(93), X::b(format!("{:?}", e.kind()))]),
                Ok(None) => X::L(vec![X::panic(), X::L(events)]),
                Ok(Some((status, body))) => {
                    // the 404 page is kvarn's default error body; only the status is compared
                    let body = if status == 404 { Vec::new() } else { body };
                    X::L(vec![X::ok(X::L(vec![X::n(status), X::b(&body)])), X::L(events)])
                }
            });
        }
        out
    });
    X::L(out)
}

pub fn dispatch(comp: &str, x: &X) -> Option<X> {
    Some(match comp {
        "order.run" => crate::guarded(|| run(x)),
        _ => return None,
    })
}
