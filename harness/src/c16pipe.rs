//! C16 run order: a host whose `Extensions` is built by a sequence of real
//! `Extensions::{add_*, remove_*}` calls with marker extensions, then real requests through
//! `kvarn::handle_connection` over a loopback TCP pair (one connection per request; the
//! server task is joined before the log is read, so Post extensions have run).
//!
//! scenario = (L (L edit...) (L request...) [options])
//! edit     = (L kind code prio key payload body [pref])   kind 0 prime 1 prepare_fn 2 present_fn 3 package 4 post
//!                                                  5 prepare_single 6 present_internal 7 present_file
//!                                                  code 0 add, 1 add with Id::no_override(), 2 remove
//! payload  = (L 0 from to) | (L 1 prefix body [pref]) | (L 2 prefix) | (L 3)
//!            pref = server cache preference of the Prepare answer: 0 None, 1 Full, 2 QueryMatters; 3 = Full with a future that streams "+streamed" after the body
//! request  = (B path) = GET path | (L method (B target) (L) | (L start end))   method 0 GET 1 HEAD 2 POST 3 PUT 4 DELETE
//! options  = (L cache (L) | (L (L (L path content)...)))   response cache on/off; files of the public directory (else fs disabled)
//! result   = (L (L outcome (L event...))...)   outcome = (L 0 (L status body)) | (L 2) connection closed without answer
//! Every marker logs the index of the edit that registered it (its mark), so that a replaced closure is told
//! from the one that replaced it; the body of an error response (status >= 400) and of a HEAD response is empty.
use crate::xval::X;
use bytes::Bytes;
use kvarn::extensions::{Extensions, Id};
use kvarn::prelude::*;
use std::sync::{Arc, Mutex};

type Log = Arc<Mutex<Vec<X>>>;

struct Marker {
    log: Log,
    prio: Mutex<i128>, // the priority the extension was registered with (after no_override)
    mark: u128,        // index of the edit that registered this closure
    a: Vec<u8>,
    b: Vec<u8>,
    pref: u128,
}

fn fat(body: &[u8], pref: u128) -> FatResponse {
    let r = Response::new(Bytes::copy_from_slice(body));
    match pref {
        0 => FatResponse::no_cache(r),
        1 => FatResponse::cache(r),
        2 => FatResponse::cache(r).with_server_cache(comprash::ServerCachePreference::QueryMatters),
        // a streamed body of unknown length: the future writes after the body
        _ => FatResponse::cache(r).with_future(kvarn::response_pipe_fut!(pipe, _host, {
            let _ = pipe.send(Bytes::from_static(b"+streamed")).await;
        })),
    }
}

fn target_of(uri: &Uri) -> Vec<u8> {
    match uri.path_and_query() {
        Some(pq) => pq.as_str().as_bytes().to_vec(),
        None => uri.path().as_bytes().to_vec(),
    }
}

fn leak(s: &[u8]) -> Option<&'static str> {
    let s = std::str::from_utf8(s).ok()?;
    Some(Box::leak(s.to_owned().into_boxed_str()))
}

fn ood() -> X {
    X::L(vec![X::N(96)])
}

struct Edit {
    kind: u128,
    code: u128,
    prio: i128,
    key: Vec<u8>,
    ptag: u128,
    pa: Vec<u8>,
    pb: Vec<u8>,
    ppref: u128,
    body: Vec<u8>,
    pref: u128,
}

fn parse_edit(x: &X) -> Option<Edit> {
    let l = x.as_l()?;
    if l.len() != 6 && l.len() != 7 {
        return None;
    }
    let pref = if l.len() == 7 { l[6].as_n()? } else { 0 };
    let p = l[4].as_l()?;
    let ptag = p.first()?.as_n()?;
    let mut ppref = 0;
    let (pa, pb) = match (ptag, p.len()) {
        (0, 3) | (1, 3) => (p[1].as_b()?.to_vec(), p[2].as_b()?.to_vec()),
        (1, 4) => {
            ppref = p[3].as_n()?;
            (p[1].as_b()?.to_vec(), p[2].as_b()?.to_vec())
        }
        (2, 2) => (p[1].as_b()?.to_vec(), Vec::new()),
        (3, 1) => (Vec::new(), Vec::new()),
        _ => return None,
    };
    if pref >= 4 || ppref >= 4 {
        return None;
    }
    let (kind, code) = (l[0].as_n()?, l[1].as_n()?);
    if kind >= 8 || code >= 3 {
        return None;
    }
    Some(Edit { kind, code, prio: l[2].as_z()?, key: l[3].as_b()?.to_vec(), ptag, pa, pb, ppref, body: l[5].as_b()?.to_vec(), pref })
}

/// The priority an `Id` ended up with is only visible in the listing; the markers log the
/// priority found there (looked up by the unique name given to each edit).
fn apply(ext: &mut Extensions, e: &Edit, idx: usize, log: &Log) -> Option<()> {
    let name = leak(format!("m{idx}").as_bytes())?;
    if e.prio < i32::MIN as i128 || e.prio > i32::MAX as i128 {
        return None;
    }
    let mk = || {
        let id = Id::new(e.prio as i32, name);
        if e.code == 1 {
            id.no_override()
        } else {
            id
        }
    };
    let mark = idx as u128;
    let marker = Arc::new(Marker { log: log.clone(), prio: Mutex::new(e.prio), mark, a: e.pa.clone(), b: e.pb.clone(), pref: e.ppref });
    let keep = marker.clone();
    let remove = e.code == 2;
    let key = leak(&e.key)?;
    match e.kind {
        0 if remove => ext.remove_prime(mk()),
        0 => {
            if e.ptag != 0 {
                return None;
            }
            // the `to` of a rewrite must be a valid path-only URI
            Uri::try_from(&e.pb[..]).ok()?;
            ext.add_prime(
                kvarn::prime!(req, _host, _addr, move |marker: Arc<Marker>| {
                    let seen = target_of(req.uri());
                    marker.log.lock().unwrap().push(X::L(vec![X::N(0), X::z(*marker.prio.lock().unwrap()), X::N(marker.mark), X::b(&seen)]));
                    if req.uri().path().as_bytes() == &marker.a[..] {
                        Some(Uri::try_from(&marker.b[..]).unwrap())
                    } else {
                        None
                    }
                }),
                mk(),
            );
            fix_prio(&keep, ext.get_prime().iter().map(|t| &t.0), name);
        }
        1 if remove => ext.remove_prepare_fn(mk()),
        1 => {
            if e.ptag != 1 {
                return None;
            }
            let m2 = marker.clone();
            ext.add_prepare_fn(
                Box::new(move |req, _| req.uri().path().as_bytes().starts_with(&m2.a)),
                kvarn::prepare!(req, _host, _path, _addr, move |marker: Arc<Marker>| {
                    let seen = target_of(req.uri());
                    marker.log.lock().unwrap().push(X::L(vec![X::N(2), X::z(*marker.prio.lock().unwrap()), X::N(marker.mark), X::b(&seen)]));
                    fat(&marker.b, marker.pref)
                }),
                mk(),
            );
            fix_prio(&keep, ext.get_prepare_fn().iter().map(|t| &t.0), name);
        }
        2 if remove => ext.remove_present_fn(mk()),
        2 => {
            if e.ptag != 2 {
                return None;
            }
            let m2 = marker.clone();
            ext.add_present_fn(
                Box::new(move |req, _| req.uri().path().as_bytes().starts_with(&m2.a)),
                kvarn::present!(data, move |marker: Arc<Marker>| {
                    // a present_fn extension looking at its (empty) arguments
                    let nargs = data.args.iter().count();
                    let mut ev = vec![X::N(3), X::z(*marker.prio.lock().unwrap()), X::N(marker.mark)];
                    if nargs != 0 {
                        ev.push(X::n(nargs));
                    }
                    marker.log.lock().unwrap().push(X::L(ev));
                }),
                mk(),
            );
            fix_prio(&keep, ext.get_present_fn().iter().map(|t| &t.0), name);
        }
        3 if remove => ext.remove_package(mk()),
        3 => {
            ext.add_package(
                kvarn::package!(_resp, _req, _host, _addr, move |marker: Arc<Marker>| {
                    marker.log.lock().unwrap().push(X::L(vec![X::N(6), X::z(*marker.prio.lock().unwrap()), X::N(marker.mark)]));
                }),
                mk(),
            );
            fix_prio(&keep, ext.get_package().iter().map(|t| &t.0), name);
        }
        4 if remove => ext.remove_post(mk()),
        4 => {
            ext.add_post(
                kvarn::post!(_req, _host, _pipe, _bytes, _addr, move |marker: Arc<Marker>| {
                    marker.log.lock().unwrap().push(X::L(vec![X::N(7), X::z(*marker.prio.lock().unwrap()), X::N(marker.mark)]));
                }),
                mk(),
            );
            fix_prio(&keep, ext.get_post().iter().map(|t| &t.0), name);
        }
        5 if remove => ext.remove_prepare_single(key),
        5 => {
            let body = e.body.clone();
            let k = e.key.clone();
            let m = Arc::new(Marker { log: log.clone(), prio: Mutex::new(0), mark, a: k, b: body, pref: e.pref });
            ext.add_prepare_single(
                key,
                kvarn::prepare!(req, _host, _path, _addr, move |m: Arc<Marker>| {
                    let seen = target_of(req.uri());
                    m.log.lock().unwrap().push(X::L(vec![X::N(1), X::b(&m.a), X::N(m.mark), X::b(&seen)]));
                    fat(&m.b, m.pref)
                }),
            );
        }
        6 if remove => ext.remove_present_internal(key),
        6 => {
            let m = Arc::new(Marker { log: log.clone(), prio: Mutex::new(0), mark, a: e.key.clone(), b: Vec::new(), pref: 0 });
            ext.add_present_internal(
                key,
                kvarn::present!(data, move |m: Arc<Marker>| {
                    let name = data.args.name().as_bytes().to_vec();
                    let args: Vec<X> = data.args.iter().map(|a| X::b(a.as_bytes())).collect();
                    // as kvarn_extensions' templates read them: from the back
                    let rargs: Vec<X> = data.args.iter().rev().map(|a| X::b(a.as_bytes())).collect();
                    m.log.lock().unwrap().push(X::L(vec![X::N(5), X::b(&name), X::N(m.mark), X::L(args), X::L(rargs)]));
                }),
            );
        }
        _ if remove => ext.remove_present_file(key),
        _ => {
            let m = Arc::new(Marker { log: log.clone(), prio: Mutex::new(0), mark, a: e.key.clone(), b: Vec::new(), pref: 0 });
            ext.add_present_file(
                key,
                kvarn::present!(data, move |m: Arc<Marker>| {
                    let nargs = data.args.iter().rev().count();
                    let mut ev = vec![X::N(4), X::b(&m.a), X::N(m.mark)];
                    if nargs != 0 {
                        ev.push(X::n(nargs));
                    }
                    m.log.lock().unwrap().push(X::L(ev));
                }),
            );
        }
    }
    Some(())
}

fn fix_prio<'a>(marker: &Arc<Marker>, ids: impl Iterator<Item = &'a Id>, name: &str) {
    for id in ids {
        if id.name() == name {
            *marker.prio.lock().unwrap() = id.priority() as i128;
        }
    }
}

struct Req {
    method: u128,
    target: Vec<u8>,
    range: Option<(u128, u128)>,
}

fn parse_req(x: &X) -> Option<Req> {
    if let Some(p) = x.as_b() {
        return Some(Req { method: 0, target: p.to_vec(), range: None });
    }
    let l = x.as_l()?;
    if l.len() != 3 {
        return None;
    }
    let r = l[2].as_l()?;
    let range = match r.len() {
        0 => None,
        2 => Some((r[0].as_n()?, r[1].as_n()?)),
        _ => return None,
    };
    Some(Req { method: l[0].as_n()?, target: l[1].as_b()?.to_vec(), range })
}

const READ_TIMEOUT: Duration = Duration::from_secs(20);

async fn one_request(desc: Arc<PortDescriptor>, r: &Req) -> std::io::Result<Option<(u16, Vec<u8>)>> {
    use tokio::io::{AsyncReadExt, AsyncWriteExt};
    let listener = tokio::net::TcpListener::bind("127.0.0.1:0").await?;
    let addr = listener.local_addr()?;
    let mut client = tokio::net::TcpStream::connect(addr).await?;
    let (server_end, peer) = listener.accept().await?;
    let task = tokio::spawn(async move {
        let _ = kvarn::handle_connection(kvarn::Incoming::Tcp(server_end), peer, desc, || true).await;
    });
    let head_only = r.method == 1;
    let mut req = Vec::new();
    req.extend_from_slice(match r.method {
        0 => &b"GET "[..],
        1 => &b"HEAD "[..],
        2 => &b"POST "[..],
        3 => &b"PUT "[..],
        _ => &b"DELETE "[..],
    });
    req.extend_from_slice(&r.target);
    req.extend_from_slice(b" HTTP/1.1\r\nHost: localhost\r\n");
    if let Some((s, e)) = r.range {
        req.extend_from_slice(format!("Range: bytes={s}-{e}\r\n").as_bytes());
    }
    if r.method >= 2 {
        req.extend_from_slice(b"Content-Length: 0\r\n");
    }
    req.extend_from_slice(b"\r\n");
    client.write_all(&req).await?;
    let mut buf = Vec::new();
    let mut tmp = [0u8; 4096];
    let mut result = None;
    let mut head_end = None;
    loop {
        if head_end.is_none() {
            head_end = buf.windows(4).position(|w| w == b"\r\n\r\n").map(|p| p + 4);
        }
        if let Some(he) = head_end {
            let head = String::from_utf8_lossy(&buf[..he]).to_ascii_lowercase();
            let status: u16 = head.split(' ').nth(1).and_then(|s| s.parse().ok()).unwrap_or(0);
            // no content-length (a streamed body): the body ends where the connection ends
            let len: Option<usize> = if head_only {
                Some(0)
            } else {
                head.lines().find_map(|l| l.strip_prefix("content-length:").map(|v| v.trim().parse::<usize>().unwrap_or(0)))
            };
            match len {
                Some(len) if buf.len() >= he + len => {
                    result = Some((status, buf[he..he + len].to_vec()));
                    break;
                }
                _ => {}
            }
        }
        let n = match tokio::time::timeout(READ_TIMEOUT, client.read(&mut tmp)).await {
            Ok(Ok(n)) => n,
            Ok(Err(e)) if e.kind() == std::io::ErrorKind::ConnectionReset => 0,
            Ok(Err(e)) => return Err(e),
            Err(_) => return Err(std::io::Error::new(std::io::ErrorKind::TimedOut, "no response")),
        };
        if n == 0 {
            if let Some(he) = head_end {
                let head = String::from_utf8_lossy(&buf[..he]).to_ascii_lowercase();
                if !head.contains("content-length:") {
                    let status: u16 = head.split(' ').nth(1).and_then(|s| s.parse().ok()).unwrap_or(0);
                    result = Some((status, buf[he..].to_vec()));
                    break;
                }
            }
            if !buf.is_empty() {
                return Err(std::io::Error::new(std::io::ErrorKind::UnexpectedEof, "partial response"));
            }
            break;
        }
        buf.extend_from_slice(&tmp[..n]);
    }
    // end of the connection: the server task returns (or has panicked); only then is the log complete
    let _ = client.shutdown().await;
    drop(client);
    match tokio::time::timeout(READ_TIMEOUT, task).await {
        Ok(_) => {}
        Err(_) => return Err(std::io::Error::new(std::io::ErrorKind::TimedOut, "server task did not end")),
    }
    Ok(result)
}

static DIR_COUNTER: std::sync::atomic::AtomicUsize = std::sync::atomic::AtomicUsize::new(0);

struct TempDir(std::path::PathBuf);
impl Drop for TempDir {
    fn drop(&mut self) {
        let _ = std::fs::remove_dir_all(&self.0);
    }
}

/// the files of the public directory: `<tmp>/public/<path without the leading slash>`
fn make_files(files: &[X]) -> Option<Result<TempDir, std::io::Error>> {
    let n = DIR_COUNTER.fetch_add(1, std::sync::atomic::Ordering::SeqCst);
    let dir = std::env::temp_dir().join(format!("kvh-c16-{}-{}", std::process::id(), n));
    let mut list = Vec::new();
    for f in files {
        let f = f.as_l()?;
        if f.len() != 2 {
            return None;
        }
        let (p, c) = (f[0].as_b()?, f[1].as_b()?);
        let p = std::str::from_utf8(p).ok()?;
        // only plain relative names: segments of [a-z0-9.] that are not "." or ".."
        if !p.starts_with('/') || p.len() < 2 {
            return None;
        }
        for seg in p[1..].split('/') {
            if seg.is_empty() || seg == "." || seg == ".." || !seg.bytes().all(|b| b.is_ascii_lowercase() || b.is_ascii_digit() || b == b'.') {
                return None;
            }
        }
        list.push((p[1..].to_owned(), c.to_vec()));
    }
    let guard = TempDir(dir.clone());
    let r = (|| {
        std::fs::create_dir_all(dir.join("public"))?;
        for (p, c) in &list {
            let path = dir.join("public").join(p);
            if let Some(parent) = path.parent() {
                std::fs::create_dir_all(parent)?;
            }
            std::fs::write(path, c)?;
        }
        Ok(())
    })();
    Some(r.map(|()| guard))
}

fn trouble(what: &str) -> X {
    X::L(vec![X::N(93), X::b(what)])
}

fn run(x: &X) -> X {
    let l = match x.as_l() {
        Some(l) if l.len() == 2 || l.len() == 3 => l,
        _ => return X::bad(),
    };
    let (edits, reqs) = match (l[0].as_l(), l[1].as_l()) {
        (Some(e), Some(p)) => (e, p),
        _ => return X::bad(),
    };
    let (cache_on, files) = if l.len() == 3 {
        match l[2].as_l() {
            Some(o) if o.len() == 2 => match (o[0].as_bool(), o[1].as_l()) {
                (Some(c), Some(f)) if f.is_empty() => (c, None),
                (Some(c), Some(f)) if f.len() == 1 => match f[0].as_l() {
                    Some(fs) => (c, Some(fs)),
                    None => return X::bad(),
                },
                _ => return X::bad(),
            },
            _ => return X::bad(),
        }
    } else {
        (false, None)
    };
    let log: Log = Arc::new(Mutex::new(Vec::new()));
    let mut ext = Extensions::empty();
    for (idx, e) in edits.iter().enumerate() {
        let e = match parse_edit(e) {
            Some(e) => e,
            None => return X::bad(),
        };
        // a panicking edit (no_override at i32::MIN) unwinds before the vector is touched
        let r = std::panic::catch_unwind(std::panic::AssertUnwindSafe(|| apply(&mut ext, &e, idx, &log)));
        if let Ok(None) = r {
            return ood();
        }
    }
    let mut rs = Vec::new();
    for r in reqs {
        match parse_req(r) {
            Some(r) => {
                // the model's domain: a target that starts with '/', is a valid URI, without percent-encoding or fragment
                if r.target.first() != Some(&b'/') || r.target.contains(&b'%') || r.target.contains(&b'#') || r.method > 4 || Uri::try_from(&r.target[..]).is_err() {
                    return ood();
                }
                rs.push(r)
            }
            None => return X::bad(),
        }
    }
    let mut options = host::Options::new();
    let mut _guard = None;
    let base = match files {
        None => {
            options.disable_fs();
            "/nonexistent-kvarn-verif".to_owned()
        }
        Some(fs) => match make_files(fs) {
            None => return ood(),
            Some(Err(e)) => return X::L(vec![trouble(&format!("temp dir: {:?}", e.kind()))]),
            Some(Ok(g)) => {
                let p = g.0.to_string_lossy().into_owned();
                _guard = Some(g);
                p
            }
        },
    };
    let mut host = Host::unsecure("localhost", base, ext, options);
    host.limiter.disable();
    if !cache_on {
        host.disable_response_cache();
        host.disable_fs_cache();
    }
    let coll = HostCollection::builder().insert(host).build();
    let desc = Arc::new(PortDescriptor::unsecure(8080, coll));
    let rt = match tokio::runtime::Builder::new_current_thread().enable_all().build() {
        Ok(rt) => rt,
        Err(e) => return X::L(vec![trouble(&format!("runtime: {:?}", e.kind()))]),
    };
    let out = rt.block_on(async move {
        let mut out = Vec::new();
        for r in &rs {
            log.lock().unwrap().clear();
            let res = one_request(desc.clone(), r).await;
            let events: Vec<X> = log.lock().unwrap().clone();
            out.push(match res {
                Err(e) => trouble(&format!("{:?}", e.kind())),
                Ok(None) => X::L(vec![X::panic(), X::L(events)]),
                Ok(Some((status, body))) => {
                    // an error page is kvarn's default error body; only the status is compared
                    let body = if status >= 400 { Vec::new() } else { body };
                    X::L(vec![X::ok(X::L(vec![X::n(status), X::b(&body)])), X::L(events)])
                }
            });
        }
        out
    });
    drop(rt);
    X::L(out)
}

pub fn dispatch(comp: &str, x: &X) -> Option<X> {
    Some(match comp {
        "order.run" => crate::guarded(|| run(x)),
        _ => return None,
    })
}
