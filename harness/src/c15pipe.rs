//! C15: several hosts in one `HostCollection`, each with the fixture pipeline of c00pipe.rs (handlers with
//! invocation counters, vary rules, response cache).  A request is routed the way `kvarn::handle_connection` does it
//! (`Collection::get_from_request(&request, sni)`, then `get_host(&host.name).unwrap()`) and served by
//! `kvarn::handle_cache`; `Collection::clear_page(name, uri)` and `Collection::clear_response_caches(filter)` are
//! called with host names and filters.  Model: Model/HostsPipe.v (the product of Model/Hosts.v over Model/CacheX.v).
//!
//! hosts.pipe  (L hosts cfgs events)
//!   hosts  = (L (L default name (L alt...)) ...)        cfgs = (L cfg ...): one c00pipe configuration per host
//!            (keys cache, default_ext, disable_ims, same_compress, handlers, vary, report)
//!   event  = (L (N 0) sni (L hosthdr...) addr method target headers body) | (L (N 1) name target)
//!          | (L (N 2) (L [filter])) | (L (N 3) ms)
//!   result = (L (N 0) (L reply...)) | (L (N 2));  reply = (L (N 409)) | (L (N 200) host obs) | (L found cleared) | (L)
//!            obs = (L status headers body decode_ok identity log (N stream)) as in c04x.rs
use crate::c00pipe::{self, HSpec, Shared};
use crate::xval::X;
use kvarn::prelude::*;
use std::borrow::Cow;
use std::sync::{Arc, Mutex};

fn ood() -> X {
    X::L(vec![X::N(96)])
}

fn kv<'a>(cfg: &'a [X], k: &str) -> Option<&'a X> {
    cfg.iter().find_map(|e| match e.as_l() {
        Some([n, v]) if n.as_b() == Some(k.as_bytes()) => Some(v),
        _ => None,
    })
}
fn flag(cfg: &[X], k: &str, d: bool) -> bool {
    kv(cfg, k).and_then(X::as_bool).unwrap_or(d)
}

struct Built {
    shared: Arc<Shared>,
    report: Vec<String>,
}

/// One host of the collection: what `c00pipe::build_host` builds, with the given name and alternative names.
fn build_one(idx: usize, name: &str, alts: &[String], cfg: &X) -> Option<(Host, Built)> {
    let cfg = cfg.as_l()?;
    let mut ext = if flag(cfg, "default_ext", false) { Extensions::new() } else { Extensions::empty() };
    let mut handlers = Vec::new();
    if let Some(hs) = kv(cfg, "handlers") {
        for (i, h) in hs.as_l()?.iter().enumerate() {
            handlers.push(c00pipe::parse_handler(i, h)?);
        }
    }
    let shared = Arc::new(Shared { log: Mutex::new(Vec::new()), counts: Mutex::new(vec![0; handlers.len() + 8]) });
    for (path, spec) in handlers {
        let sh = Arc::clone(&shared);
        let spec = Arc::new(spec);
        ext.add_prepare_single(
            c00pipe::leak(&path),
            prepare!(req, _host, _path, _addr, move |spec: Arc<HSpec>, sh: Arc<Shared>| {
                c00pipe::handler_response(spec, sh, req)
            }),
        );
    }
    let mut options = host::Options::new();
    options.disable_fs();
    if flag(cfg, "disable_ims", false) {
        options.disable_if_modified_since = true;
    }
    // the index of the host is carried by its path
    let mut host = Host::unsecure(name, format!("/nonexistent-kvarn-verif/h{idx}"), ext, options);
    host.limiter.disable();
    for a in alts {
        host.add_alternative_name(a);
    }
    if !flag(cfg, "cache", true) {
        host.disable_response_cache();
    }
    if flag(cfg, "same_compress", true) {
        host.compression_options_oneshot = comprash::CompressionOptions::cached();
    }
    if let Some(rules) = kv(cfg, "vary") {
        for r in rules.as_l()? {
            let p = r.as_l()?;
            let mut s = vary::Settings::empty();
            for h in p[1].as_l()? {
                let t = h.as_l()?;
                let id = t[1].as_n()?;
                s = s.add_rule(c00pipe::leak(t[0].as_b()?), move |v| Cow::Owned(c00pipe::xform(id, v)), c00pipe::leak(t[2].as_b()?));
            }
            host.vary.add_mut(c00pipe::leak(p[0].as_b()?), s);
        }
    }
    let report = kv(cfg, "report")
        .and_then(X::as_l)
        .map(|l| l.iter().filter_map(|x| x.as_b().map(|b| String::from_utf8_lossy(b).into_owned())).collect())
        .unwrap_or_default();
    Some((host, Built { shared, report }))
}

fn host_idx(h: &Host) -> usize {
    h.path.rsplit('h').next().and_then(|d| d.parse().ok()).expect("marker path")
}

fn text(x: &X) -> Result<String, X> {
    String::from_utf8(x.as_b().ok_or_else(X::bad)?.to_vec()).map_err(|_| ood())
}
fn opt_text(x: &X) -> Result<Option<String>, X> {
    match x.as_opt() {
        Some(None) => Ok(None),
        Some(Some(v)) => Ok(Some(text(v)?)),
        None => Err(X::bad()),
    }
}

async fn run(coll: &HostCollection, built: &[Built], events: &[X]) -> Result<Vec<X>, X> {
    let t0 = std::time::SystemTime::now().duration_since(std::time::UNIX_EPOCH).unwrap().as_secs();
    let mut out = Vec::new();
    for ev in events {
        let l = ev.as_l().ok_or_else(X::bad)?;
        match (l.first().and_then(X::as_n).ok_or_else(X::bad)?, l.len()) {
            (0, 8) => {
                let sni = opt_text(&l[1])?;
                let mut hdrs: Vec<X> = Vec::new();
                for h in l[2].as_l().ok_or_else(X::bad)? {
                    hdrs.push(X::L(vec![X::b("host"), X::b(h.as_b().ok_or_else(X::bad)?)]));
                }
                for h in l[6].as_l().ok_or_else(X::bad)? {
                    hdrs.push(match h.as_l() {
                        Some([n, v]) if n.as_b() == Some(b"if-modified-since") => X::L(vec![n.clone(), X::b(c00pipe::subst_ims(v.as_b().unwrap_or(b""), t0))]),
                        Some([_, _]) => h.clone(),
                        _ => return Err(X::bad()),
                    });
                }
                let addr = c00pipe::sockaddr(l[3].as_n().ok_or_else(X::bad)?);
                let (method, target, body) = (l[4].as_b().ok_or_else(X::bad)?, l[5].as_b().ok_or_else(X::bad)?, l[7].as_b().ok_or_else(X::bad)?);
                // the URI gets the last host header value as authority ("localhost" without one)
                let mut req = c00pipe::make_request("localhost", method, target, &hdrs, body).ok_or_else(ood)?;
                // handle_connection: choose the host, 409 without one; look it up again by its own name
                let host = match coll.get_from_request(&req, sni.as_deref()) {
                    None => {
                        out.push(X::L(vec![X::N(409)]));
                        continue;
                    }
                    Some(h) => coll.get_host(&h.name).unwrap(),
                };
                let idx = host_idx(host);
                for b in built {
                    b.shared.log.lock().unwrap().clear();
                }
                let reply = kvarn::handle_cache(&mut req, addr, host).await;
                let log: Vec<X> = built[idx].shared.log.lock().unwrap().iter().map(X::b).collect();
                // no handler of another host ran
                if let Some(j) = built.iter().enumerate().position(|(j, b)| j != idx && !b.shared.log.lock().unwrap().is_empty()) {
                    out.push(X::L(vec![X::N(92), X::n(idx), X::n(j)]));
                    continue;
                }
                let enc = reply.response.headers().get("content-encoding").map(|v| v.as_bytes().to_vec());
                let (decoded, ok) = c00pipe::decode_body(enc.as_deref(), reply.response.body());
                let stream = match &reply.future {
                    None => 0u8,
                    Some((_, None)) => 1,
                    Some((_, Some(_))) => 2,
                };
                out.push(X::L(vec![
                    X::N(200),
                    X::n(idx),
                    X::L(vec![
                        X::n(reply.response.status().as_u16()),
                        c00pipe::report_headers(reply.response.headers(), &built[idx].report),
                        X::b(c00pipe::canon_body(&decoded)),
                        X::bool(ok),
                        X::b(c00pipe::canon_body(&reply.identity_body)),
                        X::L(log),
                        X::n(stream),
                    ]),
                ]));
            }
            (1, 3) => {
                let name = text(&l[1])?;
                let uri = Uri::try_from(l[2].as_b().ok_or_else(X::bad)?).map_err(|_| ood())?;
                let (found, cleared) = coll.clear_page(&name, &uri);
                out.push(X::L(vec![X::bool(found), X::bool(cleared)]));
            }
            (2, 2) => {
                let filter = opt_text(&l[1])?;
                coll.clear_response_caches(filter.as_deref()).await;
                out.push(X::L(vec![]));
            }
            (3, 2) => {
                tokio::time::sleep(Duration::from_millis(l[1].as_n().ok_or_else(X::bad)? as u64)).await;
                out.push(X::L(vec![]));
            }
            _ => return Err(X::bad()),
        }
    }
    Ok(out)
}

fn pipe(x: &X) -> X {
    let l = match x.as_l() {
        Some(l) if l.len() == 3 => l,
        _ => return X::bad(),
    };
    let (hosts, cfgs, events) = match (l[0].as_l(), l[1].as_l(), l[2].as_l()) {
        (Some(h), Some(c), Some(e)) if h.len() == c.len() => (h, c, e),
        _ => return X::bad(),
    };
    let mut built = Vec::new();
    let mut made = Vec::new();
    for (idx, (h, cfg)) in hosts.iter().zip(cfgs.iter()).enumerate() {
        let (default, name, alts) = match h.as_l() {
            Some([d, n, a]) => match (d.as_bool(), text(n), a.as_l()) {
                (Some(d), Ok(n), Some(a)) => match a.iter().map(text).collect::<Result<Vec<_>, _>>() {
                    Ok(a) => (d, n, a),
                    Err(e) => return e,
                },
                (_, Err(e), _) => return e,
                _ => return X::bad(),
            },
            _ => return X::bad(),
        };
        match build_one(idx, &name, &alts, cfg) {
            Some((host, b)) => {
                built.push(b);
                made.push((default, host));
            }
            None => return X::bad(),
        }
    }
    let mut coll = None;
    let r = crate::guarded(|| {
        let mut b = HostCollection::builder();
        for (default, host) in made {
            b = if default { b.default(host) } else { b.insert(host) };
        }
        coll = Some(b.build());
        X::N(0)
    });
    if r != X::N(0) {
        return r;
    }
    let coll = coll.unwrap();
    match c00pipe::block_on(run(&coll, &built, events)) {
        Ok(out) => X::L(vec![X::N(0), X::L(out)]),
        Err(e) => e,
    }
}

pub fn dispatch(comp: &str, x: &X) -> Option<X> {
    Some(match comp {
        "hosts.pipe" => pipe(x),
        _ => return None,
    })
}
