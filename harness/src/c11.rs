//! C11: handover.
//! `handover.run` – a chain of real kvarn servers (`RunConfig::execute`, same loopback ports, same
//! control-socket path, one tokio runtime per instance) in this process, the way
//! `tests/shutdown.rs::handover` does it, with the hook points of the cargo feature `verif-hooks`
//! (harness feature `hooks`) serialised by a baton: between two hook points that enclose an access
//! to shared state exactly one thread runs, so the order of the log IS the order of the accesses.
//!
//! An instance is a "process": its thread drops the tokio runtime (every task with it) as soon as
//! its `wait()` has returned, as `main` of a real server returns then.  A `wait()` that resolves
//! while a connection is still being served therefore shows in the clients' ledger as a cut connection.
//!
//! Clients (not instrumented): one back-to-back client per port and family (one request per
//! connection), requests with a slow handler in flight across every switch, keep-alive clients whose
//! connection spans the switch (busy: a request every few ms on the same connection; idle: one request,
//! then silence until the server closes).  Every answer names the instance that wrote it.
//! Waiters: for every instance `wait()` is called right after `execute()` (the process' own), when the
//! instance has been told to shut down, and after its shutdown has completed.
//! A prober asks the control socket who answers and records EVERY outcome together with the inode of
//! the socket file.
//! The output is raw: the event log, the clients' ledger, the prober's log, the waiters, timings.
//! The mapping of the log to labels of Model/Handover.v and every check is done by driver/props/c11.py.
use crate::xval::X;

#[cfg(feature = "hooks")]
mod run {
    use crate::xval::X;
    use kvarn::prelude::*;
    use std::cell::Cell;
    use std::collections::HashMap;
    use std::io::{Read, Write};
    use std::net::{IpAddr, Ipv4Addr, Ipv6Addr, SocketAddr, TcpStream as StdStream};
    use std::sync::atomic::{AtomicBool, AtomicU32, AtomicU64, Ordering};
    use std::sync::{Arc, Condvar, Mutex};
    use std::thread::ThreadId;
    use std::time::{Duration, Instant};

    thread_local! { static INST: Cell<u32> = const { Cell::new(99) }; }

    /// a thread that waits this long for the baton gives up (the run is then harness trouble, not a verdict)
    const WATCHDOG: Duration = Duration::from_secs(20);

    struct Ev {
        inst: u32,
        tid: u64,
        point: &'static str,
        val: i64,
        t_us: u64,
    }
    pub struct Delay {
        pub name: String,
        pub ms: u64,
        /// how many arrivals per instance are delayed (counted while the instance starts up or is being replaced)
        pub reps: u32,
        /// instances >= this one
        pub from: u32,
    }
    #[derive(Default)]
    struct Inner {
        holder: Option<ThreadId>,
        log: Vec<Ev>,
        free: bool,
        stalled: u32,
        tids: HashMap<u64, u64>,
        rng: u64,
        delayed: HashMap<(u32, usize), u32>,
        /// instance -> time of its `ctl.recv` (it has been told to shut down)
        told: HashMap<u32, u64>,
        /// instance -> time of its `ct.exit` (the shutdown-complete signal has been sent)
        fin: HashMap<u32, u64>,
        /// the newest instance that has been started, and the instances whose `execute` has returned
        newest: u32,
        executed: std::collections::HashSet<u32>,
    }
    pub struct Ctx {
        m: Mutex<Inner>,
        cv: Condvar,
        t0: Instant,
        jitter_us: u64,
        delays: Vec<Delay>,
        ports: Vec<u16>,
    }

    fn hash_id<T: std::hash::Hash>(t: &T) -> u64 {
        use std::hash::Hasher;
        let mut h = std::collections::hash_map::DefaultHasher::new();
        t.hash(&mut h);
        h.finish()
    }
    /// the segment that follows this point contains an access to shared state and ends at another point
    /// before the thread can yield
    fn closed(name: &str) -> bool {
        matches!(
            name,
            "ex.bind" | "hx.listen" | "sh.enter" | "sh.set" | "sh.init" | "sh.swap" | "sh.notify" | "ap.poll" | "ap.flag" | "ap.waker"
                | "al.got" | "al.counted" | "al.shut" | "al.exit" | "rm.enter" | "rm.dec" | "rm.flag" | "ct.start" | "ct.sent" | "hx.resp"
        )
    }

    impl Ctx {
        fn now(&self) -> u64 {
            self.t0.elapsed().as_micros() as u64
        }
        fn tid(g: &mut Inner) -> u64 {
            let raw = match tokio::task::try_id() {
                Some(id) => hash_id(&id) | 1,
                None => hash_id(&std::thread::current().id()) & !1,
            };
            let n = g.tids.len() as u64;
            *g.tids.entry(raw).or_insert(n)
        }
        /// a pseudo event of the harness itself
        pub fn note(&self, point: &'static str, val: i64) {
            let mut g = self.m.lock().unwrap();
            if g.free {
                return;
            }
            let tid = Self::tid(&mut g);
            let t_us = self.now();
            if point == "h.start" {
                g.newest = val as u32;
            } else if point == "h.executed" {
                g.executed.insert(val as u32);
            }
            g.log.push(Ev { inst: INST.with(Cell::get), tid, point, val, t_us });
        }
        fn push(&self, g: &mut Inner, inst: u32, tid: u64, name: &'static str, val: i64) {
            let t_us = self.now();
            if name == "ctl.recv" {
                g.told.entry(inst).or_insert(t_us);
            } else if name == "ct.exit" {
                g.fin.entry(inst).or_insert(t_us);
            }
            g.log.push(Ev { inst, tid, point: name, val, t_us });
        }
        fn arrive(&self, name: &'static str, val: i64) {
            let me = std::thread::current().id();
            let inst = INST.with(Cell::get);
            if name == "ctl.send" && inst != 99 {
                // what the kernel says just before the predecessor is told: sockets in listening state on each port
                for (ix, cnt) in listening_sockets(&self.ports).into_iter().enumerate() {
                    self.note("h.lsn", if cnt < 0 { -1 } else { (ix as i64) * 1000 + cnt });
                }
            }
            let mut g = self.m.lock().unwrap();
            if g.free {
                return;
            }
            let tid = Self::tid(&mut g);
            let held = g.holder == Some(me);
            if held {
                // the segment since the previous point ends here
                self.push(&mut g, inst, tid, name, val);
                g.holder = None;
                self.cv.notify_all();
            }
            // xorshift jitter + directed delays, never while holding the baton
            g.rng ^= g.rng << 13;
            g.rng ^= g.rng >> 7;
            g.rng ^= g.rng << 17;
            let mut d = if self.jitter_us > 0 { g.rng % self.jitter_us } else { 0 };
            // directed delays hit the instance that is starting up and the instances that are being (or have been) replaced
            if inst != 99 && (inst < g.newest || !g.executed.contains(&inst)) {
                for (ix, dl) in self.delays.iter().enumerate() {
                    if dl.name == name && inst >= dl.from {
                        let c = g.delayed.entry((inst, ix)).or_insert(0);
                        if *c < dl.reps {
                            *c += 1;
                            d += 1000 * dl.ms;
                        }
                    }
                }
            }
            drop(g);
            if d > 0 {
                std::thread::sleep(Duration::from_micros(d));
            }
            let mut g = self.m.lock().unwrap();
            if g.free {
                return;
            }
            if closed(name) {
                let deadline = Instant::now() + WATCHDOG;
                while g.holder.is_some() && !g.free {
                    let now = Instant::now();
                    if now >= deadline {
                        g.stalled += 1;
                        break;
                    }
                    let (g2, _) = self.cv.wait_timeout(g, deadline - now).unwrap();
                    g = g2;
                }
                if g.free {
                    return;
                }
                if !held {
                    self.push(&mut g, inst, tid, name, val);
                }
                g.holder = Some(me);
            } else if !held {
                self.push(&mut g, inst, tid, name, val);
            }
        }
        fn set_free(&self) {
            let mut g = self.m.lock().unwrap();
            g.free = true;
            g.holder = None;
            self.cv.notify_all();
        }
        fn told(&self, i: u32) -> Option<u64> {
            self.m.lock().unwrap().told.get(&i).copied()
        }
        fn fin(&self, i: u32) -> Option<u64> {
            self.m.lock().unwrap().fin.get(&i).copied()
        }
    }

    /// number of this process' TCP sockets in listening state (SO_ACCEPTCONN) on each of the ports, both families: every
    /// instance of the chain lives in this process.  (/proc/net/tcp would say the same for the whole machine, but reading it
    /// takes seconds when the machine has many sockets.)  -1: /proc/self/fd unreadable
    fn listening_sockets(ports: &[u16]) -> Vec<i64> {
        use std::os::fd::BorrowedFd;
        let dir = match std::fs::read_dir("/proc/self/fd") {
            Ok(d) => d,
            Err(_) => return vec![-1; ports.len()],
        };
        let mut n = vec![0i64; ports.len()];
        for e in dir.flatten() {
            let fd: i32 = match e.file_name().to_str().and_then(|s| s.parse().ok()) {
                Some(fd) => fd,
                None => continue,
            };
            if !std::fs::read_link(e.path()).map(|l| l.to_string_lossy().starts_with("socket:")).unwrap_or(false) {
                continue;
            }
            // read-only queries on a descriptor that may be closed (or reused) by now: they fail or describe another socket
            let b = unsafe { BorrowedFd::borrow_raw(fd) };
            let s = socket2::SockRef::from(&b);
            if !s.is_listener().unwrap_or(false) {
                continue;
            }
            if let Some(port) = s.local_addr().ok().and_then(|a| a.as_socket()).map(|a| a.port()) {
                if let Some(k) = ports.iter().position(|p| *p == port) {
                    n[k] += 1;
                }
            }
        }
        n
    }

    // ---- ports -------------------------------------------------------------------------------------
    // Above the range the kernel takes local ports of outgoing connections from (32768..60999) and above every range
    // another check's harness uses: nobody else binds or connects from these.  Harness processes of this check (also of
    // other sandboxes on the machine) keep out of each other's way with a lock file per block of four ports: with
    // SO_REUSEPORT a foreign server on the same port would not make bind() fail, it would take connections.
    static PORT_COUNTER: AtomicU32 = AtomicU32::new(0);
    const PORT_BASE: u32 = 61_000;
    const PORT_BLOCKS: u32 = 1_100;
    fn port_is_free(port: u16) -> bool {
        let v4 = match StdStream::connect_timeout(&SocketAddr::new(IpAddr::V4(Ipv4Addr::LOCALHOST), port), Duration::from_secs(2)) {
            Err(e) => e.kind() == std::io::ErrorKind::ConnectionRefused,
            Ok(_) => false,
        };
        let v6 = match StdStream::connect_timeout(&SocketAddr::new(IpAddr::V6(Ipv6Addr::LOCALHOST), port), Duration::from_secs(2)) {
            Err(e) => e.kind() != std::io::ErrorKind::TimedOut,
            Ok(_) => false,
        };
        v4 && v6
    }
    fn claim_ports(n: usize) -> Option<(Vec<u16>, std::fs::File)> {
        let dir = std::env::temp_dir().join("kvh-c11-ports");
        let _ = std::fs::create_dir_all(&dir);
        for _ in 0..300 {
            let c = PORT_COUNTER.fetch_add(1, Ordering::Relaxed);
            let block = (std::process::id().wrapping_mul(37).wrapping_add(c.wrapping_mul(101))) % PORT_BLOCKS;
            let f = match std::fs::OpenOptions::new().create(true).truncate(false).write(true).open(dir.join(format!("{block}.lock"))) {
                Ok(f) => f,
                Err(_) => continue,
            };
            if f.try_lock().is_err() {
                continue;
            }
            let ports: Vec<u16> = (0..n as u32).map(|k| (PORT_BASE + block * 4 + k) as u16).collect();
            if ports.iter().all(|p| port_is_free(*p)) {
                return Some((ports, f));
            }
        }
        None
    }

    pub struct Params {
        pub nports: usize,
        pub handovers: usize,
        pub flavour: u8, // 0 current-thread, 1 multi-thread (2 workers)
        pub seed: u64,
        pub jitter_us: u64,
        pub delays: Vec<Delay>,
        pub slow_ms: u64,
        pub nslow: usize,
        pub gap_ms: u64,
        /// 0: successors are started when the predecessor answers on the control socket; 1: as soon as its `execute` returned
        pub eager: bool,
        /// bit 0: a busy keep-alive client per port, bit 1: an idle keep-alive connection is opened before every handover
        pub ka: u8,
        /// both address families: two listeners per port
        pub dual: bool,
        /// a stale socket file (nobody listens) is at the path before the first instance starts
        pub stale: bool,
        /// after `execute` returned the instance's main task blocks its thread for this long before it calls `wait()`
        pub block_ms: u64,
        /// a failed bind() of a successor is reported as it is (after two attempts on other ports it is not a collision)
        pub last_attempt: bool,
    }

    struct Instance {
        stop: Option<tokio::sync::oneshot::Sender<()>>,
        thread: Option<std::thread::JoinHandle<()>>,
        mgr: Option<Arc<shutdown::Manager>>,
        executed: Arc<AtomicBool>,
        waited: Arc<AtomicBool>,
    }

    fn start_instance(ctx: &Arc<Ctx>, i: u32, p: &Params, ports: &[u16], path: &std::path::Path) -> Instance {
        let (tx_mgr, rx_mgr) = std::sync::mpsc::channel::<Arc<shutdown::Manager>>();
        let (tx_stop, rx_stop) = tokio::sync::oneshot::channel::<()>();
        let executed = Arc::new(AtomicBool::new(false));
        let waited = Arc::new(AtomicBool::new(false));
        let (e2, w2) = (Arc::clone(&executed), Arc::clone(&waited));
        let ctx2 = Arc::clone(ctx);
        let ports: Vec<u16> = ports.to_vec();
        let path = path.to_path_buf();
        let flavour = p.flavour;
        let slow_ms = p.slow_ms;
        let dual = p.dual;
        let block_ms = p.block_ms;
        let thread = std::thread::spawn(move || {
            INST.with(|c| c.set(i));
            let rt = if flavour == 0 {
                tokio::runtime::Builder::new_current_thread().on_thread_start(move || INST.with(|c| c.set(i))).enable_all().build().unwrap()
            } else {
                tokio::runtime::Builder::new_multi_thread()
                    .worker_threads(2)
                    .on_thread_start(move || INST.with(|c| c.set(i)))
                    .enable_all()
                    .build()
                    .unwrap()
            };
            let main = async move {
                let mut ext = Extensions::empty();
                let me = i;
                ext.add_prepare_fn(
                    Box::new(|_, _| true),
                    prepare!(req, _host, _path, _addr, move |slow_ms: u64, me: u32| {
                        if req.uri().path() == "/slow" {
                            tokio::time::sleep(Duration::from_millis(*slow_ms)).await;
                        }
                        FatResponse::no_cache(Response::new(Bytes::from(format!("served by {me}"))))
                    }),
                    extensions::Id::new(0, "c11 handler"),
                );
                let mut host = Host::unsecure("localhost", "/nonexistent/kvh-c11", ext, host::Options::default());
                host.disable_fs_cache().disable_response_cache();
                host.limiter.disable();
                let data = HostCollection::builder().insert(host).build();
                let mut rc = RunConfig::new();
                for port in &ports {
                    let d = PortDescriptor::unsecure(*port, Arc::clone(&data));
                    rc = rc.bind(if dual { d } else { d.ipv4_only() });
                }
                let who: kvarn::ctl::Plugin = Box::new(move |_args, _ports, _sd, _plugins| {
                    Box::pin(async move { kvarn::ctl::PluginResponse::ok(format!("{i}")) })
                });
                let mgr = rc.set_ctl_path(&path).add_plugin("whoami", who).execute().await;
                ctx2.note("h.executed", i64::from(i));
                e2.store(true, Ordering::SeqCst);
                let _ = tx_mgr.send(Arc::clone(&mgr));
                if block_ms > 0 {
                    // the application does something synchronous between execute() and wait()
                    std::thread::sleep(Duration::from_millis(block_ms));
                }
                mgr.wait().await;
                ctx2.note("h.waited", i64::from(i));
                w2.store(true, Ordering::SeqCst);
            };
            rt.block_on(async move {
                let h = tokio::spawn(main);
                tokio::pin!(h);
                tokio::select! {
                    _ = &mut h => {}
                    _ = rx_stop => { h.abort(); }
                }
            });
            // the process ends here: wait() has returned (or the harness gave up on it)
            rt.shutdown_timeout(Duration::from_millis(500));
        });
        // `execute` of a successor returns only after the predecessor has replied
        let mgr = rx_mgr.recv_timeout(Duration::from_secs(30)).ok();
        Instance { stop: Some(tx_stop), thread: Some(thread), mgr, executed, waited }
    }

    // ---- clients ---------------------------------------------------------------------------------
    /// kinds: 0 back-to-back, 1 slow handler, 2 busy keep-alive, 3 idle keep-alive
    /// result codes: 0 complete, 1 connect refused, 2 closed/reset before any byte of a response,
    /// 3 response cut short, 4 timed out, 5 other connect error (`local` = errno), 6 connect reset, 7 no local address available;
    /// of the idle connection's second record: 10 closed by the server (EOF), 11 reset, 12 still open at the time limit
    struct Exchange {
        kind: u8,
        local: u16,
        port_ix: usize,
        t_start: u64,
        t_end: u64,
        result: u8,
        conn: u64,
        seq: u32,
        /// instance named in the answer, + 1 (0: none)
        who: u32,
        v6: bool,
    }
    static CONN_COUNTER: AtomicU64 = AtomicU64::new(0);

    fn connect(port: u16, v6: bool) -> Result<StdStream, (u16, u8)> {
        let ip = if v6 { IpAddr::V6(Ipv6Addr::LOCALHOST) } else { IpAddr::V4(Ipv4Addr::LOCALHOST) };
        StdStream::connect_timeout(&SocketAddr::new(ip, port), Duration::from_secs(10)).map_err(|e| {
            (
                e.raw_os_error().unwrap_or(0) as u16,
                match e.kind() {
                    std::io::ErrorKind::ConnectionRefused => 1,
                    std::io::ErrorKind::ConnectionReset => 6,
                    std::io::ErrorKind::AddrNotAvailable | std::io::ErrorKind::AddrInUse => 7,
                    _ => 5,
                },
            )
        })
    }
    /// one request and its answer on an open connection
    fn request(s: &mut StdStream, path: &str, timeout: Duration) -> (u8, u32) {
        let _ = s.set_read_timeout(Some(timeout));
        let _ = s.set_write_timeout(Some(timeout));
        let req = format!("GET {path} HTTP/1.1\r\nhost: localhost\r\n\r\n");
        if s.write_all(req.as_bytes()).is_err() {
            return (2, 0);
        }
        let mut buf = Vec::new();
        let mut tmp = [0u8; 2048];
        loop {
            // complete?
            if let Some(pos) = buf.windows(4).position(|w| w == b"\r\n\r\n") {
                let head = String::from_utf8_lossy(&buf[..pos]).to_ascii_lowercase();
                let len = head
                    .lines()
                    .find_map(|l| l.strip_prefix("content-length:").map(|v| v.trim().parse::<usize>().unwrap_or(0)))
                    .unwrap_or(0);
                if buf.len() >= pos + 4 + len {
                    let body = String::from_utf8_lossy(&buf[pos + 4..pos + 4 + len]).to_string();
                    let who = body.strip_prefix("served by ").and_then(|s| s.trim().parse::<u32>().ok()).map_or(0, |w| w + 1);
                    return (if head.starts_with("http/1.1 ") { 0 } else { 3 }, who);
                }
            }
            match s.read(&mut tmp) {
                Ok(0) => return (if buf.is_empty() { 2 } else { 3 }, 0),
                Ok(n) => buf.extend_from_slice(&tmp[..n]),
                Err(e) => {
                    return (
                        match e.kind() {
                            std::io::ErrorKind::WouldBlock | std::io::ErrorKind::TimedOut => 4,
                            _ => {
                                if buf.is_empty() {
                                    2
                                } else {
                                    3
                                }
                            }
                        },
                        0,
                    )
                }
            }
        }
    }
    /// one connection, one request
    fn exchange(ctx: &Ctx, kind: u8, port: u16, port_ix: usize, v6: bool, path: &str, timeout: Duration) -> Exchange {
        let conn = CONN_COUNTER.fetch_add(1, Ordering::Relaxed);
        let t_start = ctx.now();
        match connect(port, v6) {
            Err((errno, code)) => Exchange { kind, local: errno, port_ix, t_start, t_end: ctx.now(), result: code, conn, seq: 0, who: 0, v6 },
            Ok(mut s) => {
                let local = s.local_addr().map(|a| a.port()).unwrap_or(0);
                let (result, who) = request(&mut s, path, timeout);
                Exchange { kind, local, port_ix, t_start, t_end: ctx.now(), result, conn, seq: 0, who, v6 }
            }
        }
    }

    /// run-length encoded log of the prober: (start of the first probe, end of the first probe, end of the last probe, count, outcome,
    /// id, inode of the socket file)
    /// outcomes: 0 answered by instance `id`, 1 NotFound (no file, or nobody listens), 2 Error, 3 no answer within the time
    /// limit, 4 an answer that is not `ok <id>`
    type Probe = (u64, u64, u64, u32, u8, u32, u64);

    #[allow(clippy::too_many_lines)]
    pub fn run(p: &Params) -> X {
        // ports and path unique to this process and case
        let (ports, _port_lock) = match claim_ports(p.nports) {
            Some(x) => x,
            None => return X::L(vec![X::N(96), X::N(3)]),
        };
        let ctx = Arc::new(Ctx {
            m: Mutex::new(Inner { rng: p.seed | 1, ..Inner::default() }),
            cv: Condvar::new(),
            t0: Instant::now(),
            jitter_us: p.jitter_us,
            delays: p.delays.iter().map(|d| Delay { name: d.name.clone(), ms: d.ms, reps: d.reps, from: d.from }).collect(),
            ports: ports.clone(),
        });
        let path = std::env::temp_dir().join(format!("kvh-c11-{}-{}.sock", std::process::id(), ports[0]));
        let _ = std::fs::remove_file(&path);
        if p.stale {
            // what a crashed instance leaves behind: a socket file nobody listens on
            drop(std::os::unix::net::UnixListener::bind(&path));
        }
        let c2 = Arc::clone(&ctx);
        kvarn::verif::set_hook(Some(Arc::new(move |name, val| c2.arrive(name, val))));

        let exchanges: Arc<Mutex<Vec<Exchange>>> = Arc::new(Mutex::new(Vec::new()));
        let probes: Arc<Mutex<Vec<Probe>>> = Arc::new(Mutex::new(Vec::new()));
        let serving = Arc::new(AtomicU64::new(u64::MAX));
        let stop_clients = Arc::new(AtomicBool::new(false));
        let mut client_threads = Vec::new();

        // control-socket prober: who answers at the path?  every outcome is recorded
        {
            let (path, probes, serving, stop, ctx) =
                (path.clone(), Arc::clone(&probes), Arc::clone(&serving), Arc::clone(&stop_clients), Arc::clone(&ctx));
            client_threads.push(std::thread::spawn(move || {
                use std::os::unix::fs::MetadataExt;
                let rt = tokio::runtime::Builder::new_current_thread().enable_all().build().unwrap();
                while !stop.load(Ordering::SeqCst) {
                    let t = ctx.now();
                    let ino = std::fs::metadata(&path).map(|m| m.ino()).unwrap_or(0);
                    let r = rt.block_on(async {
                        tokio::time::timeout(Duration::from_secs(5), kvarn_signal::unix::send_to(b"whoami".to_vec(), &path)).await
                    });
                    let (outcome, id) = match r {
                        Ok(kvarn_signal::unix::Response::Data(d)) => {
                            match std::str::from_utf8(&d).ok().and_then(|s| s.strip_prefix("ok ")).and_then(|s| s.trim().parse::<u32>().ok()) {
                                Some(id) => (0u8, id),
                                None => (4, 0),
                            }
                        }
                        Ok(kvarn_signal::unix::Response::NotFound) => (1, 0),
                        Ok(kvarn_signal::unix::Response::Error) => (2, 0),
                        Err(_) => (3, 0),
                    };
                    {
                        let t_end = ctx.now();
                        let mut g = probes.lock().unwrap();
                        match g.last_mut() {
                            Some(l) if l.4 == outcome && l.5 == id && l.6 == ino => {
                                l.2 = t_end;
                                l.3 += 1;
                            }
                            _ => g.push((t, t_end, t_end, 1, outcome, id, ino)),
                        }
                    }
                    if outcome == 0 {
                        let prev = serving.load(Ordering::SeqCst);
                        if prev == u64::MAX || prev < u64::from(id) {
                            ctx.note("h.serves", i64::from(id));
                            serving.store(u64::from(id), Ordering::SeqCst);
                        }
                    }
                    std::thread::sleep(Duration::from_millis(2));
                }
            }));
        }

        let mut instances: Vec<Instance> = Vec::new();
        let mut timings: Vec<Vec<u64>> = Vec::new();
        let wait_until = |cond: &dyn Fn() -> bool, limit: Duration| -> bool {
            let deadline = Instant::now() + limit;
            while !cond() {
                if Instant::now() >= deadline {
                    return false;
                }
                std::thread::sleep(Duration::from_millis(1));
            }
            true
        };
        ctx.note("h.start", 0);
        instances.push(start_instance(&ctx, 0, p, &ports, &path));
        let up0 = instances[0].mgr.is_some() && wait_until(&|| serving.load(Ordering::SeqCst) == 0, Duration::from_secs(30));
        if !up0 || instances[0].mgr.is_none() {
            if std::env::var_os("KVH_C11_DEBUG").is_some() {
                let g = ctx.m.lock().unwrap();
                eprintln!("c11: instance 0 not up: up0={up0} mgr={} holder={:?} stalled={}", instances[0].mgr.is_some(), g.holder, g.stalled);
                for e in &g.log {
                    eprintln!("  {} inst {} tid {} {} {}", e.t_us, e.inst, e.tid, e.point, e.val);
                }
            }
            ctx.set_free();
            kvarn::verif::set_hook(None);
            // 5: execute() did not return on the first attempt (ports?); 6: it returned, but nobody answers at the path; 4: it did not return
            let code = if instances[0].mgr.is_none() && !p.last_attempt {
                5
            } else if instances[0].mgr.is_some() {
                6
            } else {
                4
            };
            for inst in &mut instances {
                if let Some(m) = &inst.mgr {
                    m.shutdown();
                }
                if let Some(s) = inst.stop.take() {
                    let _ = s.send(());
                }
            }
            stop_clients.store(true, Ordering::SeqCst);
            let _ = std::fs::remove_file(&path);
            // 94: the first instance does not come up (execute() does not return or nobody answers on the control socket)
            return X::L(vec![X::N(if code == 5 { 96 } else { 94 }), X::N(code)]);
        }

        // the managers, for the waiters (a waiter is a call of `wait()` from outside the instance's runtime: the future only
        // watches the manager's channel)
        let managers: Arc<Mutex<Vec<Arc<shutdown::Manager>>>> = Arc::new(Mutex::new(vec![Arc::clone(instances[0].mgr.as_ref().unwrap())]));
        /// (instance, kind 1 = called when told / 2 = called after the shutdown completed, time of the call, time it resolved or 0)
        type Waiter = (u32, u8, u64, Arc<AtomicU64>);
        let waiters: Arc<Mutex<Vec<Waiter>>> = Arc::new(Mutex::new(Vec::new()));
        {
            let (managers, waiters, stop, ctx) = (Arc::clone(&managers), Arc::clone(&waiters), Arc::clone(&stop_clients), Arc::clone(&ctx));
            client_threads.push(std::thread::spawn(move || {
                let rt = tokio::runtime::Builder::new_current_thread().enable_all().build().unwrap();
                rt.block_on(async move {
                    let mut made: std::collections::HashSet<(u32, u8)> = std::collections::HashSet::new();
                    while !stop.load(Ordering::SeqCst) {
                        let ms: Vec<Arc<shutdown::Manager>> = managers.lock().unwrap().clone();
                        for (i, m) in ms.iter().enumerate() {
                            let i = i as u32;
                            for kind in [1u8, 2u8] {
                                if made.contains(&(i, kind)) {
                                    continue;
                                }
                                let due = if kind == 1 { ctx.told(i).is_some() } else { ctx.fin(i).is_some_and(|t| ctx.now() >= t + 3_000) };
                                if !due {
                                    continue;
                                }
                                made.insert((i, kind));
                                let done = Arc::new(AtomicU64::new(0));
                                ctx.note("h.wnew", i64::from(i) * 4 + i64::from(kind));
                                waiters.lock().unwrap().push((i, kind, ctx.now(), Arc::clone(&done)));
                                let (m, ctx) = (Arc::clone(m), Arc::clone(&ctx));
                                tokio::spawn(async move {
                                    m.wait().await;
                                    ctx.note("h.wres", i64::from(i) * 4 + i64::from(kind));
                                    done.store(ctx.now().max(1), Ordering::SeqCst);
                                });
                            }
                        }
                        tokio::time::sleep(Duration::from_millis(1)).await;
                    }
                });
            }));
        }
        let waiters_done = |i: u32| -> bool {
            let g = waiters.lock().unwrap();
            [1u8, 2u8].iter().all(|k| g.iter().any(|w| w.0 == i && w.1 == *k && w.3.load(Ordering::SeqCst) != 0))
        };

        // back-to-back clients: one thread per port and family, one request per connection
        let families: &[bool] = if p.dual { &[false, true] } else { &[false] };
        for (ix, port) in ports.iter().enumerate() {
            for v6 in families {
                let (ex, stop, ctx, port, v6) = (Arc::clone(&exchanges), Arc::clone(&stop_clients), Arc::clone(&ctx), *port, *v6);
                client_threads.push(std::thread::spawn(move || {
                    while !stop.load(Ordering::SeqCst) {
                        let e = exchange(&ctx, 0, port, ix, v6, "/", Duration::from_secs(15));
                        ex.lock().unwrap().push(e);
                        std::thread::sleep(Duration::from_micros(700));
                    }
                }));
            }
        }
        // busy keep-alive clients: one per port; a request every few ms on the same connection for as long as the server
        // keeps it, then a new connection
        if p.ka & 1 != 0 {
            for (ix, port) in ports.iter().enumerate() {
                let (ex, stop, ctx, port) = (Arc::clone(&exchanges), Arc::clone(&stop_clients), Arc::clone(&ctx), *port);
                let v6 = p.dual && ix % 2 == 1;
                let mut pace = p.seed.wrapping_mul(0x9E37_79B9_7F4A_7C15).wrapping_add(ix as u64) | 1;
                client_threads.push(std::thread::spawn(move || {
                    while !stop.load(Ordering::SeqCst) {
                        let conn = CONN_COUNTER.fetch_add(1, Ordering::Relaxed);
                        let t_start = ctx.now();
                        let mut s = match connect(port, v6) {
                            Ok(s) => s,
                            Err((errno, code)) => {
                                ex.lock().unwrap().push(Exchange { kind: 2, local: errno, port_ix: ix, t_start, t_end: ctx.now(), result: code, conn, seq: 0, who: 0, v6 });
                                std::thread::sleep(Duration::from_millis(1));
                                continue;
                            }
                        };
                        let local = s.local_addr().map(|a| a.port()).unwrap_or(0);
                        let mut seq = 0u32;
                        while !stop.load(Ordering::SeqCst) {
                            let t_start = ctx.now();
                            let (result, who) = request(&mut s, "/ka", Duration::from_secs(15));
                            ex.lock().unwrap().push(Exchange { kind: 2, local, port_ix: ix, t_start, t_end: ctx.now(), result, conn, seq, who, v6 });
                            if result != 0 {
                                break;
                            }
                            seq += 1;
                            pace ^= pace << 13;
                            pace ^= pace >> 7;
                            pace ^= pace << 17;
                            std::thread::sleep(Duration::from_micros(2_000 + pace % 6_000));
                        }
                    }
                }));
            }
        }

        let mut slow_threads = Vec::new();
        let mut started = 0usize;
        for h in 1..=p.handovers {
            if !p.eager || h == 1 {
                std::thread::sleep(Duration::from_millis(p.gap_ms));
            }
            // slow requests that will span the switch
            for k in 0..p.nslow {
                let (ex, ctx) = (Arc::clone(&exchanges), Arc::clone(&ctx));
                let ix = k % ports.len();
                let port = ports[ix];
                let v6 = p.dual && k % 2 == 1;
                let limit = Duration::from_millis(p.slow_ms + 15_000);
                slow_threads.push(std::thread::spawn(move || {
                    let e = exchange(&ctx, 1, port, ix, v6, "/slow", limit);
                    ex.lock().unwrap().push(e);
                }));
            }
            // an idle keep-alive connection: one request, then silence until the server closes it
            if p.ka & 2 != 0 {
                let (ex, ctx) = (Arc::clone(&exchanges), Arc::clone(&ctx));
                let port = ports[0];
                let limit = Duration::from_millis(p.slow_ms + 20_000);
                slow_threads.push(std::thread::spawn(move || {
                    let conn = CONN_COUNTER.fetch_add(1, Ordering::Relaxed);
                    let t_start = ctx.now();
                    let mut s = match connect(port, false) {
                        Ok(s) => s,
                        Err((errno, code)) => {
                            ex.lock().unwrap().push(Exchange { kind: 3, local: errno, port_ix: 0, t_start, t_end: ctx.now(), result: code, conn, seq: 0, who: 0, v6: false });
                            return;
                        }
                    };
                    let local = s.local_addr().map(|a| a.port()).unwrap_or(0);
                    let (result, who) = request(&mut s, "/", Duration::from_secs(15));
                    let t_mid = ctx.now();
                    ex.lock().unwrap().push(Exchange { kind: 3, local, port_ix: 0, t_start, t_end: t_mid, result, conn, seq: 0, who, v6: false });
                    if result != 0 {
                        return;
                    }
                    let _ = s.set_read_timeout(Some(limit));
                    let mut tmp = [0u8; 64];
                    let result = match s.read(&mut tmp) {
                        Ok(0) => 10,
                        Ok(_) => 3,
                        Err(e) => match e.kind() {
                            std::io::ErrorKind::WouldBlock | std::io::ErrorKind::TimedOut => 12,
                            _ => 11,
                        },
                    };
                    ex.lock().unwrap().push(Exchange { kind: 3, local, port_ix: 0, t_start: t_mid, t_end: ctx.now(), result, conn, seq: 1, who, v6: false });
                }));
            }
            if p.nslow > 0 || p.ka & 2 != 0 {
                std::thread::sleep(Duration::from_millis(15));
            }
            let t_start = ctx.now();
            ctx.note("h.start", h as i64);
            let inst = start_instance(&ctx, h as u32, p, &ports, &path);
            let t_exec = ctx.now();
            let executed = inst.mgr.is_some();
            if let Some(m) = &inst.mgr {
                managers.lock().unwrap().push(Arc::clone(m));
            }
            instances.push(inst);
            started = h;
            timings.push(vec![t_start, u64::from(executed), t_exec]);
            if !executed {
                break;
            }
            if !p.eager {
                let pred = &instances[h - 1];
                // the predecessor's wait() resolves within a bound (slow handlers, the idle timeout of a kept-alive connection, margin)
                let waited = wait_until(&|| pred.waited.load(Ordering::SeqCst), Duration::from_millis(p.slow_ms + 15_000));
                let t_wait = ctx.now();
                if waited {
                    wait_until(&|| waiters_done(h as u32 - 1), Duration::from_secs(5));
                }
                let served = wait_until(&|| serving.load(Ordering::SeqCst) == h as u64, Duration::from_secs(15));
                timings[h - 1].extend([u64::from(waited), t_wait, u64::from(served)]);
            }
        }
        if p.eager {
            // every instance was started as soon as its predecessor's execute() had returned; now let things settle
            let deadline = Instant::now() + Duration::from_millis(p.slow_ms + 15_000);
            for h in 1..=started {
                if timings[h - 1][1] == 0 {
                    continue;
                }
                let pred = &instances[h - 1];
                let waited = wait_until(&|| pred.waited.load(Ordering::SeqCst), deadline.saturating_duration_since(Instant::now()));
                let t_wait = ctx.now();
                if waited {
                    wait_until(&|| waiters_done(h as u32 - 1), Duration::from_secs(5));
                }
                let served = h < started || wait_until(&|| serving.load(Ordering::SeqCst) == h as u64, Duration::from_secs(if waited { 15 } else { 2 }));
                timings[h - 1].extend([u64::from(waited), t_wait, u64::from(served)]);
            }
        }
        std::thread::sleep(Duration::from_millis(p.gap_ms));
        stop_clients.store(true, Ordering::SeqCst);
        for t in client_threads {
            let _ = t.join();
        }
        for t in slow_threads {
            let _ = t.join();
        }
        // the log ends here; tear down
        ctx.set_free();
        let (log, stalled) = {
            let mut g = ctx.m.lock().unwrap();
            (std::mem::take(&mut g.log), g.stalled)
        };
        // bind() of a successor failed (the port is taken by a foreign socket): not a run
        let foreign = (0..instances.len() as u32).any(|i| {
            let binds = log.iter().filter(|e| e.inst == i && e.point == "ex.bind").count();
            let bounds = log.iter().filter(|e| e.inst == i && e.point == "ex.bound").count();
            binds != bounds && !instances[i as usize].executed.load(Ordering::SeqCst)
        });
        let executed_flags: Vec<X> = instances.iter().map(|i| X::bool(i.executed.load(Ordering::SeqCst))).collect();
        let waited_flags: Vec<X> = instances.iter().map(|i| X::bool(i.waited.load(Ordering::SeqCst))).collect();
        for inst in &instances {
            if let Some(m) = &inst.mgr {
                if !m.get_shutdown(std::sync::atomic::Ordering::SeqCst) {
                    m.shutdown();
                }
            }
        }
        std::thread::sleep(Duration::from_millis(30));
        for inst in &mut instances {
            if let Some(s) = inst.stop.take() {
                let _ = s.send(());
            }
        }
        for inst in &mut instances {
            if let Some(t) = inst.thread.take() {
                let _ = t.join();
            }
        }
        kvarn::verif::set_hook(None);
        let _ = std::fs::remove_file(&path);
        // after everything is down the ports refuse (sanity of the client's "refused" detection)
        let refuses_after = ports.iter().all(|p| port_is_free(*p));
        if foreign && !p.last_attempt {
            return X::L(vec![X::N(96), X::N(5)]);
        }

        let n = |v: u64| X::N(u128::from(v));
        let ev = log
            .iter()
            .map(|e| X::L(vec![n(u64::from(e.inst)), n(e.tid), X::b(e.point.as_bytes()), X::N((i128::from(e.val) + (1i128 << 40)) as u128), n(e.t_us)]))
            .collect();
        let exs = exchanges
            .lock()
            .unwrap()
            .iter()
            .map(|e| {
                X::L(vec![
                    n(u64::from(e.kind)),
                    n(u64::from(e.local)),
                    n(e.port_ix as u64),
                    n(e.t_start),
                    n(e.t_end),
                    n(u64::from(e.result)),
                    n(e.conn),
                    n(u64::from(e.seq)),
                    n(u64::from(e.who)),
                    X::bool(e.v6),
                ])
            })
            .collect();
        let pr = probes
            .lock()
            .unwrap()
            .iter()
            .map(|q| X::L(vec![n(q.0), n(q.1), n(q.2), n(u64::from(q.3)), n(u64::from(q.4)), n(u64::from(q.5)), n(q.6)]))
            .collect();
        let ws = waiters
            .lock()
            .unwrap()
            .iter()
            .map(|w| X::L(vec![n(u64::from(w.0)), n(u64::from(w.1)), n(w.2), n(w.3.load(Ordering::SeqCst))]))
            .collect();
        X::L(vec![
            n(u64::from(stalled)),
            X::L(ports.iter().map(|p| n(u64::from(*p))).collect()),
            X::L(ev),
            X::L(exs),
            X::L(pr),
            X::L(timings.iter().map(|t| X::L(t.iter().map(|v| n(*v)).collect())).collect()),
            X::L(executed_flags),
            X::L(waited_flags),
            X::bool(refuses_after),
            X::L(ws),
        ])
    }
}

/// input: (L ports handovers runtime seed jitter-us (L (L (B hook) ms reps from-instance) ...) slow-ms nslow gap-ms eager
///           keep-alive-bits both-families stale-file block-ms)
#[cfg(feature = "hooks")]
pub fn run(x: &X) -> X {
    let l = match x.as_l() {
        Some(l) if l.len() == 14 => l,
        _ => return X::bad(),
    };
    let mut n = [0u128; 14];
    for (k, v) in l.iter().enumerate() {
        if k == 5 {
            continue;
        }
        match v.as_n() {
            Some(v) => n[k] = v,
            None => return X::bad(),
        }
    }
    let mut delays = Vec::new();
    match l[5].as_l() {
        Some(ds) if ds.len() <= 8 => {
            for d in ds {
                match d.as_l() {
                    Some([name, ms, reps, from]) => match (name.as_b().and_then(|b| std::str::from_utf8(b).ok()), ms.as_n(), reps.as_n(), from.as_n()) {
                        (Some(name), Some(ms), Some(reps), Some(from)) if ms <= 2000 && reps <= 64 && from <= 9 && name.len() <= 16 => {
                            delays.push((name.to_owned(), ms as u64, reps as u32, from as u32));
                        }
                        _ => return X::bad(),
                    },
                    _ => return X::bad(),
                }
            }
        }
        _ => return X::bad(),
    }
    if n[0] == 0 || n[0] > 4 || n[1] == 0 || n[1] > 6 || n[2] > 1 || n[4] > 100_000 || n[6] > 5000 || n[7] > 8 || n[8] > 1000 || n[9] > 1 || n[10] > 3
        || n[11] > 1 || n[12] > 1 || n[13] > 2000
    {
        return X::bad();
    }
    let mut out = X::bad();
    for attempt in 0..2 {
        out = run::run(&run::Params {
            last_attempt: attempt == 1,
            nports: n[0] as usize,
            handovers: n[1] as usize,
            flavour: n[2] as u8,
            seed: n[3] as u64,
            jitter_us: n[4] as u64,
            delays: delays.iter().map(|d| run::Delay { name: d.0.clone(), ms: d.1, reps: d.2, from: d.3 }).collect(),
            slow_ms: n[6] as u64,
            nslow: n[7] as usize,
            gap_ms: n[8] as u64,
            eager: n[9] == 1,
            ka: n[10] as u8,
            dual: n[11] == 1,
            stale: n[12] == 1,
            block_ms: n[13] as u64,
        });
        if !matches!(out.as_l(), Some([X::N(96), X::N(5)])) {
            break;
        }
    }
    out
}
#[cfg(not(feature = "hooks"))]
pub fn run(_x: &X) -> X {
    X::L(vec![X::N(96), X::N(2)])
}

pub fn dispatch(comp: &str, x: &X) -> Option<X> {
    Some(match comp {
        "handover.run" => run(x),
        _ => return None,
    })
}
