//! C11: handover.
//! `handover.run` – a chain of real kvarn servers (`RunConfig::execute`, same loopback ports, same
//! control-socket path, one tokio runtime per instance) in this process, the way
//! `tests/shutdown.rs::handover` does it, with the hook points of the cargo feature `verif-hooks`
//! (harness feature `hooks`) serialised by a baton: between two hook points that enclose an access
//! to shared state exactly one thread runs, so the order of the log IS the order of the accesses.
//! Loopback clients (not instrumented) keep requesting, also with slow handlers that span the switch.
//! The output is raw: the event log, the clients' ledger, who answered on the control socket, timings.
//! The mapping of the log to labels of Model/Handover.v and every check is done by driver/props/c11.py.
use crate::xval::X;

#[cfg(feature = "hooks")]
mod run {
    use crate::xval::X;
    use kvarn::prelude::*;
    use std::cell::Cell;
    use std::collections::HashMap;
    use std::io::{Read, Write};
    use std::net::{IpAddr, Ipv4Addr, SocketAddr, TcpStream as StdStream};
    use std::sync::atomic::{AtomicBool, AtomicU32, AtomicU64, Ordering};
    use std::sync::{Arc, Condvar, Mutex};
    use std::thread::ThreadId;
    use std::time::{Duration, Instant};

    thread_local! { static INST: Cell<u32> = const { Cell::new(99) }; }

    const WATCHDOG: Duration = Duration::from_secs(10);

    struct Ev {
        inst: u32,
        tid: u64,
        point: &'static str,
        val: i64,
        t_us: u64,
    }
    #[derive(Default)]
    struct Inner {
        holder: Option<ThreadId>,
        log: Vec<Ev>,
        free: bool,
        stalled: u32,
        tids: HashMap<u64, u64>,
        rng: u64,
    }
    pub struct Ctx {
        m: Mutex<Inner>,
        cv: Condvar,
        t0: Instant,
        jitter_us: u64,
        d_bind: u64,
        d_send: u64,
        d_close: u64,
        /// delays apply to instances >= this one (the first instance starts undisturbed)
        delay_from: u32,
    }

    fn hash_id<T: std::hash::Hash>(t: &T) -> u64 {
        use std::hash::Hasher;
        let mut h = std::collections::hash_map::DefaultHasher::new();
        t.hash(&mut h);
        h.finish()
    }
    /// the segment that follows this point contains an access to shared state and ends at another point
    /// before the thread can yield
    fn closed(name: &str) -> bool {
        matches!(
            name,
            "ex.bind" | "sh.enter" | "sh.set" | "sh.init" | "sh.swap" | "sh.notify" | "ap.poll" | "ap.flag" | "ap.waker"
                | "al.got" | "al.counted" | "al.shut" | "al.exit" | "rm.enter" | "rm.dec" | "rm.flag" | "ct.start" | "ct.sent"
        )
    }

    impl Ctx {
        fn now(&self) -> u64 {
            self.t0.elapsed().as_micros() as u64
        }
        fn tid(g: &mut Inner) -> u64 {
            let raw = match tokio::task::try_id() {
                Some(id) => hash_id(&id) | 1,
                None => hash_id(&std::thread::current().id()) & !1,
            };
            let n = g.tids.len() as u64;
            *g.tids.entry(raw).or_insert(n)
        }
        /// a pseudo event of the harness itself
        pub fn note(&self, point: &'static str, val: i64) {
            let mut g = self.m.lock().unwrap();
            if g.free {
                return;
            }
            let tid = Self::tid(&mut g);
            let t_us = self.now();
            g.log.push(Ev { inst: INST.with(Cell::get), tid, point, val, t_us });
        }
        fn arrive(&self, name: &'static str, val: i64) {
            let me = std::thread::current().id();
            let inst = INST.with(Cell::get);
            let mut g = self.m.lock().unwrap();
            if g.free {
                return;
            }
            let tid = Self::tid(&mut g);
            let held = g.holder == Some(me);
            if held {
                // the segment since the previous point ends here
                let t_us = self.now();
                g.log.push(Ev { inst, tid, point: name, val, t_us });
                g.holder = None;
                self.cv.notify_all();
            }
            // xorshift jitter + directed delays, never while holding the baton
            g.rng ^= g.rng << 13;
            g.rng ^= g.rng >> 7;
            g.rng ^= g.rng << 17;
            let mut d = if self.jitter_us > 0 { g.rng % self.jitter_us } else { 0 };
            if inst >= self.delay_from && inst != 99 {
                d += 1000
                    * match name {
                        "ex.bind" => self.d_bind,
                        "ctl.send" => self.d_send,
                        _ => 0,
                    };
            }
            if inst != 99 && name == "al.shut" {
                d += 1000 * self.d_close;
            }
            drop(g);
            if d > 0 {
                std::thread::sleep(Duration::from_micros(d));
            }
            let mut g = self.m.lock().unwrap();
            if g.free {
                return;
            }
            if closed(name) {
                let deadline = Instant::now() + WATCHDOG;
                while g.holder.is_some() && !g.free {
                    let now = Instant::now();
                    if now >= deadline {
                        g.stalled += 1;
                        break;
                    }
                    let (g2, _) = self.cv.wait_timeout(g, deadline - now).unwrap();
                    g = g2;
                }
                if g.free {
                    return;
                }
                if !held {
                    let t_us = self.now();
                    g.log.push(Ev { inst, tid, point: name, val, t_us });
                }
                g.holder = Some(me);
            } else if !held {
                let t_us = self.now();
                g.log.push(Ev { inst, tid, point: name, val, t_us });
            }
        }
        fn set_free(&self) {
            let mut g = self.m.lock().unwrap();
            g.free = true;
            g.holder = None;
            self.cv.notify_all();
        }
    }

    static PORT_COUNTER: AtomicU32 = AtomicU32::new(0);
    fn next_port() -> u16 {
        let n = PORT_COUNTER.fetch_add(1, Ordering::Relaxed);
        // below the ephemeral range (32768..): an outgoing connection of any process on the machine that happens to use
        // the port as its local port makes bind() fail
        (27_100 + (std::process::id() % 56) * 100 + n % 100) as u16
    }
    fn port_is_free(port: u16) -> bool {
        match StdStream::connect_timeout(&SocketAddr::new(IpAddr::V4(Ipv4Addr::LOCALHOST), port), Duration::from_secs(2)) {
            Err(e) => e.kind() == std::io::ErrorKind::ConnectionRefused,
            Ok(_) => false,
        }
    }

    pub struct Params {
        pub nports: usize,
        pub handovers: usize,
        pub flavour: u8, // 0 current-thread, 1 multi-thread (2 workers)
        pub seed: u64,
        pub jitter_us: u64,
        pub d_bind: u64,
        pub d_send: u64,
        pub d_close: u64,
        pub slow_ms: u64,
        pub nslow: usize,
        pub gap_ms: u64,
        /// 0: successors are started when the predecessor answers on the control socket; 1: as soon as `execute` returned
        pub eager: bool,
        /// a failed bind() of a successor is reported as it is (after two attempts on other ports it is not a collision)
        pub last_attempt: bool,
    }

    struct Instance {
        stop: Option<tokio::sync::oneshot::Sender<()>>,
        thread: Option<std::thread::JoinHandle<()>>,
        mgr: Option<Arc<shutdown::Manager>>,
        executed: Arc<AtomicBool>,
        waited: Arc<AtomicBool>,
    }

    fn start_instance(ctx: &Arc<Ctx>, i: u32, p: &Params, ports: &[u16], path: &std::path::Path) -> Instance {
        let (tx_mgr, rx_mgr) = std::sync::mpsc::channel::<Arc<shutdown::Manager>>();
        let (tx_stop, rx_stop) = tokio::sync::oneshot::channel::<()>();
        let executed = Arc::new(AtomicBool::new(false));
        let waited = Arc::new(AtomicBool::new(false));
        let (e2, w2) = (Arc::clone(&executed), Arc::clone(&waited));
        let ctx2 = Arc::clone(ctx);
        let ports: Vec<u16> = ports.to_vec();
        let path = path.to_path_buf();
        let flavour = p.flavour;
        let slow_ms = p.slow_ms;
        let thread = std::thread::spawn(move || {
            INST.with(|c| c.set(i));
            let rt = if flavour == 0 {
                tokio::runtime::Builder::new_current_thread().enable_all().build().unwrap()
            } else {
                tokio::runtime::Builder::new_multi_thread()
                    .worker_threads(2)
                    .on_thread_start(move || INST.with(|c| c.set(i)))
                    .enable_all()
                    .build()
                    .unwrap()
            };
            let main = async move {
                let mut ext = Extensions::empty();
                ext.add_prepare_fn(
                    Box::new(|_, _| true),
                    prepare!(req, _host, _path, _addr, move |slow_ms: u64| {
                        if req.uri().path() == "/slow" {
                            tokio::time::sleep(Duration::from_millis(*slow_ms)).await;
                        }
                        FatResponse::no_cache(Response::new(Bytes::from_static(b"served")))
                    }),
                    extensions::Id::new(0, "c11 handler"),
                );
                let mut host = Host::unsecure("localhost", "/nonexistent/kvh-c11", ext, host::Options::default());
                host.disable_fs_cache().disable_response_cache();
                host.limiter.disable();
                let data = HostCollection::builder().insert(host).build();
                let mut rc = RunConfig::new();
                for port in &ports {
                    rc = rc.bind(PortDescriptor::unsecure(*port, Arc::clone(&data)).ipv4_only());
                }
                let who: kvarn::ctl::Plugin = Box::new(move |_args, _ports, _sd, _plugins| {
                    Box::pin(async move { kvarn::ctl::PluginResponse::ok(format!("{i}")) })
                });
                let mgr = rc.set_ctl_path(&path).add_plugin("whoami", who).execute().await;
                ctx2.note("h.executed", i64::from(i));
                e2.store(true, Ordering::SeqCst);
                let _ = tx_mgr.send(Arc::clone(&mgr));
                mgr.wait().await;
                ctx2.note("h.waited", i64::from(i));
                w2.store(true, Ordering::SeqCst);
            };
            rt.block_on(async move {
                let h = tokio::spawn(main);
                let _ = rx_stop.await;
                h.abort();
            });
            rt.shutdown_timeout(Duration::from_millis(500));
        });
        // `execute` of a successor returns only after the predecessor has replied
        let mgr = rx_mgr.recv_timeout(Duration::from_secs(20)).ok();
        Instance { stop: Some(tx_stop), thread: Some(thread), mgr, executed, waited }
    }

    // ---- clients ---------------------------------------------------------------------------------
    /// result codes: 0 complete, 1 connect refused, 2 closed/reset before any byte of a response,
    /// 3 response cut short, 4 timed out, 5 other connect error (`local` = errno), 6 connect reset, 7 no local address available
    struct Exchange {
        slow: bool,
        local: u16,
        port_ix: usize,
        t_start: u64,
        t_end: u64,
        result: u8,
    }
    fn exchange(port: u16, slow: bool, timeout: Duration) -> (u16, u8) {
        let addr = SocketAddr::new(IpAddr::V4(Ipv4Addr::LOCALHOST), port);
        let mut s = match StdStream::connect_timeout(&addr, Duration::from_secs(5)) {
            Ok(s) => s,
            Err(e) => {
                return (
                    e.raw_os_error().unwrap_or(0) as u16,
                    match e.kind() {
                        std::io::ErrorKind::ConnectionRefused => 1,
                        std::io::ErrorKind::ConnectionReset => 6,
                        std::io::ErrorKind::AddrNotAvailable | std::io::ErrorKind::AddrInUse => 7,
                        _ => 5,
                    },
                )
            }
        };
        let local = s.local_addr().map(|a| a.port()).unwrap_or(0);
        let _ = s.set_read_timeout(Some(timeout));
        let _ = s.set_write_timeout(Some(timeout));
        let req = format!("GET {} HTTP/1.1\r\nhost: localhost\r\n\r\n", if slow { "/slow" } else { "/" });
        if s.write_all(req.as_bytes()).is_err() {
            return (local, 2);
        }
        let mut buf = Vec::new();
        let mut tmp = [0u8; 2048];
        loop {
            // complete?
            if let Some(pos) = buf.windows(4).position(|w| w == b"\r\n\r\n") {
                let head = String::from_utf8_lossy(&buf[..pos]).to_ascii_lowercase();
                let len = head
                    .lines()
                    .find_map(|l| l.strip_prefix("content-length:").map(|v| v.trim().parse::<usize>().unwrap_or(0)))
                    .unwrap_or(0);
                if buf.len() >= pos + 4 + len {
                    return (local, if head.starts_with("http/1.1 ") { 0 } else { 3 });
                }
            }
            match s.read(&mut tmp) {
                Ok(0) => return (local, if buf.is_empty() { 2 } else { 3 }),
                Ok(n) => buf.extend_from_slice(&tmp[..n]),
                Err(e) => {
                    return (
                        local,
                        match e.kind() {
                            std::io::ErrorKind::WouldBlock | std::io::ErrorKind::TimedOut => 4,
                            _ => {
                                if buf.is_empty() {
                                    2
                                } else {
                                    3
                                }
                            }
                        },
                    )
                }
            }
        }
    }

    pub fn run(p: &Params) -> X {
        let ctx = Arc::new(Ctx {
            m: Mutex::new(Inner { rng: p.seed | 1, ..Inner::default() }),
            cv: Condvar::new(),
            t0: Instant::now(),
            jitter_us: p.jitter_us,
            d_bind: p.d_bind,
            d_send: p.d_send,
            d_close: p.d_close,
            delay_from: 1,
        });
        // ports and path unique to this process and case
        let mut ports = Vec::new();
        for _ in 0..p.nports {
            let mut port = next_port();
            let mut tries = 0;
            while !port_is_free(port) || ports.contains(&port) {
                port = next_port();
                tries += 1;
                if tries > 90 {
                    return X::L(vec![X::N(96), X::N(3)]);
                }
            }
            ports.push(port);
        }
        let path = std::env::temp_dir().join(format!("kvh-c11-{}-{}.sock", std::process::id(), ports[0]));
        let _ = std::fs::remove_file(&path);
        let c2 = Arc::clone(&ctx);
        kvarn::verif::set_hook(Some(Arc::new(move |name, val| c2.arrive(name, val))));

        let exchanges: Arc<Mutex<Vec<Exchange>>> = Arc::new(Mutex::new(Vec::new()));
        let who_seq: Arc<Mutex<Vec<(u64, u32)>>> = Arc::new(Mutex::new(Vec::new()));
        let serving = Arc::new(AtomicU64::new(u64::MAX));
        let stop_clients = Arc::new(AtomicBool::new(false));
        let mut client_threads = Vec::new();

        // control-socket prober: who answers at the path?
        {
            let (path, who_seq, serving, stop, ctx) =
                (path.clone(), Arc::clone(&who_seq), Arc::clone(&serving), Arc::clone(&stop_clients), Arc::clone(&ctx));
            client_threads.push(std::thread::spawn(move || {
                let rt = tokio::runtime::Builder::new_current_thread().enable_all().build().unwrap();
                while !stop.load(Ordering::SeqCst) {
                    let r = rt.block_on(async {
                        tokio::time::timeout(Duration::from_secs(2), kvarn_signal::unix::send_to(b"whoami".to_vec(), &path)).await
                    });
                    if let Ok(kvarn_signal::unix::Response::Data(d)) = r {
                        if let Some(id) = std::str::from_utf8(&d).ok().and_then(|s| s.strip_prefix("ok ")).and_then(|s| s.trim().parse::<u32>().ok()) {
                            let mut g = who_seq.lock().unwrap();
                            if g.last().map(|l| l.1) != Some(id) {
                                g.push((ctx.now(), id));
                            }
                            drop(g);
                            let prev = serving.load(Ordering::SeqCst);
                            if prev == u64::MAX || prev < u64::from(id) {
                                ctx.note("h.serves", i64::from(id));
                                serving.store(u64::from(id), Ordering::SeqCst);
                            }
                        }
                    }
                    std::thread::sleep(Duration::from_millis(2));
                }
            }));
        }

        let mut instances: Vec<Instance> = Vec::new();
        let mut timings: Vec<X> = Vec::new();
        let wait_until = |cond: &dyn Fn() -> bool, limit: Duration| -> bool {
            let deadline = Instant::now() + limit;
            while !cond() {
                if Instant::now() >= deadline {
                    return false;
                }
                std::thread::sleep(Duration::from_millis(1));
            }
            true
        };
        ctx.note("h.start", 0);
        instances.push(start_instance(&ctx, 0, p, &ports, &path));
        let up0 = instances[0].mgr.is_some() && wait_until(&|| serving.load(Ordering::SeqCst) == 0, Duration::from_secs(20));
        if !up0 || instances[0].mgr.is_none() {
            if std::env::var_os("KVH_C11_DEBUG").is_some() {
                let g = ctx.m.lock().unwrap();
                eprintln!("c11: instance 0 not up: up0={up0} mgr={} holder={:?} stalled={}", instances[0].mgr.is_some(), g.holder, g.stalled);
                for e in &g.log {
                    eprintln!("  {} inst {} tid {} {} {}", e.t_us, e.inst, e.tid, e.point, e.val);
                }
            }
            ctx.set_free();
            kvarn::verif::set_hook(None);
            let code = if instances[0].mgr.is_none() && !p.last_attempt { 5 } else { 4 };
            for inst in &mut instances {
                if let Some(m) = &inst.mgr {
                    m.shutdown();
                }
                if let Some(s) = inst.stop.take() {
                    let _ = s.send(());
                }
            }
            stop_clients.store(true, Ordering::SeqCst);
            let _ = std::fs::remove_file(&path);
            // 94: the first instance does not come up (execute() does not return or nobody answers on the control socket)
            return X::L(vec![X::N(if code == 5 { 96 } else { 94 }), X::N(code)]);
        }
        // fast clients: one thread per port, back to back
        for (ix, port) in ports.iter().enumerate() {
            let (ex, stop, ctx, port) = (Arc::clone(&exchanges), Arc::clone(&stop_clients), Arc::clone(&ctx), *port);
            client_threads.push(std::thread::spawn(move || {
                while !stop.load(Ordering::SeqCst) {
                    let t_start = ctx.now();
                    let (local, result) = exchange(port, false, Duration::from_secs(8));
                    ex.lock().unwrap().push(Exchange { slow: false, local, port_ix: ix, t_start, t_end: ctx.now(), result });
                    std::thread::sleep(Duration::from_micros(700));
                }
            }));
        }
        let mut slow_threads = Vec::new();
        for h in 1..=p.handovers {
            std::thread::sleep(Duration::from_millis(p.gap_ms));
            // slow requests that will span the switch
            for k in 0..p.nslow {
                let (ex, ctx) = (Arc::clone(&exchanges), Arc::clone(&ctx));
                let ix = k % ports.len();
                let port = ports[ix];
                let limit = Duration::from_millis(p.slow_ms + 8000);
                slow_threads.push(std::thread::spawn(move || {
                    let t_start = ctx.now();
                    let (local, result) = exchange(port, true, limit);
                    ex.lock().unwrap().push(Exchange { slow: true, local, port_ix: ix, t_start, t_end: ctx.now(), result });
                }));
            }
            if p.nslow > 0 {
                std::thread::sleep(Duration::from_millis(15));
            }
            let t_start = ctx.now();
            ctx.note("h.start", h as i64);
            let inst = start_instance(&ctx, h as u32, p, &ports, &path);
            let t_exec = ctx.now();
            let executed = inst.mgr.is_some();
            instances.push(inst);
            // the predecessor's wait() resolves within a bound (slow handlers + margin)
            let pred = &instances[h - 1];
            let waited = wait_until(&|| pred.waited.load(Ordering::SeqCst), Duration::from_millis(if executed { p.slow_ms + 10_000 } else { 500 }));
            let t_wait = ctx.now();
            let served = if p.eager && h < p.handovers {
                true
            } else {
                wait_until(&|| serving.load(Ordering::SeqCst) == h as u64, Duration::from_secs(if executed { 10 } else { 1 }))
            };
            timings.push(X::L(vec![
                X::N(u128::from(t_start)),
                X::bool(executed),
                X::N(u128::from(t_exec)),
                X::bool(waited),
                X::N(u128::from(t_wait)),
                X::bool(served),
            ]));
            if !executed {
                break;
            }
        }
        std::thread::sleep(Duration::from_millis(p.gap_ms));
        stop_clients.store(true, Ordering::SeqCst);
        for t in client_threads {
            let _ = t.join();
        }
        for t in slow_threads {
            let _ = t.join();
        }
        // the log ends here; tear down
        ctx.set_free();
        let (log, stalled) = {
            let mut g = ctx.m.lock().unwrap();
            (std::mem::take(&mut g.log), g.stalled)
        };
        // bind() of a successor failed (the port is taken by a foreign socket): not a run
        let foreign = (0..instances.len() as u32).any(|i| {
            let binds = log.iter().filter(|e| e.inst == i && e.point == "ex.bind").count();
            let bounds = log.iter().filter(|e| e.inst == i && e.point == "ex.bound").count();
            binds != bounds && !instances[i as usize].executed.load(Ordering::SeqCst)
        });
        let executed_flags: Vec<X> = instances.iter().map(|i| X::bool(i.executed.load(Ordering::SeqCst))).collect();
        let waited_flags: Vec<X> = instances.iter().map(|i| X::bool(i.waited.load(Ordering::SeqCst))).collect();
        for inst in &instances {
            if let Some(m) = &inst.mgr {
                if !m.get_shutdown(std::sync::atomic::Ordering::SeqCst) {
                    m.shutdown();
                }
            }
        }
        std::thread::sleep(Duration::from_millis(30));
        for inst in &mut instances {
            if let Some(s) = inst.stop.take() {
                let _ = s.send(());
            }
        }
        for inst in &mut instances {
            if let Some(t) = inst.thread.take() {
                let _ = t.join();
            }
        }
        kvarn::verif::set_hook(None);
        let _ = std::fs::remove_file(&path);
        // after everything is down the ports refuse (sanity of the client's "refused" detection)
        let refuses_after = ports.iter().all(|p| port_is_free(*p));
        if foreign && !p.last_attempt {
            return X::L(vec![X::N(96), X::N(5)]);
        }

        let ev = log
            .iter()
            .map(|e| {
                X::L(vec![
                    X::N(u128::from(e.inst)),
                    X::N(u128::from(e.tid)),
                    X::b(e.point.as_bytes()),
                    X::N((i128::from(e.val) + (1i128 << 40)) as u128),
                    X::N(u128::from(e.t_us)),
                ])
            })
            .collect();
        let exs = exchanges
            .lock()
            .unwrap()
            .iter()
            .map(|e| {
                X::L(vec![
                    X::bool(e.slow),
                    X::N(u128::from(e.local)),
                    X::N(e.port_ix as u128),
                    X::N(u128::from(e.t_start)),
                    X::N(u128::from(e.t_end)),
                    X::N(u128::from(e.result)),
                ])
            })
            .collect();
        let who = who_seq.lock().unwrap().iter().map(|(t, id)| X::L(vec![X::N(u128::from(*t)), X::N(u128::from(*id))])).collect();
        X::L(vec![
            X::N(u128::from(stalled)),
            X::L(ports.iter().map(|p| X::N(u128::from(*p))).collect()),
            X::L(ev),
            X::L(exs),
            X::L(who),
            X::L(timings),
            X::L(executed_flags),
            X::L(waited_flags),
            X::bool(refuses_after),
        ])
    }
}

#[cfg(feature = "hooks")]
pub fn run(x: &X) -> X {
    let l = match x.as_l() {
        Some(l) if l.len() == 12 => l,
        _ => return X::bad(),
    };
    let n: Vec<u128> = match l.iter().map(X::as_n).collect::<Option<Vec<_>>>() {
        Some(n) => n,
        None => return X::bad(),
    };
    if n[0] == 0 || n[0] > 4 || n[1] == 0 || n[1] > 4 || n[2] > 1 || n[5] > 2000 || n[6] > 2000 || n[7] > 2000 || n[8] > 5000 || n[9] > 8 || n[10] > 1000 {
        return X::bad();
    }
    let mut out = X::bad();
    for attempt in 0..2 {
        out = run::run(&run::Params {
            last_attempt: attempt == 1,
            nports: n[0] as usize,
        handovers: n[1] as usize,
        flavour: n[2] as u8,
        seed: n[3] as u64,
        jitter_us: n[4] as u64,
        d_bind: n[5] as u64,
        d_send: n[6] as u64,
        d_close: n[7] as u64,
        slow_ms: n[8] as u64,
        nslow: n[9] as usize,
        gap_ms: n[10] as u64,
            eager: n[11] == 1,
        });
        if !matches!(out.as_l(), Some([X::N(96), X::N(5)])) {
            break;
        }
    }
    out
}
#[cfg(not(feature = "hooks"))]
pub fn run(_x: &X) -> X {
    X::L(vec![X::N(96), X::N(2)])
}

pub fn dispatch(comp: &str, x: &X) -> Option<X> {
    Some(match comp {
        "handover.run" => run(x),
        _ => return None,
    })
}
