//! C01, pipeline part: a real `Host` over a fixture tree on disk (files inside the public
//! directory, sentinel files beside and above it), driven through the public
//! `kvarn::handle_cache` with a history of requests.
//!
//! input  = (L (L default_ext cache fcache (B public_dir) files handlers) requests)
//!   files    = (L (L (B path-relative-to-the-run-dir) (B content)) ...)   the host directory is `<run dir>/host`
//!   handlers = (L (L (B path) (B body) (N spref)) ...)                     path-bound Prepare extensions (status 200)
//!   requests = (L (L (B method) (B target) (N origin_kind)) ...)
//!            | (L (N 1) (B from) (B to))   the response-cache entry under the path `from` is copied to the key `to` -> (L (N found))
//!     origin_kind: 0 no Origin header, 1 `Origin` of the same site, 2 `Origin` of another site,
//!                  3 as 2 + `access-control-request-method`, 4 as 1 + `access-control-request-method`
//! output = (L per-request ...), per request (L (N status) (B decoded body, error pages canonicalised) (L log ...))
//!          or (L (N 96)) when the target is not origin-form / refused by http::Uri.
//! `pathsanpipe.wire`: the same scenario, but the requests are written as HTTP/1.1 text to a real kvarn server
//! (`RunConfig::execute`) on a loopback port; a HEAD answer has no body; a request the server answers by closing the
//! connection is (L (N 96)); (L (N 96) (N 1)) = the server could not be run (not a verdict).
//!   log: "pf" = the predicate of the predicate-bound Prepare extension was consulted, "h<i>" = path-bound handler i ran.
use crate::c00pipe as pipe;
use crate::xval::X;
use kvarn::prelude::*;

fn kvp(k: &str, v: X) -> X {
    X::L(vec![X::b(k), v])
}

fn headers_of(kind: u128) -> Vec<X> {
    let h = |k: &str, v: &str| X::L(vec![X::b(k), X::b(v)]);
    match kind {
        1 => vec![h("origin", "http://localhost")],
        2 => vec![h("origin", "http://other.example")],
        3 => vec![h("origin", "http://other.example"), h("access-control-request-method", "GET")],
        4 => vec![h("origin", "http://localhost"), h("access-control-request-method", "GET")],
        _ => vec![],
    }
}

/// `None` = malformed input; `Some(None)` = the wire variant could not be run (port trouble, stall): retried by the caller
fn run(x: &X, wire: bool) -> Option<Option<X>> {
    let l = x.as_l()?;
    if l.len() != 2 {
        return None;
    }
    let c = l[0].as_l()?;
    if c.len() != 6 {
        return None;
    }
    let (default_ext, cache, fcache) = (c[0].as_bool()?, c[1].as_bool()?, c[2].as_bool()?);
    let public = c[3].as_b()?;
    let mut handlers = Vec::new();
    for h in c[5].as_l()? {
        let h = h.as_l()?;
        // (L path kind status body headers spref maxage cpref compress tuple)
        handlers.push(X::L(vec![
            X::b(h[0].as_b()?),
            X::N(0),
            X::N(200),
            X::b(h[1].as_b()?),
            X::L(vec![]),
            X::N(h[2].as_n()?),
            X::N(0),
            X::N(0),
            X::bool(false),
            X::L(vec![]),
        ]));
    }
    let mut cfg = vec![
        kvp("default_ext", X::bool(default_ext)),
        kvp("cache", X::bool(cache)),
        kvp("fcache", X::bool(fcache)),
        kvp("files", c[4].clone()),
        kvp("handlers", X::L(handlers)),
    ];
    if public != b"public" {
        // "public" is kvarn's default: leave the option unset then
        cfg.push(kvp("public_dir", X::b(public)));
    }
    let customize = |_kv: &[(String, X)], host: &mut Host, shared: &std::sync::Arc<pipe::Shared>| {
        // the fixture has files above the host directory as well
        host.path = format!("{}/host", host.path).into();
        let sh = std::sync::Arc::clone(shared);
        host.extensions.add_prepare_fn(
            Box::new(move |_req, _host| {
                sh.log.lock().unwrap().push(b"pf".to_vec());
                false
            }),
            prepare!(_req, _host, _path, _addr, {
                FatResponse::no_cache(Response::new(Bytes::from_static(b"predicate-bound prepare ran")))
            }),
            extensions::Id::new(0, "C01 probe: logs that the predicate-bound Prepare extensions were consulted"),
        );
    };
    let built = pipe::build_host(&X::L(cfg), Some(&customize))?;
    enum Op {
        Skip,
        Req(X),
        Wire(Vec<u8>, Vec<u8>, u128),
        Alias(Vec<u8>, Vec<u8>),
    }
    let mut ops = Vec::new();
    for r in l[1].as_l()? {
        let r = r.as_l()?;
        if r.len() == 3 && r[0].as_n() == Some(1) {
            ops.push(Op::Alias(r[1].as_b()?.to_vec(), r[2].as_b()?.to_vec()));
            continue;
        }
        let (method, target, kind) = (r[0].as_b()?, r[1].as_b()?, r[2].as_n()?);
        if !target.starts_with(b"/") || (wire && !(wire_ok(target) && wire_ok(method))) {
            ops.push(Op::Skip);
        } else if wire {
            ops.push(Op::Wire(method.to_vec(), target.to_vec(), kind));
        } else {
            ops.push(Op::Req(X::L(vec![X::N(0), X::N(1), X::b(method), X::b(target), X::L(headers_of(kind)), X::b(b"")])));
        }
    }
    let res = std::panic::catch_unwind(std::panic::AssertUnwindSafe(|| {
        pipe::block_on(async {
            let mut out = Vec::new();
            let mut conn = if wire { Some(Wire::start(&built).await?) } else { None };
            for op in &ops {
                match op {
                    Op::Skip => out.push(X::L(vec![X::N(96)])),
                    Op::Wire(method, target, kind) => {
                        built.shared.log.lock().unwrap().clear();
                        let r = conn.as_mut()?.exchange(method, target, *kind).await?;
                        out.push(match r {
                            None => X::L(vec![X::N(96)]),
                            Some((status, body)) => {
                                let log: Vec<X> = built.shared.log.lock().unwrap().iter().map(X::b).collect();
                                X::L(vec![X::n(status), X::b(pipe::canon_body(&body)), X::L(log)])
                            }
                        });
                    }
                    Op::Req(op) => {
                        let r = pipe::run_ops(&built, std::slice::from_ref(op)).await?.into_iter().next()?;
                        let rl = r.as_l()?;
                        if rl.len() == 6 {
                            // (L status headers body decode_ok identity log)
                            if rl[3].as_bool() != Some(true) {
                                out.push(X::L(vec![X::N(95)]));
                            } else {
                                out.push(X::L(vec![rl[0].clone(), rl[2].clone(), rl[5].clone()]));
                            }
                        } else {
                            out.push(r.clone());
                        }
                    }
                    Op::Alias(from, to) => {
                        // "any cache content": the entry stored under the path `from` (if any) is also put under the key `to`,
                        // with the public `MokaCache::cache` field
                        let host = built.hosts.get_host(&built.host_name)?;
                        let found = match &host.response_cache {
                            Some(cache) => {
                                let k = |b: &[u8]| comprash::UriKey::Path(String::from_utf8_lossy(b).as_ref().into());
                                match cache.cache.get(&k(from)) {
                                    Some(v) => {
                                        cache.cache.insert(k(to), v);
                                        true
                                    }
                                    None => false,
                                }
                            }
                            None => false,
                        };
                        out.push(X::L(vec![X::bool(found)]));
                    }
                }
            }
            if let Some(c) = conn {
                c.stop().await;
            }
            Some(out)
        })
    }));
    if let Some(d) = &built.dir {
        let _ = std::fs::remove_dir_all(d);
    }
    Some(match res {
        Ok(Some(out)) => Some(X::L(out)),
        Ok(None) if wire => None,
        Ok(None) => return None,
        Err(_) => Some(X::panic()),
    })
}

/// what can be written into an HTTP/1.1 request line without changing its framing
fn wire_ok(s: &[u8]) -> bool {
    !s.is_empty() && s.iter().all(|c| *c > 0x20 && *c != 0x7f)
}

/// A real kvarn server (`RunConfig::execute`, HTTP/1.1 without TLS) on a loopback port serving the fixture host, and one
/// client connection (re-opened when the server closes it: kvarn answers a request it cannot parse by closing).
struct Wire {
    port: u16,
    stream: Option<tokio::net::TcpStream>,
    shutdown: std::sync::Arc<kvarn::shutdown::Manager>,
}
const IO_TIMEOUT: Duration = Duration::from_secs(8);

fn free_port() -> Option<u16> {
    // the kernel picks a port nobody listens on; it is released again before kvarn binds it
    let l = std::net::TcpListener::bind((std::net::Ipv4Addr::LOCALHOST, 0)).ok()?;
    l.local_addr().ok().map(|a| a.port())
}

impl Wire {
    async fn start(built: &pipe::Built) -> Option<Wire> {
        let port = free_port()?;
        let shutdown = RunConfig::new()
            .bind(PortDescriptor::unsecure(port, std::sync::Arc::clone(&built.hosts)).ipv4_only())
            .disable_ctl()
            .execute()
            .await;
        let mut w = Wire { port, stream: None, shutdown };
        // the listener binds inside its task: a refusal in the first seconds means "not yet"
        let t0 = std::time::Instant::now();
        loop {
            if w.connect().await {
                return Some(w);
            }
            if t0.elapsed() > Duration::from_secs(5) {
                w.stop().await;
                return None;
            }
            tokio::time::sleep(Duration::from_millis(10)).await;
        }
    }
    async fn connect(&mut self) -> bool {
        let addr = SocketAddr::new(IpAddr::V4(net::Ipv4Addr::LOCALHOST), self.port);
        match tokio::time::timeout(Duration::from_secs(3), tokio::net::TcpStream::connect(addr)).await {
            Ok(Ok(s)) => {
                self.stream = Some(s);
                true
            }
            _ => false,
        }
    }
    async fn stop(self) {
        drop(self.stream);
        self.shutdown.shutdown();
        let _ = tokio::time::timeout(Duration::from_secs(2), self.shutdown.wait()).await;
    }
    /// `None` = harness trouble; `Some(None)` = the server closed the connection without an answer;
    /// `Some(Some((status, content-decoded body)))`
    async fn exchange(&mut self, method: &[u8], target: &[u8], kind: u128) -> Option<Option<(u16, Vec<u8>)>> {
        use tokio::io::{AsyncReadExt, AsyncWriteExt};
        if self.stream.is_none() && !self.connect().await {
            return None;
        }
        let mut req = Vec::new();
        req.extend_from_slice(method);
        req.push(b' ');
        req.extend_from_slice(target);
        req.extend_from_slice(b" HTTP/1.1\r\nhost: localhost\r\n");
        for h in headers_of(kind) {
            let h = h.as_l()?;
            req.extend_from_slice(h[0].as_b()?);
            req.extend_from_slice(b": ");
            req.extend_from_slice(h[1].as_b()?);
            req.extend_from_slice(b"\r\n");
        }
        req.extend_from_slice(b"\r\n");
        let stream = self.stream.as_mut()?;
        if stream.write_all(&req).await.is_err() {
            // the server had closed the idle connection: once more on a new one
            self.stream = None;
            if !self.connect().await {
                return None;
            }
            if self.stream.as_mut()?.write_all(&req).await.is_err() {
                return None;
            }
        }
        let stream = self.stream.as_mut()?;
        let mut buf: Vec<u8> = Vec::new();
        let mut tmp = [0u8; 4096];
        let head_end = loop {
            if let Some(p) = buf.windows(4).position(|w| w == b"\r\n\r\n") {
                break p;
            }
            match tokio::time::timeout(IO_TIMEOUT, stream.read(&mut tmp)).await {
                Ok(Ok(0)) | Ok(Err(_)) => {
                    self.stream = None;
                    return Some(None);
                }
                Ok(Ok(n)) => buf.extend_from_slice(&tmp[..n]),
                Err(_) => return None,
            }
        };
        let head = String::from_utf8_lossy(&buf[..head_end]).to_ascii_lowercase();
        let status: u16 = head.split(' ').nth(1).and_then(|s| s.parse().ok())?;
        let header = |name: &str| head.lines().skip(1).find_map(|l| l.strip_prefix(name).map(|v| v.trim().to_string()));
        let len: usize = if method == b"HEAD" || status == 204 || status == 304 {
            0
        } else {
            header("content-length:").and_then(|v| v.parse().ok()).unwrap_or(0)
        };
        let need = head_end + 4 + len;
        while buf.len() < need {
            match tokio::time::timeout(IO_TIMEOUT, stream.read(&mut tmp)).await {
                Ok(Ok(0)) | Ok(Err(_)) => return None,
                Ok(Ok(n)) => buf.extend_from_slice(&tmp[..n]),
                Err(_) => return None,
            }
        }
        if buf.len() != need || header("connection:").as_deref() == Some("close") {
            // never reuse a connection whose framing we are not sure about
            self.stream = None;
        }
        let enc = header("content-encoding:");
        let (body, ok) = pipe::decode_body(enc.as_deref().map(str::as_bytes), &buf[head_end + 4..need]);
        if !ok {
            return None;
        }
        Some(Some((status, body)))
    }
}

pub fn dispatch(comp: &str, x: &X) -> Option<X> {
    Some(match comp {
        "pathsanpipe.run" => crate::guarded(|| run(x, false).flatten().unwrap_or_else(X::bad)),
        "pathsanpipe.wire" => crate::guarded(|| {
            for _attempt in 0..3 {
                match run(x, true) {
                    None => return X::bad(),
                    Some(Some(r)) => return r,
                    Some(None) => {}
                }
            }
            X::L(vec![X::N(96), X::N(1)])
        }),
        _ => return None,
    })
}
