//! C01, pipeline part: a real `Host` over a fixture tree on disk (files inside the public
//! directory, sentinel files beside and above it, the operator's error pages), driven with a history
//! of requests through
//!   `pathsanpipe.run`   the public `kvarn::handle_cache`, in process;
//!   `pathsanpipe.wire`  HTTP/1.1 text over a loopback connection whose server end is handed to the public
//!                       `kvarn::handle_connection` (request parsing, host selection, handle_cache, SendKind::send);
//!   `pathsanpipe.h2`    the same over TLS + HTTP/2 (ALPN h2, the `h2` crate's client).
//! While a request is handled, every `open(2)` of a file or directory below the run directory is
//! recorded with inotify (IN_OPEN on every directory of the fixture).
//!
//! input  = (L (L default_ext cache fcache (B public_dir) files handlers options) requests)
//!   files    = (L (L (B path-relative-to-the-run-dir) (B content)) ...)   the host directory is `<run dir>/host`
//!   handlers = (L (L (B path) (B body) (N spref)) ...)    path-bound Prepare extensions (status 200); spref 0 None, 1 QueryMatters, 2 Full
//!   options  = (L (B errors_dir) (B extension_default) (B folder_default) (N disable_fs) (B host_header))
//!   requests = (L (L (B method) (B target) (N origin_kind)) ...)
//!            | (L (N 1) (B from) (B to))   the response-cache entry under UriKey::Path(from) is copied to UriKey::Path(to) -> (L (N found))
//!     origin_kind: 0 no Origin header, 1 `Origin` of the same site, 2 `Origin` of another site,
//!                  3 as 2 + `access-control-request-method`, 4 as 1 + `access-control-request-method`
//! output = (L per-request ...), per request (L (N status) (B decoded body, kvarn's generated error page canonicalised) (L log ...) (L opened ...))
//!          or (L (N 96)) when the target is refused by http::Uri / cannot be written to the connection / is answered by
//!          closing the connection or resetting the stream.
//!          (L (N 96) (N 1)) = the scenario could not be run (connection trouble, stall, no inotify instance): not a verdict.
//!   log: "pf" = the predicate of the predicate-bound Prepare extension was consulted, "h<i>" = path-bound handler i ran.
//!   opened: the objects opened below the run directory, relative to it ("." = the run directory, directories end in '/').
use crate::c00pipe as pipe;
use crate::xval::X;
use kvarn::prelude::*;
use std::sync::{Arc, OnceLock};

fn kvp(k: &str, v: X) -> X {
    X::L(vec![X::b(k), v])
}

/// `site`: the origin of the URI the server builds for an origin-form target ("http://localhost", over TLS + HTTP/2
/// "https://localhost:8443")
fn headers_of(kind: u128, site: &'static str) -> Vec<(&'static str, &'static str)> {
    match kind {
        1 => vec![("origin", site)],
        2 => vec![("origin", "http://other.example")],
        3 => vec![("origin", "http://other.example"), ("access-control-request-method", "GET")],
        4 => vec![("origin", site), ("access-control-request-method", "GET")],
        _ => vec![],
    }
}
const SITE: &str = "http://localhost";
const SITE_H2: &str = "https://localhost:8443";

// -------------------------------------------------------------------------------------------
// file-system access probe
// -------------------------------------------------------------------------------------------
/// inotify (IN_OPEN) on every directory below (and including) the run directory
struct Watcher {
    fd: i32,
    dirs: std::collections::HashMap<i32, Vec<u8>>, // watch descriptor -> path relative to the run directory ("" = the run directory)
}
impl Watcher {
    fn new(root: &std::path::Path) -> Option<Watcher> {
        use std::os::unix::ffi::OsStrExt;
        // every directory first (reading them opens them), then the watches
        let mut all = vec![(root.to_path_buf(), Vec::<u8>::new())];
        let mut i = 0;
        while i < all.len() {
            let (p, rel) = all[i].clone();
            for e in std::fs::read_dir(&p).ok()? {
                let e = e.ok()?;
                if e.file_type().ok()?.is_dir() {
                    let mut r = rel.clone();
                    if !r.is_empty() {
                        r.push(b'/');
                    }
                    r.extend_from_slice(e.file_name().as_bytes());
                    all.push((e.path(), r));
                }
            }
            i += 1;
        }
        let fd = unsafe { libc::inotify_init1(libc::IN_NONBLOCK | libc::IN_CLOEXEC) };
        if fd < 0 {
            return None;
        }
        let mut w = Watcher { fd, dirs: Default::default() };
        for (p, rel) in all {
            let c = std::ffi::CString::new(p.as_os_str().as_bytes()).ok()?;
            let wd = unsafe { libc::inotify_add_watch(fd, c.as_ptr(), libc::IN_OPEN) };
            if wd < 0 {
                return None;
            }
            w.dirs.insert(wd, rel);
        }
        Some(w)
    }
    /// the objects opened since the last call, in order; `None`: the kernel's event queue overflowed (harness trouble)
    fn drain(&mut self) -> Option<Vec<X>> {
        let mut out = Vec::new();
        let mut buf = [0u8; 16384];
        loop {
            let n = unsafe { libc::read(self.fd, buf.as_mut_ptr().cast(), buf.len()) };
            if n <= 0 {
                break;
            }
            let n = n as usize;
            let mut p = 0;
            while p + 16 <= n {
                let wd = i32::from_ne_bytes(buf[p..p + 4].try_into().unwrap());
                let mask = u32::from_ne_bytes(buf[p + 4..p + 8].try_into().unwrap());
                let len = u32::from_ne_bytes(buf[p + 12..p + 16].try_into().unwrap()) as usize;
                let name = &buf[p + 16..p + 16 + len];
                let name = &name[..name.iter().position(|c| *c == 0).unwrap_or(name.len())];
                p += 16 + len;
                if mask & libc::IN_Q_OVERFLOW != 0 {
                    return None;
                }
                if mask & libc::IN_OPEN == 0 {
                    continue;
                }
                let Some(dir) = self.dirs.get(&wd) else { continue };
                if name.is_empty() {
                    // the watched directory itself: its parent's watch reports it by name, except for the run directory
                    if dir.is_empty() {
                        out.push(X::b("."));
                    }
                    continue;
                }
                let mut full = dir.clone();
                if !full.is_empty() {
                    full.push(b'/');
                }
                full.extend_from_slice(name);
                if mask & libc::IN_ISDIR != 0 {
                    full.push(b'/');
                }
                out.push(X::B(full));
            }
        }
        Some(out)
    }
}
impl Drop for Watcher {
    fn drop(&mut self) {
        unsafe { libc::close(self.fd) };
    }
}

// -------------------------------------------------------------------------------------------
// canonical form of kvarn's generated error page, by class: the body IS what
// `kvarn_utils::hardcoded_error_body` generates for the status (and the `reason` header) of the answer
// -------------------------------------------------------------------------------------------
fn canon_body(status: u16, reason: Option<&[u8]>, body: &[u8]) -> Vec<u8> {
    if let Ok(code) = StatusCode::from_u16(status) {
        if body == &kvarn_utils::hardcoded_error_body(code, None)[..]
            || reason.map_or(false, |r| body == &kvarn_utils::hardcoded_error_body(code, Some(r))[..])
        {
            return b"ERRPAGE".to_vec();
        }
    }
    body.to_vec()
}

// -------------------------------------------------------------------------------------------
// TLS material for the HTTP/2 variant (as harness/src/c20.rs)
// -------------------------------------------------------------------------------------------
struct Tls {
    key: Arc<rustls::sign::CertifiedKey>,
    client_h2: Arc<rustls::ClientConfig>,
}
fn tls() -> &'static Tls {
    static TLS: OnceLock<Tls> = OnceLock::new();
    TLS.get_or_init(|| {
        use rustls::pki_types::PrivateKeyDer;
        let provider = Arc::new(rustls::crypto::ring::default_provider());
        let ss = rcgen::generate_simple_self_signed(vec!["localhost".to_string()]).expect("self-signed certificate");
        let cert = ss.cert.der().clone();
        let pk = PrivateKeyDer::Pkcs8(ss.key_pair.serialized_der().to_vec().into());
        let pk = rustls::crypto::ring::sign::any_supported_type(&pk).expect("key type");
        let key = Arc::new(rustls::sign::CertifiedKey::new(vec![cert.clone()], pk));
        let mut roots = rustls::RootCertStore::empty();
        roots.add(cert).expect("root");
        let mut c = rustls::ClientConfig::builder_with_provider(provider)
            .with_safe_default_protocol_versions()
            .expect("versions")
            .with_root_certificates(roots)
            .with_no_client_auth();
        c.alpn_protocols = vec![b"h2".to_vec()];
        Tls { key, client_h2: Arc::new(c) }
    })
}

#[derive(Clone, Copy, PartialEq)]
enum Mode {
    InProc,
    H1,
    H2,
    H2Raw,
}

/// what can be written into an HTTP/1.1 request line without changing its framing
fn wire_ok(s: &[u8]) -> bool {
    !s.is_empty() && s.iter().all(|c| *c > 0x20 && *c != 0x7f)
}

const IO_TIMEOUT: Duration = Duration::from_secs(8);
const H2_PORT: u16 = 8443;

/// The front door: a loopback listener owned by the harness (bound to a port the kernel chose and kept
/// for the whole scenario, so nobody else can get it); the server end of every accepted connection is handed
/// to `kvarn::handle_connection`.
struct Front {
    listener: tokio::net::TcpListener,
    desc: Arc<PortDescriptor>,
}
impl Front {
    async fn new(built: &pipe::Built, secure: bool) -> Option<Front> {
        let listener = tokio::net::TcpListener::bind((std::net::Ipv4Addr::LOCALHOST, 0)).await.ok()?;
        let desc = Arc::new(if secure {
            PortDescriptor::new(H2_PORT, Arc::clone(&built.hosts))
        } else {
            PortDescriptor::unsecure(80, Arc::clone(&built.hosts))
        });
        Some(Front { listener, desc })
    }
    async fn connect(&self) -> Option<tokio::net::TcpStream> {
        let addr = self.listener.local_addr().ok()?;
        let client = tokio::time::timeout(IO_TIMEOUT, tokio::net::TcpStream::connect(addr)).await.ok()?.ok()?;
        let (server_end, peer) = tokio::time::timeout(IO_TIMEOUT, self.listener.accept()).await.ok()?.ok()?;
        if peer != client.local_addr().ok()? {
            // somebody else's connection
            return None;
        }
        let desc = Arc::clone(&self.desc);
        tokio::spawn(async move {
            let _ = kvarn::handle_connection(kvarn::Incoming::Tcp(server_end), peer, desc, || true).await;
        });
        let _ = client.set_nodelay(true);
        Some(client)
    }
}

/// `None` = harness trouble; `Some(None)` = the server closed the connection / reset the stream without an answer;
/// `Some(Some((status, content-decoded canonical body)))`
type Exchange = Option<Option<(u16, Vec<u8>)>>;

struct H1 {
    stream: Option<tokio::net::TcpStream>,
}
impl H1 {
    async fn exchange(&mut self, front: &Front, host_header: &[u8], method: &[u8], target: &[u8], kind: u128) -> Exchange {
        use tokio::io::{AsyncReadExt, AsyncWriteExt};
        if self.stream.is_none() {
            self.stream = Some(front.connect().await?);
        }
        let mut req = Vec::new();
        req.extend_from_slice(method);
        req.push(b' ');
        req.extend_from_slice(target);
        req.extend_from_slice(b" HTTP/1.1\r\nhost: ");
        req.extend_from_slice(host_header);
        req.extend_from_slice(b"\r\n");
        for (n, v) in headers_of(kind, SITE) {
            req.extend_from_slice(n.as_bytes());
            req.extend_from_slice(b": ");
            req.extend_from_slice(v.as_bytes());
            req.extend_from_slice(b"\r\n");
        }
        req.extend_from_slice(b"\r\n");
        if self.stream.as_mut()?.write_all(&req).await.is_err() {
            // the server had closed the idle connection: once more on a new one
            self.stream = Some(front.connect().await?);
            if self.stream.as_mut()?.write_all(&req).await.is_err() {
                return None;
            }
        }
        let stream = self.stream.as_mut()?;
        let mut buf: Vec<u8> = Vec::new();
        let mut tmp = [0u8; 4096];
        let head_end = loop {
            if let Some(p) = buf.windows(4).position(|w| w == b"\r\n\r\n") {
                break p;
            }
            match tokio::time::timeout(IO_TIMEOUT, stream.read(&mut tmp)).await {
                Ok(Ok(0)) | Ok(Err(_)) => {
                    self.stream = None;
                    return Some(None);
                }
                Ok(Ok(n)) => buf.extend_from_slice(&tmp[..n]),
                Err(_) => return None,
            }
        };
        let head_raw = buf[..head_end].to_vec();
        let head = String::from_utf8_lossy(&head_raw).to_ascii_lowercase();
        let status: u16 = head.split(' ').nth(1).and_then(|s| s.parse().ok())?;
        let header = |name: &str| head.lines().skip(1).find_map(|l| l.strip_prefix(name).map(|v| v.trim().to_string()));
        // the `reason` header with its original case
        let reason: Option<Vec<u8>> = String::from_utf8_lossy(&head_raw)
            .lines()
            .skip(1)
            .find_map(|l| if l.len() >= 7 && l[..7].eq_ignore_ascii_case("reason:") { Some(l[7..].trim().as_bytes().to_vec()) } else { None });
        let len: usize = if method == b"HEAD" || status == 204 || status == 304 {
            0
        } else {
            header("content-length:").and_then(|v| v.parse().ok()).unwrap_or(0)
        };
        let need = head_end + 4 + len;
        while buf.len() < need {
            match tokio::time::timeout(IO_TIMEOUT, stream.read(&mut tmp)).await {
                Ok(Ok(0)) | Ok(Err(_)) => return None,
                Ok(Ok(n)) => buf.extend_from_slice(&tmp[..n]),
                Err(_) => return None,
            }
        }
        if buf.len() != need || header("connection:").as_deref() == Some("close") {
            // never reuse a connection whose framing we are not sure about
            self.stream = None;
        }
        let enc = header("content-encoding:");
        let (body, ok) = pipe::decode_body(enc.as_deref().map(str::as_bytes), &buf[head_end + 4..need]);
        if !ok {
            return None;
        }
        Some(Some((status, canon_body(status, reason.as_deref(), &body))))
    }
}

struct H2 {
    send: Option<h2::client::SendRequest<Bytes>>,
}
impl H2 {
    async fn open(front: &Front) -> Option<h2::client::SendRequest<Bytes>> {
        let tcp = front.connect().await?;
        let name = rustls::pki_types::ServerName::try_from("localhost").ok()?;
        let s = tokio::time::timeout(IO_TIMEOUT, tokio_rustls::TlsConnector::from(tls().client_h2.clone()).connect(name, tcp))
            .await
            .ok()?
            .ok()?;
        if s.get_ref().1.alpn_protocol() != Some(b"h2") {
            return None;
        }
        let (send, conn) = tokio::time::timeout(IO_TIMEOUT, h2::client::Builder::new().handshake::<_, Bytes>(s)).await.ok()?.ok()?;
        tokio::spawn(async move {
            let _ = conn.await;
        });
        Some(send)
    }
    async fn exchange(&mut self, front: &Front, method: &[u8], target: &[u8], kind: u128) -> Exchange {
        let mut uri = format!("https://localhost:{H2_PORT}").into_bytes();
        uri.extend_from_slice(target);
        let (Ok(m), Ok(uri)) = (Method::from_bytes(method), Uri::try_from(&uri[..])) else { return Some(None) };
        let mut b = Request::builder().method(m).uri(uri);
        for (n, v) in headers_of(kind, SITE_H2) {
            b = b.header(n, v);
        }
        let req = b.body(()).ok()?;
        for attempt in 0..2 {
            if self.send.is_none() {
                self.send = Some(H2::open(front).await?);
            }
            let send = self.send.clone()?;
            let mut send = match tokio::time::timeout(IO_TIMEOUT, send.ready()).await {
                Ok(Ok(s)) => s,
                Ok(Err(_)) if attempt == 0 => {
                    // the connection is gone (GOAWAY after an earlier refusal): a new one
                    self.send = None;
                    continue;
                }
                _ => return None,
            };
            let (resp, _stream) = match send.send_request(req.clone(), true) {
                Ok(x) => x,
                Err(_) if attempt == 0 => {
                    self.send = None;
                    continue;
                }
                Err(_) => return None,
            };
            let resp = match tokio::time::timeout(IO_TIMEOUT, resp).await {
                Err(_) => return None,
                Ok(Err(e)) if e.is_reset() && e.is_remote() => return Some(None),
                Ok(Err(e)) if e.is_go_away() && e.is_remote() => {
                    self.send = None;
                    return Some(None);
                }
                Ok(Err(_)) => return None,
                Ok(Ok(r)) => r,
            };
            let (parts, mut body) = resp.into_parts();
            let mut data = Vec::new();
            loop {
                match tokio::time::timeout(IO_TIMEOUT, body.data()).await {
                    Err(_) => return None,
                    Ok(None) => break,
                    Ok(Some(Err(_))) => return None,
                    Ok(Some(Ok(chunk))) => {
                        let _ = body.flow_control().release_capacity(chunk.len());
                        data.extend_from_slice(&chunk);
                    }
                }
            }
            let status = parts.status.as_u16();
            let enc = parts.headers.get("content-encoding").map(|v| v.as_bytes().to_vec());
            let (decoded, ok) = pipe::decode_body(enc.as_deref(), &data);
            if !ok {
                return None;
            }
            let reason = parts.headers.get("reason").map(|v| v.as_bytes().to_vec());
            return Some(Some((status, canon_body(status, reason.as_deref(), &decoded))));
        }
        None
    }
}

// -------------------------------------------------------------------------------------------
// HTTP/2 with hand-written frames: any text can be put into `:path` (the h2 crate's client refuses, on the client
// side, what http::uri::PathAndQuery refuses). One connection per request; HPACK: requests are written as literals
// without Huffman coding; of the response only `:status` (always the first field) is decoded.
// -------------------------------------------------------------------------------------------
fn hp_int(out: &mut Vec<u8>, prefix_bits: u8, flags: u8, mut v: usize) {
    let max = (1usize << prefix_bits) - 1;
    if v < max {
        out.push(flags | v as u8);
    } else {
        out.push(flags | max as u8);
        v -= max;
        while v >= 128 {
            out.push((v % 128 + 128) as u8);
            v /= 128;
        }
        out.push(v as u8);
    }
}
fn hp_str(out: &mut Vec<u8>, s: &[u8]) {
    hp_int(out, 7, 0, s.len());
    out.extend_from_slice(s);
}
/// literal header field without indexing, name from the static table
fn hp_lit_idx(out: &mut Vec<u8>, idx: usize, v: &[u8]) {
    hp_int(out, 4, 0, idx);
    hp_str(out, v);
}
fn hp_lit_new(out: &mut Vec<u8>, n: &[u8], v: &[u8]) {
    out.push(0);
    hp_str(out, n);
    hp_str(out, v);
}
fn hp_read_int(b: &[u8], i: &mut usize, prefix_bits: u8) -> Option<usize> {
    let max = (1usize << prefix_bits) - 1;
    let mut v = (*b.get(*i)? as usize) & max;
    *i += 1;
    if v == max {
        let mut shift = 0;
        loop {
            let c = *b.get(*i)? as usize;
            *i += 1;
            v += (c & 127) << shift;
            shift += 7;
            if c & 128 == 0 || shift > 28 {
                break;
            }
        }
    }
    Some(v)
}
/// the Huffman codes of the digits (RFC 7541 appendix B): '0'..'2' = 00000..00010, '3'..'9' = 011001..011111
fn hp_huffman_digits(data: &[u8]) -> Option<u16> {
    let bit = |k: usize| data.get(k / 8).map(|b| (b >> (7 - k % 8)) & 1);
    let mut k = 0;
    let mut v: u16 = 0;
    for _ in 0..3 {
        let mut c = 0u8;
        for _ in 0..5 {
            c = c << 1 | bit(k)?;
            k += 1;
        }
        let d = if c <= 2 {
            c
        } else {
            c = c << 1 | bit(k)?;
            k += 1;
            if (0x19..=0x1f).contains(&c) {
                3 + (c - 0x19)
            } else {
                return None;
            }
        };
        v = v * 10 + d as u16;
    }
    Some(v)
}
fn hp_status(block: &[u8]) -> Option<u16> {
    let mut i = 0;
    // dynamic table size updates
    while block.get(i)? & 0xe0 == 0x20 {
        hp_read_int(block, &mut i, 5)?;
    }
    let b = *block.get(i)?;
    const STATIC: [u16; 7] = [200, 204, 206, 304, 400, 404, 500];
    if b & 0x80 != 0 {
        let idx = hp_read_int(block, &mut i, 7)?;
        return STATIC.get(idx.checked_sub(8)?).copied();
    }
    let idx = hp_read_int(block, &mut i, if b & 0xc0 == 0x40 { 6 } else { 4 })?;
    if !(8..=14).contains(&idx) {
        return None;
    }
    let huffman = block.get(i)? & 0x80 != 0;
    let len = hp_read_int(block, &mut i, 7)?;
    let data = block.get(i..i + len)?;
    if huffman {
        hp_huffman_digits(data)
    } else {
        std::str::from_utf8(data).ok()?.parse().ok()
    }
}
fn h2_frame(out: &mut Vec<u8>, ty: u8, flags: u8, stream: u32, payload: &[u8]) {
    out.extend_from_slice(&(payload.len() as u32).to_be_bytes()[1..]);
    out.push(ty);
    out.push(flags);
    out.extend_from_slice(&stream.to_be_bytes());
    out.extend_from_slice(payload);
}
/// the `reason` header of kvarn's answer to an unsafe path (the generated page contains it): taken from the real code, on a
/// host without a file system
fn unsafe_reason() -> Option<Vec<u8>> {
    static R: OnceLock<Option<Vec<u8>>> = OnceLock::new();
    R.get_or_init(|| {
        let mut o = host::Options::new();
        o.disable_fs();
        let h = Host::unsecure("reference", "/nonexistent-kvarn-verif", Extensions::empty(), o);
        let r = pipe::block_on(kvarn::error::sanitize_error_into_response(kvarn::prelude::utils::parse::SanitizeError::UnsafePath, &h));
        r.into_parts().0.headers().get("reason").map(|v| v.as_bytes().to_vec())
    })
    .clone()
}
async fn h2raw_exchange(front: &Front, method: &[u8], path: &[u8], kind: u128, reason400: Option<&[u8]>) -> Exchange {
    use tokio::io::{AsyncReadExt, AsyncWriteExt};
    let tcp = front.connect().await?;
    let name = rustls::pki_types::ServerName::try_from("localhost").ok()?;
    let mut s = tokio::time::timeout(IO_TIMEOUT, tokio_rustls::TlsConnector::from(tls().client_h2.clone()).connect(name, tcp))
        .await
        .ok()?
        .ok()?;
    if s.get_ref().1.alpn_protocol() != Some(b"h2") {
        return None;
    }
    let mut out = b"PRI * HTTP/2.0\r\n\r\nSM\r\n\r\n".to_vec();
    // SETTINGS: HEADER_TABLE_SIZE = 0 (the server's encoder keeps no dynamic table), ENABLE_PUSH = 0
    h2_frame(&mut out, 4, 0, 0, &[0, 1, 0, 0, 0, 0, 0, 2, 0, 0, 0, 0]);
    let mut block = Vec::new();
    match method {
        b"GET" => block.push(0x82),
        b"POST" => block.push(0x83),
        m => hp_lit_idx(&mut block, 2, m),
    }
    block.push(0x87); // :scheme https
    hp_lit_idx(&mut block, 1, format!("localhost:{H2_PORT}").as_bytes());
    hp_lit_idx(&mut block, 4, path);
    for (n, v) in headers_of(kind, SITE_H2) {
        hp_lit_new(&mut block, n.as_bytes(), v.as_bytes());
    }
    h2_frame(&mut out, 1, 0x1 | 0x4, 1, &block); // HEADERS, END_STREAM | END_HEADERS
    s.write_all(&out).await.ok()?;
    s.flush().await.ok()?;
    let mut buf: Vec<u8> = Vec::new();
    let mut tmp = [0u8; 8192];
    let mut status: Option<u16> = None;
    let mut body = Vec::new();
    loop {
        while buf.len() < 9 || buf.len() < 9 + ((buf[0] as usize) << 16 | (buf[1] as usize) << 8 | buf[2] as usize) {
            match tokio::time::timeout(IO_TIMEOUT, s.read(&mut tmp)).await {
                Ok(Ok(0)) | Ok(Err(_)) => return Some(None), // closed without an answer
                Ok(Ok(n)) => buf.extend_from_slice(&tmp[..n]),
                Err(_) => return None,
            }
        }
        let len = (buf[0] as usize) << 16 | (buf[1] as usize) << 8 | buf[2] as usize;
        let (ty, flags) = (buf[3], buf[4]);
        let stream = u32::from_be_bytes([buf[5] & 0x7f, buf[6], buf[7], buf[8]]);
        let payload: Vec<u8> = buf[9..9 + len].to_vec();
        buf.drain(..9 + len);
        let unpad = |p: &[u8], skip_priority: bool| -> Option<Vec<u8>> {
            let mut a = 0;
            let mut e = p.len();
            if flags & 0x8 != 0 {
                e = e.checked_sub(*p.first()? as usize)?;
                a = 1;
            }
            if skip_priority && flags & 0x20 != 0 {
                a += 5;
            }
            Some(p.get(a..e)?.to_vec())
        };
        match ty {
            4 if flags & 1 == 0 => {
                let mut ack = Vec::new();
                h2_frame(&mut ack, 4, 1, 0, &[]);
                s.write_all(&ack).await.ok()?;
                s.flush().await.ok()?;
            }
            3 if stream == 1 => return Some(None), // RST_STREAM
            7 => return Some(None),                // GOAWAY
            1 if stream == 1 => {
                if status.is_none() {
                    status = Some(hp_status(&unpad(&payload, true)?)?);
                }
                if flags & 1 != 0 {
                    break;
                }
            }
            0 if stream == 1 => {
                body.extend_from_slice(&unpad(&payload, false)?);
                if flags & 1 != 0 {
                    break;
                }
            }
            _ => {}
        }
    }
    let status = status?;
    Some(Some((status, canon_body(status, if status == 400 { reason400 } else { None }, &body))))
}

/// `None` = malformed input; `Some(None)` = the scenario could not be run (connection trouble, stall, inotify): retried by the caller
fn run(x: &X, mode: Mode) -> Option<Option<X>> {
    let l = x.as_l()?;
    if l.len() != 2 {
        return None;
    }
    let c = l[0].as_l()?;
    if c.len() != 7 {
        return None;
    }
    let (default_ext, cache, fcache) = (c[0].as_bool()?, c[1].as_bool()?, c[2].as_bool()?);
    let public = c[3].as_b()?.to_vec();
    let o = c[6].as_l()?;
    if o.len() != 5 {
        return None;
    }
    let (errors, ext, folder, nofs) = (o[0].as_b()?.to_vec(), o[1].as_b()?.to_vec(), o[2].as_b()?.to_vec(), o[3].as_bool()?);
    // what the client writes into the Host header (HTTP/1.1 and in process; over HTTP/2 ':authority' is the site's)
    let host_header = o[4].as_b()?.to_vec();
    let mut handlers = Vec::new();
    for h in c[5].as_l()? {
        let h = h.as_l()?;
        // (L path kind status body headers spref maxage cpref compress tuple)
        handlers.push(X::L(vec![
            X::b(h[0].as_b()?),
            X::N(0),
            X::N(200),
            X::b(h[1].as_b()?),
            X::L(vec![]),
            X::N(h[2].as_n()?),
            X::N(0),
            X::N(0),
            X::bool(false),
            X::L(vec![]),
        ]));
    }
    let cfg = vec![
        kvp("default_ext", X::bool(default_ext)),
        kvp("cache", X::bool(cache)),
        kvp("fcache", X::bool(fcache)),
        kvp("files", c[4].clone()),
        kvp("handlers", X::L(handlers)),
        // the default host: it is selected whatever the client writes into the Host header
        kvp("default_host", X::bool(true)),
    ];
    let secure = mode == Mode::H2 || mode == Mode::H2Raw;
    let customize = move |_kv: &[(String, X)], host: &mut Host, shared: &Arc<pipe::Shared>| {
        // the fixture has files above the host directory as well
        host.path = format!("{}/host", host.path).into();
        // the options are set only when they differ from kvarn's defaults
        if public != b"public" {
            host.options.set_public_data_dir(pipe::leak(&public));
        }
        if errors != b"errors" {
            host.options.set_errors_dir(pipe::leak(&errors));
        }
        if ext != b"html" {
            host.options.extension_default = Some(pipe::leak(&ext).into());
        }
        if folder != b"index.html" {
            host.options.folder_default = Some(pipe::leak(&folder).into());
        }
        if nofs {
            host.options.disable_fs();
        }
        if secure {
            *host.certificate.write().unwrap() = Some(tls().key.clone());
        }
        let sh = Arc::clone(shared);
        host.extensions.add_prepare_fn(
            Box::new(move |_req, _host| {
                sh.log.lock().unwrap().push(b"pf".to_vec());
                false
            }),
            prepare!(_req, _host, _path, _addr, {
                FatResponse::no_cache(Response::new(Bytes::from_static(b"predicate-bound prepare ran")))
            }),
            extensions::Id::new(0, "C01 probe: logs that the predicate-bound Prepare extensions were consulted"),
        );
    };
    // the options are text in kvarn: a non-UTF-8 value cannot be configured
    for v in [c[3].as_b()?, o[0].as_b()?, o[1].as_b()?, o[2].as_b()?] {
        std::str::from_utf8(v).ok()?;
    }
    let built = pipe::build_host(&X::L(cfg), Some(&customize))?;
    enum Op {
        Skip,
        Req(Vec<u8>, Vec<u8>, u128),
        Alias(Vec<u8>, Vec<u8>),
    }
    let mut ops = Vec::new();
    for r in l[1].as_l()? {
        let r = r.as_l()?;
        if r.len() == 3 && r[0].as_n() == Some(1) {
            ops.push(Op::Alias(r[1].as_b()?.to_vec(), r[2].as_b()?.to_vec()));
            continue;
        }
        let (method, target, kind) = (r[0].as_b()?, r[1].as_b()?, r[2].as_n()?);
        let sendable = match mode {
            Mode::InProc => true,
            Mode::H1 => wire_ok(target) && wire_ok(method),
            // (a CONNECT request has no `:path` in HTTP/2)
            Mode::H2 => wire_ok(target) && wire_ok(method) && target.starts_with(b"/") && method != b"CONNECT",
            Mode::H2Raw => wire_ok(target) && wire_ok(method) && method != b"CONNECT",
        };
        if sendable {
            ops.push(Op::Req(method.to_vec(), target.to_vec(), kind));
        } else {
            ops.push(Op::Skip);
        }
    }
    let reason400 = if mode == Mode::H2Raw { unsafe_reason() } else { None };
    let res = std::panic::catch_unwind(std::panic::AssertUnwindSafe(|| {
        pipe::block_on(async {
            let mut out = Vec::new();
            let host = built.hosts.get_host(&built.host_name)?;
            let mut watcher = Watcher::new(built.dir.as_ref()?)?;
            let front = if mode == Mode::InProc { None } else { Some(Front::new(&built, secure).await?) };
            let mut h1 = H1 { stream: None };
            let mut h2 = H2 { send: None };
            if mode == Mode::H2 {
                // the handshake comes first, so that it is not part of what the first request opens
                h2.send = Some(H2::open(front.as_ref()?).await?);
            }
            watcher.drain()?;
            let markers = std::env::var_os(MARKERS_ENV).is_some();
            let mut nreq = 0usize;
            for op in &ops {
                match op {
                    Op::Skip => out.push(X::L(vec![X::N(96)])),
                    Op::Req(method, target, kind) => {
                        if markers {
                            // under a system-call trace (`pathsanpipe.sys`): delimits what this request makes the process do
                            let _ = std::fs::metadata(format!("{MARKER}{nreq}"));
                            nreq += 1;
                        }
                        built.shared.log.lock().unwrap().clear();
                        let answer: Option<(u16, Vec<u8>)> = match mode {
                            Mode::InProc => {
                                let mut hdrs: Vec<X> = headers_of(*kind, SITE).into_iter().map(|(n, v)| X::L(vec![X::b(n), X::b(v)])).collect();
                                // (c00pipe::make_request builds the URI "http://" + this header + target, as kvarn's readers do)
                                hdrs.push(X::L(vec![X::b("host"), X::b(&host_header)]));
                                match pipe::make_request(&built.host_name, method, target, &hdrs, b"") {
                                    None => None,
                                    Some(mut req) => {
                                        let reply = kvarn::handle_cache(&mut req, pipe::sockaddr(1), host).await;
                                        let status = reply.response.status().as_u16();
                                        let enc = reply.response.headers().get("content-encoding").map(|v| v.as_bytes().to_vec());
                                        let (decoded, ok) = pipe::decode_body(enc.as_deref(), reply.response.body());
                                        if !ok {
                                            out.push(X::L(vec![X::N(95)]));
                                            watcher.drain()?;
                                            continue;
                                        }
                                        let reason = reply.response.headers().get("reason").map(|v| v.as_bytes().to_vec());
                                        Some((status, canon_body(status, reason.as_deref(), &decoded)))
                                    }
                                }
                            }
                            Mode::H1 => h1.exchange(front.as_ref()?, &host_header, method, target, *kind).await?,
                            Mode::H2 => h2.exchange(front.as_ref()?, method, target, *kind).await?,
                            Mode::H2Raw => h2raw_exchange(front.as_ref()?, method, target, *kind, reason400.as_deref()).await?,
                        };
                        let opened = watcher.drain()?;
                        out.push(match answer {
                            None => X::L(vec![X::N(96)]),
                            Some((status, body)) => {
                                let log: Vec<X> = built.shared.log.lock().unwrap().iter().map(X::b).collect();
                                X::L(vec![X::n(status), X::b(body), X::L(log), X::L(opened)])
                            }
                        });
                    }
                    Op::Alias(from, to) => {
                        // "any cache content": the entry stored under the path `from` (if any) is also put under the key `to`,
                        // with the public `MokaCache::cache` field
                        let found = match &host.response_cache {
                            Some(cache) => {
                                let k = |b: &[u8]| comprash::UriKey::Path(String::from_utf8_lossy(b).as_ref().into());
                                match cache.cache.get(&k(from)) {
                                    Some(v) => {
                                        cache.cache.insert(k(to), v);
                                        true
                                    }
                                    None => false,
                                }
                            }
                            None => false,
                        };
                        out.push(X::L(vec![X::bool(found)]));
                    }
                }
            }
            if markers {
                let _ = std::fs::metadata(format!("{MARKER}{nreq}"));
            }
            drop(h1);
            drop(h2);
            Some(out)
        })
    }));
    if let Some(d) = &built.dir {
        let _ = std::fs::remove_dir_all(d);
    }
    Some(match res {
        Ok(Some(out)) => Some(X::L(out)),
        Ok(None) => None,
        Err(_) => Some(X::panic()),
    })
}

// -------------------------------------------------------------------------------------------
// `pathsanpipe.sys`: the in-process history once more in a child process under `strace -f -e trace=%file`:
// per request the status and the distinct path strings below the run directory that were handed to ANY
// file-related system call (open, stat, access, ... — successful or not), in order of first occurrence.
// output per request (L (N status) (L (B path relative to the run directory) ...)) | (L (N 96)) | (L (N found))
// -------------------------------------------------------------------------------------------
const MARKERS_ENV: &str = "KVH_SYS_MARKERS";
const MARKER: &str = "/kvh-marker/";

/// the quoted strings of one line of `strace -xx` output (every byte is written as \xHH)
fn quoted_strings(line: &[u8]) -> Vec<Vec<u8>> {
    let mut out = Vec::new();
    let mut i = 0;
    while i < line.len() {
        if line[i] == b'"' {
            let mut j = i + 1;
            let mut cur = Vec::new();
            while j < line.len() && line[j] != b'"' {
                if line[j] == b'\\' && j + 3 < line.len() && line[j + 1] == b'x' {
                    let h = (line[j + 2] as char).to_digit(16);
                    let l = (line[j + 3] as char).to_digit(16);
                    if let (Some(h), Some(l)) = (h, l) {
                        cur.push((h * 16 + l) as u8);
                        j += 4;
                        continue;
                    }
                }
                cur.push(line[j]);
                j += 1;
            }
            out.push(cur);
            i = j + 1;
        } else {
            i += 1;
        }
    }
    out
}

fn sys(x: &X) -> Option<Option<X>> {
    use std::io::{Read, Write};
    use std::sync::atomic::{AtomicUsize, Ordering};
    static N: AtomicUsize = AtomicUsize::new(0);
    // well-formed? (the child would answer "bad input" as well)
    x.as_l().filter(|l| l.len() == 2)?;
    let exe = std::env::current_exe().ok()?;
    let log = std::env::temp_dir().join(format!("kvh-c01-strace-{}-{}.log", std::process::id(), N.fetch_add(1, Ordering::SeqCst)));
    let child = std::process::Command::new("strace")
        .args(["-f", "-qq", "-xx", "-s", "20000", "-e", "trace=%file", "-o"])
        .arg(&log)
        .arg(&exe)
        .env(MARKERS_ENV, "1")
        .stdin(std::process::Stdio::piped())
        .stdout(std::process::Stdio::piped())
        .stderr(std::process::Stdio::null())
        .spawn();
    let Ok(mut child) = child else { return Some(None) };
    // a traced child that does not finish (it never should take more than seconds) is killed: harness trouble
    let done = Arc::new(std::sync::atomic::AtomicBool::new(false));
    {
        let done = Arc::clone(&done);
        let pid = child.id() as i32;
        std::thread::spawn(move || {
            for _ in 0..1800 {
                std::thread::sleep(Duration::from_millis(100));
                if done.load(Ordering::SeqCst) {
                    return;
                }
            }
            unsafe { libc::kill(pid, libc::SIGKILL) };
        });
    }
    let mut line = String::from("s pathsanpipe.run ");
    x.write(&mut line);
    line.push('\n');
    let mut stdin = child.stdin.take()?;
    let writer = std::thread::spawn(move || {
        let _ = stdin.write_all(line.as_bytes());
    });
    let mut outp = String::new();
    let _ = child.stdout.take()?.read_to_string(&mut outp);
    let _ = writer.join();
    let ok = child.wait().map_or(false, |s| s.success());
    done.store(true, Ordering::SeqCst);
    let trace = std::fs::read(&log).unwrap_or_default();
    let _ = std::fs::remove_file(&log);
    if !ok {
        return Some(None);
    }
    let res = outp.lines().find_map(|l| l.strip_prefix("s "))?;
    let mut pos = 0;
    let res = crate::xval::parse(res.as_bytes(), &mut pos)?;
    let rows = match res.as_l() {
        Some(r) if r.len() == x.as_l()?[1].as_l()?.len() => r,
        // (L (N 96) (N 1)), a panic, bad input: as the child says
        _ => return Some(if res == X::L(vec![X::N(96), X::N(1)]) { None } else { Some(res) }),
    };
    // windows of the trace between the markers
    let mut windows: Vec<Vec<Vec<u8>>> = Vec::new();
    let mut current: Option<Vec<Vec<u8>>> = None;
    for l in trace.split(|c| *c == b'\n') {
        for q in quoted_strings(l) {
            if q.starts_with(MARKER.as_bytes()) {
                if let Some(w) = current.take() {
                    windows.push(w);
                }
                current = Some(Vec::new());
            } else if let Some(w) = current.as_mut() {
                // below the run directory `<verif>/.run/<pid>-<n>/`
                if let Some(p) = q.windows(6).position(|w| w == b"/.run/") {
                    if let Some(e) = q[p + 6..].iter().position(|c| *c == b'/') {
                        let rel = q[p + 6 + e + 1..].to_vec();
                        if !w.contains(&rel) {
                            w.push(rel);
                        }
                    }
                }
            }
        }
    }
    let mut out = Vec::new();
    let mut k = 0;
    for (r, op) in rows.iter().zip(x.as_l()?[1].as_l()?) {
        let is_req = op.as_l().map_or(false, |o| o.len() == 3 && o[0].as_b().is_some());
        match r.as_l() {
            Some([status, _, _, _]) => {
                let w = windows.get(k)?;
                out.push(X::L(vec![status.clone(), X::L(w.iter().map(X::b).collect())]));
            }
            _ => out.push(r.clone()),
        }
        // a marker is written for every request that could be sent (in process: every request)
        if is_req {
            k += 1;
        }
    }
    if k != windows.len() {
        return Some(None);
    }
    Some(Some(X::L(out)))
}

fn persistent_sys(x: &X) -> X {
    for _attempt in 0..3 {
        match sys(x) {
            None => return X::bad(),
            Some(Some(r)) => return r,
            Some(None) => {}
        }
    }
    X::L(vec![X::N(96), X::N(1)])
}

fn persistent(x: &X, mode: Mode) -> X {
    for _attempt in 0..3 {
        match run(x, mode) {
            None => return X::bad(),
            Some(Some(r)) => return r,
            Some(None) => {}
        }
    }
    X::L(vec![X::N(96), X::N(1)])
}

pub fn dispatch(comp: &str, x: &X) -> Option<X> {
    Some(match comp {
        "pathsanpipe.run" => crate::guarded(|| persistent(x, Mode::InProc)),
        "pathsanpipe.wire" => crate::guarded(|| persistent(x, Mode::H1)),
        "pathsanpipe.h2" => crate::guarded(|| persistent(x, Mode::H2)),
        "pathsanpipe.h2raw" => crate::guarded(|| persistent(x, Mode::H2Raw)),
        "pathsanpipe.sys" => crate::guarded(|| persistent_sys(x)),
        _ => return None,
    })
}
