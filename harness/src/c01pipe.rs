//! C01, pipeline part: a real `Host` over a fixture tree on disk (files inside the public
//! directory, sentinel files beside and above it), driven through the public
//! `kvarn::handle_cache` with a history of requests.
//!
//! input  = (L (L default_ext cache fcache (B public_dir) files handlers) requests)
//!   files    = (L (L (B path-relative-to-the-run-dir) (B content)) ...)   the host directory is `<run dir>/host`
//!   handlers = (L (L (B path) (B body) (N spref)) ...)                     path-bound Prepare extensions (status 200)
//!   requests = (L (L (B method) (B target) (N origin_kind)) ...)
//!            | (L (N 1) (B from) (B to))   the response-cache entry under the path `from` is copied to the key `to` -> (L (N found))
//!     origin_kind: 0 no Origin header, 1 `Origin` of the same site, 2 `Origin` of another site,
//!                  3 as 2 + `access-control-request-method`, 4 as 1 + `access-control-request-method`
//! output = (L per-request ...), per request (L (N status) (B decoded body, error pages canonicalised) (L log ...))
//!          or (L (N 96)) when the target is not origin-form / refused by http::Uri.
//!   log: "pf" = the predicate of the predicate-bound Prepare extension was consulted, "h<i>" = path-bound handler i ran.
use crate::c00pipe as pipe;
use crate::xval::X;
use kvarn::prelude::*;

fn kvp(k: &str, v: X) -> X {
    X::L(vec![X::b(k), v])
}

fn headers_of(kind: u128) -> Vec<X> {
    let h = |k: &str, v: &str| X::L(vec![X::b(k), X::b(v)]);
    match kind {
        1 => vec![h("origin", "http://localhost")],
        2 => vec![h("origin", "http://other.example")],
        3 => vec![h("origin", "http://other.example"), h("access-control-request-method", "GET")],
        4 => vec![h("origin", "http://localhost"), h("access-control-request-method", "GET")],
        _ => vec![],
    }
}

fn run(x: &X) -> Option<X> {
    let l = x.as_l()?;
    if l.len() != 2 {
        return None;
    }
    let c = l[0].as_l()?;
    if c.len() != 6 {
        return None;
    }
    let (default_ext, cache, fcache) = (c[0].as_bool()?, c[1].as_bool()?, c[2].as_bool()?);
    let public = c[3].as_b()?;
    let mut handlers = Vec::new();
    for h in c[5].as_l()? {
        let h = h.as_l()?;
        // (L path kind status body headers spref maxage cpref compress tuple)
        handlers.push(X::L(vec![
            X::b(h[0].as_b()?),
            X::N(0),
            X::N(200),
            X::b(h[1].as_b()?),
            X::L(vec![]),
            X::N(h[2].as_n()?),
            X::N(0),
            X::N(0),
            X::bool(false),
            X::L(vec![]),
        ]));
    }
    let mut cfg = vec![
        kvp("default_ext", X::bool(default_ext)),
        kvp("cache", X::bool(cache)),
        kvp("fcache", X::bool(fcache)),
        kvp("files", c[4].clone()),
        kvp("handlers", X::L(handlers)),
    ];
    if public != b"public" {
        // "public" is kvarn's default: leave the option unset then
        cfg.push(kvp("public_dir", X::b(public)));
    }
    let customize = |_kv: &[(String, X)], host: &mut Host, shared: &std::sync::Arc<pipe::Shared>| {
        // the fixture has files above the host directory as well
        host.path = format!("{}/host", host.path).into();
        let sh = std::sync::Arc::clone(shared);
        host.extensions.add_prepare_fn(
            Box::new(move |_req, _host| {
                sh.log.lock().unwrap().push(b"pf".to_vec());
                false
            }),
            prepare!(_req, _host, _path, _addr, {
                FatResponse::no_cache(Response::new(Bytes::from_static(b"predicate-bound prepare ran")))
            }),
            extensions::Id::new(0, "C01 probe: logs that the predicate-bound Prepare extensions were consulted"),
        );
    };
    let built = pipe::build_host(&X::L(cfg), Some(&customize))?;
    enum Op {
        Skip,
        Req(X),
        Alias(Vec<u8>, Vec<u8>),
    }
    let mut ops = Vec::new();
    for r in l[1].as_l()? {
        let r = r.as_l()?;
        if r.len() == 3 && r[0].as_n() == Some(1) {
            ops.push(Op::Alias(r[1].as_b()?.to_vec(), r[2].as_b()?.to_vec()));
            continue;
        }
        let (method, target, kind) = (r[0].as_b()?, r[1].as_b()?, r[2].as_n()?);
        if !target.starts_with(b"/") {
            ops.push(Op::Skip);
        } else {
            ops.push(Op::Req(X::L(vec![X::N(0), X::N(1), X::b(method), X::b(target), X::L(headers_of(kind)), X::b(b"")])));
        }
    }
    let res = std::panic::catch_unwind(std::panic::AssertUnwindSafe(|| {
        pipe::block_on(async {
            let mut out = Vec::new();
            for op in &ops {
                match op {
                    Op::Skip => out.push(X::L(vec![X::N(96)])),
                    Op::Req(op) => {
                        let r = pipe::run_ops(&built, std::slice::from_ref(op)).await?.into_iter().next()?;
                        let rl = r.as_l()?;
                        if rl.len() == 6 {
                            // (L status headers body decode_ok identity log)
                            if rl[3].as_bool() != Some(true) {
                                out.push(X::L(vec![X::N(95)]));
                            } else {
                                out.push(X::L(vec![rl[0].clone(), rl[2].clone(), rl[5].clone()]));
                            }
                        } else {
                            out.push(r.clone());
                        }
                    }
                    Op::Alias(from, to) => {
                        // "any cache content": the entry stored under the path `from` (if any) is also put under the key `to`,
                        // with the public `MokaCache::cache` field
                        let host = built.hosts.get_host(&built.host_name)?;
                        let found = match &host.response_cache {
                            Some(cache) => {
                                let k = |b: &[u8]| comprash::UriKey::Path(String::from_utf8_lossy(b).as_ref().into());
                                match cache.cache.get(&k(from)) {
                                    Some(v) => {
                                        cache.cache.insert(k(to), v);
                                        true
                                    }
                                    None => false,
                                }
                            }
                            None => false,
                        };
                        out.push(X::L(vec![X::bool(found)]));
                    }
                }
            }
            Some(out)
        })
    }));
    if let Some(d) = &built.dir {
        let _ = std::fs::remove_dir_all(d);
    }
    let out = match res {
        Ok(r) => r?,
        Err(_) => return Some(X::panic()),
    };
    Some(X::L(out))
}

pub fn dispatch(comp: &str, x: &X) -> Option<X> {
    Some(match comp {
        "pathsanpipe.run" => crate::guarded(|| run(x).unwrap_or_else(X::bad)),
        _ => return None,
    })
}
