//! C16: extension registry (`Extensions::{add,remove,get}_*`), `slice::binary_search_by`,
//! the `!> ` line parser `PresentExtensions::new` + its iterators.
use crate::xval::X;
use bytes::Bytes;
use kvarn::extensions::{Extensions, Id};
use kvarn::prelude::*;
use kvarn_utils::extensions::{PresentArguments, PresentExtensions};

fn leak(name: &[u8]) -> Option<&'static str> {
    let s = std::str::from_utf8(name).ok()?;
    Some(Box::leak(s.to_owned().into_boxed_str()))
}

fn x_listing<'a>(ids: impl Iterator<Item = &'a Id>) -> X {
    X::L(ids
        .map(|id| X::L(vec![X::z(id.priority() as i128), X::b(id.name().as_bytes())]))
        .collect())
}

fn keys<T>(m: &std::collections::HashMap<CompactString, T>) -> X {
    let mut k: Vec<&[u8]> = m.keys().map(|k| k.as_bytes()).collect();
    k.sort();
    X::L(k.into_iter().map(X::b).collect())
}

fn list_kind(e: &Extensions, kind: u128) -> X {
    match kind {
        0 => x_listing(e.get_prime().iter().map(|t| &t.0)),
        1 => x_listing(e.get_prepare_fn().iter().map(|t| &t.0)),
        2 => x_listing(e.get_present_fn().iter().map(|t| &t.0)),
        3 => x_listing(e.get_package().iter().map(|t| &t.0)),
        4 => x_listing(e.get_post().iter().map(|t| &t.0)),
        5 => keys(e.get_prepare_single()),
        6 => keys(e.get_present_internal()),
        _ => keys(e.get_present_file()),
    }
}

fn mk_id(prio: i128, name: &'static str, no_override: bool) -> Id {
    let id = Id::new(prio as i32, name);
    if no_override {
        id.no_override()
    } else {
        id
    }
}

fn apply(e: &mut Extensions, kind: u128, code: u128, prio: i128, name: &'static str) {
    let id = mk_id(prio, name, code == 1);
    let remove = code == 2;
    match kind {
        0 if remove => e.remove_prime(id),
        0 => e.add_prime(kvarn::prime!(_, _, _, { None }), id),
        1 if remove => e.remove_prepare_fn(id),
        1 => e.add_prepare_fn(
            Box::new(|_, _| false),
            kvarn::prepare!(_, _, _, _, { FatResponse::no_cache(Response::new(Bytes::new())) }),
            id,
        ),
        2 if remove => e.remove_present_fn(id),
        2 => e.add_present_fn(Box::new(|_, _| false), kvarn::present!(_, {}), id),
        3 if remove => e.remove_package(id),
        3 => e.add_package(kvarn::package!(_, _, _, _, {}), id),
        4 if remove => e.remove_post(id),
        4 => e.add_post(kvarn::post!(_, _, _, _, _, {}), id),
        5 if remove => e.remove_prepare_single(name),
        5 => e.add_prepare_single(
            name,
            kvarn::prepare!(_, _, _, _, { FatResponse::no_cache(Response::new(Bytes::new())) }),
        ),
        6 if remove => e.remove_present_internal(name),
        6 => e.add_present_internal(name, kvarn::present!(_, {})),
        _ if remove => e.remove_present_file(name),
        _ => e.add_present_file(name, kvarn::present!(_, {})),
    }
}

fn full_listing(e: &Extensions) -> X {
    let lists = X::L((0..5).map(|k| list_kind(e, k)).collect());
    let maps = X::L((5..8).map(|k| list_kind(e, k)).collect());
    X::L(vec![lists, maps])
}

/// what the real `Extensions::new()` lists (the start state of the "new" histories)
fn new_listing(_x: &X) -> X {
    full_listing(&Extensions::new())
}

/// input (L init (L (L kind code prio name)...)); output (L (L view...) (L (L listing x5) (L keys x3)))
/// init: (N 0) `Extensions::empty()`, (N 1) `Extensions::new()`, (L lists maps) `Extensions::new()` provided it lists exactly
/// this (else out of domain: the generator read the listing from another build)
fn registry(x: &X) -> X {
    let l = match x.as_l() { Some(l) if l.len() == 2 => l, _ => return X::bad() };
    let reqs = match l[1].as_l() { Some(r) => r, None => return X::bad() };
    let mut e = match l[0].as_n() {
        Some(0) => Extensions::empty(),
        Some(_) => Extensions::new(),
        None => {
            let e = Extensions::new();
            if l[0].as_l().is_none() {
                return X::bad();
            }
            let mut a = String::new();
            let mut b = String::new();
            full_listing(&e).write(&mut a);
            l[0].write(&mut b);
            if a != b {
                return X::L(vec![X::N(96)]);
            }
            e
        }
    };
    let mut views = Vec::new();
    for r in reqs {
        let r = match r.as_l() { Some(r) if r.len() == 4 => r, _ => return X::bad() };
        let (kind, code, prio, name) = match (r[0].as_n(), r[1].as_n(), r[2].as_z(), r[3].as_b()) {
            (Some(k), Some(c), Some(p), Some(n)) if k < 8 && c < 3 => (k, c, p, n),
            _ => return X::bad(),
        };
        if prio < i32::MIN as i128 || prio > i32::MAX as i128 {
            return X::L(vec![X::N(96)]);
        }
        let name = match leak(name) { Some(n) => n, None => return X::L(vec![X::N(96)]) };
        let ok = std::panic::catch_unwind(std::panic::AssertUnwindSafe(|| apply(&mut e, kind, code, prio, name))).is_ok();
        views.push(if ok { X::ok(list_kind(&e, kind)) } else { X::panic() });
    }
    X::L(vec![X::L(views), full_listing(&e)])
}

/// input (L orient target (L key...)): the real `slice::binary_search_by`
fn bsearch(x: &X) -> X {
    let l = match x.as_l() { Some(l) if l.len() == 3 => l, _ => return X::bad() };
    let (orient, t, ks) = match (l[0].as_n(), l[1].as_z(), l[2].as_l()) { (Some(o), Some(t), Some(k)) => (o, t, k), _ => return X::bad() };
    let mut v: Vec<i128> = Vec::new();
    for k in ks {
        match k.as_z() { Some(k) => v.push(k), None => return X::bad() }
    }
    let r = if orient == 0 { v.binary_search_by(|probe| t.cmp(probe)) } else { v.binary_search_by(|probe| probe.cmp(&t)) };
    match r {
        Ok(i) => X::L(vec![X::N(0), X::n(i)]),
        Err(i) => X::L(vec![X::N(1), X::n(i)]),
    }
}

/// input (B data): what `resolve_present` does with a file: `PresentExtensions::new`, `split_off(data_start)`,
/// then the iteration with names and arguments.
fn present(x: &X) -> X {
    let data = match x.as_b() { Some(d) => d, None => return X::bad() };
    let mut body = Bytes::copy_from_slice(data);
    let extensions = PresentExtensions::new(Bytes::clone(&body));
    let extensions = match extensions { Some(e) => e, None => return X::ok(X::opt(None)) };
    let data_start = extensions.data_start();
    let body = body.split_off(data_start);
    let mut entries = Vec::new();
    for ext in extensions {
        let args: Vec<X> = ext.iter().map(|a| X::b(a.as_bytes())).collect();
        entries.push(X::L(vec![X::b(ext.name().as_bytes()), X::L(args)]));
    }
    X::ok(X::opt(Some(X::L(vec![X::L(entries), X::n(data_start), X::b(&body)]))))
}

/// input (L (L word...) crlf rest): the line rendered from its words, then as `present`
fn present_line(x: &X) -> X {
    let l = match x.as_l() { Some(l) if l.len() == 3 => l, _ => return X::bad() };
    let (ws, crlf, rest) = match (l[0].as_l(), l[1].as_bool(), l[2].as_b()) { (Some(w), Some(c), Some(r)) => (w, c, r), _ => return X::bad() };
    let mut data = b"!> ".to_vec();
    for (i, w) in ws.iter().enumerate() {
        let w = match w.as_b() { Some(w) => w, None => return X::bad() };
        if i > 0 {
            data.push(b' ');
        }
        data.extend_from_slice(w);
    }
    data.extend_from_slice(if crlf { &b"\r\n"[..] } else { &b"\n"[..] });
    data.extend_from_slice(rest);
    present(&X::b(&data))
}

/// input (B data): per extension of the line its name, its arguments read by `iter()` and by `iter().rev()`
fn present_rev(x: &X) -> X {
    let data = match x.as_b() { Some(d) => d, None => return X::bad() };
    let extensions = match PresentExtensions::new(Bytes::copy_from_slice(data)) { Some(e) => e, None => return X::ok(X::opt(None)) };
    let mut entries = Vec::new();
    for ext in extensions {
        let args: Vec<X> = ext.iter().map(|a| X::b(a.as_bytes())).collect();
        let rargs: Vec<X> = ext.iter().rev().map(|a| X::b(a.as_bytes())).collect();
        entries.push(X::L(vec![X::b(ext.name().as_bytes()), X::L(args), X::L(rargs)]));
    }
    X::ok(X::opt(Some(X::L(entries))))
}

fn drive<'a>(mut it: impl DoubleEndedIterator<Item = &'a str>, sched: &[bool]) -> (Vec<X>, Vec<X>) {
    let (mut front, mut back) = (Vec::new(), Vec::new());
    for &f in sched {
        if f {
            if let Some(a) = it.next() {
                front.push(X::b(a.as_bytes()));
            }
        } else if let Some(a) = it.next_back() {
            back.push(X::b(a.as_bytes()));
        }
    }
    (front, back)
}

fn sched_of(x: &X) -> Option<Vec<bool>> {
    x.as_l()?.iter().map(|b| b.as_bool()).collect()
}

/// input (L (B data) (L bit...)): per extension its name, its arguments, and what an interleaving of `next` (1) and
/// `next_back` (0) on ONE iterator yields at the front and at the back
fn present_sched(x: &X) -> X {
    let l = match x.as_l() { Some(l) if l.len() == 2 => l, _ => return X::bad() };
    let (data, sched) = match (l[0].as_b(), sched_of(&l[1])) { (Some(d), Some(s)) => (d, s), _ => return X::bad() };
    let extensions = match PresentExtensions::new(Bytes::copy_from_slice(data)) { Some(e) => e, None => return X::ok(X::opt(None)) };
    let mut entries = Vec::new();
    for ext in extensions {
        let args: Vec<X> = ext.iter().map(|a| X::b(a.as_bytes())).collect();
        let (front, back) = drive(ext.iter(), &sched);
        entries.push(X::L(vec![X::b(ext.name().as_bytes()), X::L(args), X::L(front), X::L(back)]));
    }
    X::ok(X::opt(Some(X::L(entries))))
}

fn empty_sched(x: &X) -> X {
    let sched = match sched_of(x) { Some(s) => s, None => return X::bad() };
    let a = PresentArguments::empty();
    let (front, back) = drive(a.iter(), &sched);
    X::ok(X::L(vec![X::L(front), X::L(back)]))
}

fn empty_args(_x: &X) -> X {
    let a = PresentArguments::empty();
    let first = a.iter().next();
    X::ok(X::opt(first.map(|s| X::b(s.as_bytes()))))
}

/// `get_present_fn` (returned the present_file map before the repair): two present_fn extensions and one present_file
fn present_fn_getter(_x: &X) -> X {
    let mut e = Extensions::empty();
    e.add_present_fn(Box::new(|_, _| false), kvarn::present!(_, {}), Id::new(7, "seven"));
    e.add_present_fn(Box::new(|_, _| false), kvarn::present!(_, {}), Id::new(3, "three"));
    e.add_present_file("html", kvarn::present!(_, {}));
    x_listing(e.get_present_fn().iter().map(|t| &t.0))
}

pub fn dispatch(comp: &str, x: &X) -> Option<X> {
    Some(match comp {
        "reg.present_fn_getter" => present_fn_getter(x),
        "reg.ops" | "reg.ops_v0" => registry(x),
        "reg.new_listing" => new_listing(x),
        "present.parse_rev" => present_rev(x),
        "present.sched" => present_sched(x),
        "present.empty_sched" => empty_sched(x),
        "std.bsearch" => bsearch(x),
        "present.parse" | "present.parse_v0" => present(x),
        "present.line" => present_line(x),
        "present.empty_args" | "present.empty_args_v0" => empty_args(x),
        _ => return None,
    })
}
