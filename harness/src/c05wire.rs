//! C05 on the wire.  `vary.wire`: the history of a `vary.run` scenario, but every request travels over ONE
//! loopback HTTP/1.1 connection served by the public `kvarn::handle_connection`, so that what is observed is
//! what `SendKind::send` wrote (range handling, the 416 page it substitutes, Package extensions, HEAD rule)
//! and not what `handle_cache` returned.
//!
//! scenario = (L cfg ops), cfg as in c00pipe::build_host, ops as in c00pipe (0 request, 1 clear page,
//!            2 clear all, 3 sleep); an `if-modified-since` value `@T+k`/`@T-k` is the scenario start +- k s,
//!            `@LM<i>` is the `last-modified` value of the i-th answer of this scenario (0-based, requests only)
//! result   = (L per-op ...); request -> (L status (L (L name value) ...) body decode_ok (L log...))
//!            with, for each name in cfg `report`, every header line of that name (`?name` = presence only)
//! harness trouble (connect failure, time-out, unparsable answer, connection closed) = (L (N 93) (B why))
use crate::c00pipe as pipe;
use crate::xval::X;
use kvarn::prelude::*;
use std::sync::Arc;
use std::time::Duration;
use tokio::io::{AsyncReadExt, AsyncWriteExt};

const WAIT: Duration = Duration::from_secs(20);

struct Client {
    stream: tokio::net::TcpStream,
    buf: Vec<u8>,
}

struct Answer {
    status: u16,
    headers: Vec<(Vec<u8>, Vec<u8>)>,
    body: Vec<u8>,
}

impl Client {
    async fn more(&mut self) -> Result<(), &'static str> {
        let mut tmp = [0u8; 16384];
        match tokio::time::timeout(WAIT, self.stream.read(&mut tmp)).await {
            Ok(Ok(0)) => Err("connection closed by the server"),
            Ok(Ok(n)) => {
                self.buf.extend_from_slice(&tmp[..n]);
                Ok(())
            }
            Ok(Err(_)) => Err("read error"),
            Err(_) => Err("time-out waiting for the answer"),
        }
    }
    async fn answer(&mut self, is_head: bool) -> Result<Answer, &'static str> {
        let head_end = loop {
            if let Some(p) = self.buf.windows(4).position(|w| w == b"\r\n\r\n") {
                break p + 4;
            }
            self.more().await?;
        };
        let head = self.buf[..head_end - 4].to_vec();
        let mut lines = head.split(|c| *c == b'\n').map(|l| l.strip_suffix(b"\r").unwrap_or(l));
        let first = lines.next().ok_or("empty head")?;
        let mut parts = first.splitn(3, |c| *c == b' ');
        let version = parts.next().ok_or("no version")?;
        if !version.starts_with(b"HTTP/1.") {
            return Err("not an HTTP/1 status line");
        }
        let status: u16 = std::str::from_utf8(parts.next().ok_or("no status")?).ok().and_then(|s| s.parse().ok()).ok_or("bad status")?;
        let mut headers = Vec::new();
        for l in lines {
            let colon = l.iter().position(|c| *c == b':').ok_or("header line without colon")?;
            let name = l[..colon].to_ascii_lowercase();
            let mut v = &l[colon + 1..];
            while let [b' ' | b'\t', rest @ ..] = v {
                v = rest;
            }
            while let [rest @ .., b' ' | b'\t'] = v {
                v = rest;
            }
            headers.push((name, v.to_vec()));
        }
        let bodyless = is_head || (100..200).contains(&status) || status == 204 || status == 304;
        let len = if bodyless {
            0
        } else {
            headers
                .iter()
                .find(|(n, _)| n == b"content-length")
                .and_then(|(_, v)| std::str::from_utf8(v).ok())
                .and_then(|v| v.parse::<usize>().ok())
                .ok_or("no content-length")?
        };
        while self.buf.len() < head_end + len {
            self.more().await?;
        }
        let body = self.buf[head_end..head_end + len].to_vec();
        self.buf.drain(..head_end + len);
        Ok(Answer { status, headers, body })
    }
}

async fn open(hosts: Arc<HostCollection>) -> std::io::Result<tokio::net::TcpStream> {
    // port 0: the kernel picks a free port; the listener accepts exactly this one connection
    // ... on an address of 127/8 of its own, so that the many loopback connections other checks leave in TIME_WAIT on
    // 127.0.0.1 do not matter
    static N: std::sync::atomic::AtomicU32 = std::sync::atomic::AtomicU32::new(0);
    let n = N.fetch_add(1, std::sync::atomic::Ordering::Relaxed);
    let pid = std::process::id();
    let ip = std::net::Ipv4Addr::new(127, (1 + pid % 250) as u8, ((pid / 250 + n / 250) % 256) as u8, (1 + n % 250) as u8);
    let listener = match tokio::net::TcpListener::bind((ip, 0)).await {
        Ok(l) => l,
        Err(_) => tokio::net::TcpListener::bind("127.0.0.1:0").await?,
    };
    let addr = listener.local_addr()?;
    let client = tokio::net::TcpStream::connect(addr).await?;
    let (server_end, peer) = listener.accept().await?;
    let desc = Arc::new(PortDescriptor::unsecure(8080, hosts));
    tokio::spawn(async move {
        let _ = kvarn::handle_connection(kvarn::Incoming::Tcp(server_end), peer, desc, || true).await;
    });
    Ok(client)
}

fn trouble(why: &str) -> X {
    X::L(vec![X::N(93), X::b(why)])
}

async fn run(b: &pipe::Built, ops: &[X]) -> Result<Vec<X>, X> {
    let now = || std::time::SystemTime::now().duration_since(std::time::UNIX_EPOCH).unwrap();
    if let Some(phase) = b.align {
        let frac = now().subsec_millis() as u64;
        tokio::time::sleep(Duration::from_millis((phase + 1000 - frac) % 1000)).await;
    }
    let t0 = now().as_secs();
    let mut stream = None;
    let mut why = String::new();
    for attempt in 0..4u64 {
        match tokio::time::timeout(WAIT, open(Arc::clone(&b.hosts))).await {
            Ok(Ok(s)) => {
                stream = Some(s);
                break;
            }
            Ok(Err(e)) => why = format!("loopback connection could not be set up: {e}"),
            Err(_) => why = "loopback connection could not be set up: time-out".into(),
        }
        tokio::time::sleep(Duration::from_millis(50 << attempt)).await;
    }
    let stream = match stream {
        Some(s) => s,
        None => return Err(trouble(&why)),
    };
    let _ = stream.set_nodelay(true);
    let mut c = Client { stream, buf: Vec::new() };
    let mut out = Vec::new();
    let mut last_modified: Vec<Option<Vec<u8>>> = Vec::new();
    for op in ops {
        let l = op.as_l().ok_or_else(X::bad)?;
        match l.first().and_then(X::as_n).ok_or_else(X::bad)? {
            0 => {
                if l.len() != 6 {
                    return Err(X::bad());
                }
                let method = l[2].as_b().ok_or_else(X::bad)?;
                let target = l[3].as_b().ok_or_else(X::bad)?;
                let body = l[5].as_b().ok_or_else(X::bad)?;
                let mut head = Vec::new();
                head.extend_from_slice(method);
                head.push(b' ');
                head.extend_from_slice(target);
                head.extend_from_slice(b" HTTP/1.1\r\nhost: ");
                head.extend_from_slice(b.host_name.as_bytes());
                head.extend_from_slice(b"\r\n");
                for h in l[4].as_l().ok_or_else(X::bad)? {
                    let (n, v) = match h.as_l() {
                        Some([X::B(n), X::B(v)]) => (n, v),
                        _ => return Err(X::bad()),
                    };
                    // what cannot be written as one header line is not expressible on the wire
                    if n.is_empty() || v.iter().any(|c| *c == b'\r' || *c == b'\n' || *c == 0) {
                        return Err(X::L(vec![X::N(96)]));
                    }
                    let v: Vec<u8> = if n == b"if-modified-since" {
                        if let Some(i) = v.strip_prefix(b"@LM").and_then(|d| std::str::from_utf8(d).ok()).and_then(|d| d.parse::<usize>().ok()) {
                            match last_modified.get(i) {
                                Some(Some(v)) => v.clone(),
                                _ => b"never".to_vec(),
                            }
                        } else {
                            pipe::subst_ims(v, t0)
                        }
                    } else {
                        v.clone()
                    };
                    head.extend_from_slice(n);
                    head.extend_from_slice(b": ");
                    head.extend_from_slice(&v);
                    head.extend_from_slice(b"\r\n");
                }
                if !body.is_empty() {
                    head.extend_from_slice(format!("content-length: {}\r\n", body.len()).as_bytes());
                }
                head.extend_from_slice(b"\r\n");
                head.extend_from_slice(body);
                b.shared.log.lock().unwrap().clear();
                if c.stream.write_all(&head).await.is_err() {
                    return Err(trouble("write error"));
                }
                let a = match c.answer(method == b"HEAD").await {
                    Ok(a) => a,
                    Err(why) => return Err(trouble(why)),
                };
                let log: Vec<X> = b.shared.log.lock().unwrap().iter().map(X::b).collect();
                let enc = a.headers.iter().find(|(n, _)| n == b"content-encoding").map(|(_, v)| v.clone());
                // (no body bytes, e.g. the answer to HEAD: nothing to decode, whatever coding the head names)
                let (decoded, ok) = if a.body.is_empty() { (Vec::new(), true) } else { pipe::decode_body(enc.as_deref(), &a.body) };
                last_modified.push(a.headers.iter().find(|(n, _)| n == b"last-modified").map(|(_, v)| v.clone()));
                let mut reported = Vec::new();
                for r in &b.report {
                    let (rn, presence) = match r.strip_prefix('?') {
                        Some(rn) => (rn, true),
                        None => (r.as_str(), false),
                    };
                    for (n, v) in &a.headers {
                        if rn.as_bytes() == &n[..] {
                            reported.push(X::L(vec![X::b(n), if presence { X::b("") } else { X::b(v) }]));
                        }
                    }
                }
                out.push(X::L(vec![X::n(a.status), X::L(reported), X::b(pipe::canon_body(&decoded)), X::bool(ok), X::L(log)]));
            }
            1 => {
                let uri = Uri::try_from(l.get(1).and_then(X::as_b).ok_or_else(X::bad)?).map_err(|_| X::bad())?;
                let (found, cleared) = b.hosts.clear_page(&b.host_name, &uri);
                out.push(X::L(vec![X::bool(found), X::bool(cleared)]));
            }
            2 => {
                b.hosts.clear_response_caches(None).await;
                out.push(X::L(vec![]));
            }
            3 => {
                tokio::time::sleep(Duration::from_millis(l.get(1).and_then(X::as_n).ok_or_else(X::bad)? as u64)).await;
                out.push(X::L(vec![]));
            }
            _ => return Err(X::bad()),
        }
    }
    Ok(out)
}

fn wire(x: &X) -> X {
    let l = match x.as_l() {
        Some(l) if l.len() == 2 => l,
        _ => return X::bad(),
    };
    let customize = crate::c05::customize(crate::c05::Gate::new());
    let built = match pipe::build_host(&l[0], Some(&customize)) {
        Some(b) => b,
        None => return X::bad(),
    };
    let ops = match l[1].as_l() {
        Some(o) => o,
        None => return X::bad(),
    };
    match pipe::block_on(run(&built, ops)) {
        Ok(v) => X::L(v),
        Err(e) => e,
    }
}

pub fn dispatch(comp: &str, x: &X) -> Option<X> {
    Some(match comp {
        "vary.wire" => wire(x),
        _ => return None,
    })
}
