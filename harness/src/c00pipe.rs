//! Shared in-process pipeline harness: builds a `Host` from a scenario and drives
//! `kvarn::handle_cache` (layer 4 and below) with a history of operations.
//! Used by C03, C04, C05, C06, C13, C17, C01(pipeline part).
//!
//! scenario = (L cfg ops)
//! cfg      = (L (L (B key) value) ...)     keys: see `build_host`
//! op       = (L (N 0) addr method target headers body)   request
//!          | (L (N 1) target)                            Collection::clear_page(host, target)
//!          | (L (N 2))                                   Collection::clear_response_caches
//!          | (L (N 3) ms)                                sleep
//! result   = (L per-op ...); request -> (L status headers body decode_ok identity log)
use crate::xval::X;
use bytes::Bytes;
use kvarn::prelude::*;
use std::borrow::Cow;
use std::sync::{Arc, Mutex};

pub fn leak(s: &[u8]) -> &'static str {
    Box::leak(String::from_utf8_lossy(s).into_owned().into_boxed_str())
}

/// The transformation menu shared with the Coq model (Model/Vary.v `xform`).
pub fn xform(id: u128, v: &str) -> String {
    match id {
        0 => v.to_ascii_lowercase(),
        1 => match v.as_bytes().first() {
            Some(c) if c.to_ascii_lowercase() >= b'a' && c.to_ascii_lowercase() <= b'm' => "lo".into(),
            Some(_) => "hi".into(),
            None => "none".into(),
        },
        2 => (v.len() % 3).to_string(),
        _ => "k".into(),
    }
}

#[derive(Clone, Debug)]
pub struct HSpec {
    pub idx: usize,
    pub kind: u128,
    pub status: u16,
    pub body: Vec<u8>,
    pub headers: Vec<(Vec<u8>, Vec<u8>)>,
    pub spref: u128,
    pub maxage: u64,
    pub cpref: u128,
    pub compress: bool,
    pub tuple: Vec<(Vec<u8>, u128, Vec<u8>)>,
}

pub struct Shared {
    pub log: Mutex<Vec<Vec<u8>>>,
    pub counts: Mutex<Vec<u64>>,
}

fn parse_kv(cfg: &X) -> Option<Vec<(String, X)>> {
    let mut out = Vec::new();
    for e in cfg.as_l()? {
        let p = e.as_l()?;
        if p.len() != 2 {
            return None;
        }
        out.push((String::from_utf8_lossy(p[0].as_b()?).into_owned(), p[1].clone()));
    }
    Some(out)
}
fn get<'a>(kv: &'a [(String, X)], k: &str) -> Option<&'a X> {
    kv.iter().find(|(n, _)| n == k).map(|(_, v)| v)
}
fn flag(kv: &[(String, X)], k: &str, d: bool) -> bool {
    get(kv, k).and_then(X::as_bool).unwrap_or(d)
}

pub fn parse_handler(idx: usize, x: &X) -> Option<(Vec<u8>, HSpec)> {
    // (L path kind status body headers spref maxage cpref compress tuple)
    let l = x.as_l()?;
    if l.len() != 10 {
        return None;
    }
    let headers = l[4]
        .as_l()?
        .iter()
        .map(|h| {
            let p = h.as_l()?;
            Some((p[0].as_b()?.to_vec(), p[1].as_b()?.to_vec()))
        })
        .collect::<Option<Vec<_>>>()?;
    let tuple = l[9]
        .as_l()?
        .iter()
        .map(|h| {
            let p = h.as_l()?;
            Some((p[0].as_b()?.to_vec(), p[1].as_n()?, p[2].as_b()?.to_vec()))
        })
        .collect::<Option<Vec<_>>>()?;
    Some((
        l[0].as_b()?.to_vec(),
        HSpec {
            idx,
            kind: l[1].as_n()?,
            status: l[2].as_n()? as u16,
            body: l[3].as_b()?.to_vec(),
            headers,
            spref: l[5].as_n()?,
            maxage: l[6].as_n()? as u64,
            cpref: l[7].as_n()?,
            compress: l[8].as_bool()?,
            tuple,
        },
    ))
}

pub fn handler_response(spec: &HSpec, shared: &Shared, req: &FatRequest) -> FatResponse {
    let n = {
        let mut c = shared.counts.lock().unwrap();
        c[spec.idx] += 1;
        c[spec.idx]
    };
    shared.log.lock().unwrap().push(format!("h{}", spec.idx).into_bytes());
    let mut body = spec.body.clone();
    match spec.kind {
        1 => {
            body.extend_from_slice(req.uri().path().as_bytes());
            if let Some(q) = req.uri().query().filter(|q| !q.is_empty()) {
                body.push(b'?');
                body.extend_from_slice(q.as_bytes());
            }
        }
        2 => body.extend_from_slice(n.to_string().as_bytes()),
        3 => {
            for (name, xf, default) in &spec.tuple {
                let v = req
                    .headers()
                    .get(leak(name))
                    .and_then(|h| h.to_str().ok())
                    .map(|s| xform(*xf, s))
                    .unwrap_or_else(|| String::from_utf8_lossy(default).into_owned());
                body.push(b'|');
                body.extend_from_slice(v.as_bytes());
            }
        }
        4 => body.extend_from_slice(match req.method().as_str() {
            "GET" | "HEAD" => "GH",
            m => m,
        }.as_bytes()),
        _ => {}
    }
    let mut b = Response::builder().status(spec.status);
    for (k, v) in &spec.headers {
        b = b.header(&k[..], &v[..]);
    }
    let resp = b.body(Bytes::from(body)).unwrap();
    let sp = match spec.spref {
        0 => comprash::ServerCachePreference::None,
        1 => comprash::ServerCachePreference::QueryMatters,
        2 => comprash::ServerCachePreference::Full,
        _ => comprash::ServerCachePreference::MaxAge(Duration::from_secs(spec.maxage)),
    };
    let cp = match spec.cpref {
        0 => comprash::ClientCachePreference::Ignore,
        1 => comprash::ClientCachePreference::None,
        2 => comprash::ClientCachePreference::Changing,
        _ => comprash::ClientCachePreference::Full,
    };
    FatResponse::new(resp, sp).with_client_cache(cp).with_compress(if spec.compress {
        comprash::CompressPreference::Full
    } else {
        comprash::CompressPreference::None
    })
}

pub struct Built {
    pub t0: std::sync::atomic::AtomicU64,
    pub align: Option<u64>,
    pub hosts: Arc<HostCollection>,
    pub shared: Arc<Shared>,
    pub report: Vec<String>,
    pub dir: Option<std::path::PathBuf>,
    pub host_name: String,
}

pub type Customize = dyn Fn(&[(String, X)], &mut Host, &Arc<Shared>);

/// cfg keys: cache, fcache, default_ext, disable_ims, same_compress, handlers, vary, files, report, host, default_host
pub fn build_host(cfg: &X, customize: Option<&Customize>) -> Option<Built> {
    let kv = parse_kv(cfg)?;
    let mut ext = if flag(&kv, "default_ext", false) { Extensions::new() } else { Extensions::empty() };
    let mut handlers = Vec::new();
    if let Some(hs) = get(&kv, "handlers") {
        for (i, h) in hs.as_l()?.iter().enumerate() {
            handlers.push(parse_handler(i, h)?);
        }
    }
    let shared = Arc::new(Shared { log: Mutex::new(Vec::new()), counts: Mutex::new(vec![0; handlers.len() + 8]) });
    for (path, spec) in handlers {
        let sh = Arc::clone(&shared);
        let spec = Arc::new(spec);
        ext.add_prepare_single(
            leak(&path),
            prepare!(req, _host, _path, _addr, move |spec: Arc<HSpec>, sh: Arc<Shared>| {
                handler_response(spec, sh, req)
            }),
        );
    }
    // fixture directory
    let mut dir = None;
    let host_path = if let Some(files) = get(&kv, "files") {
        let d = std::path::PathBuf::from(format!(
            "{}/.run/{}-{}",
            env!("CARGO_MANIFEST_DIR").trim_end_matches("/harness"),
            std::process::id(),
            {
                use std::sync::atomic::{AtomicUsize, Ordering};
                static N: AtomicUsize = AtomicUsize::new(0);
                N.fetch_add(1, Ordering::SeqCst)
            }
        ));
        for f in files.as_l()? {
            let p = f.as_l()?;
            let rel = String::from_utf8_lossy(p[0].as_b()?).into_owned();
            let full = d.join(&rel);
            std::fs::create_dir_all(full.parent()?).ok()?;
            std::fs::write(&full, p[1].as_b()?).ok()?;
        }
        let s = d.to_string_lossy().into_owned();
        dir = Some(d);
        s
    } else {
        "/nonexistent-kvarn-verif".to_string()
    };
    let mut options = host::Options::new();
    if get(&kv, "files").is_none() {
        options.disable_fs();
    }
    if flag(&kv, "disable_ims", false) {
        options.disable_if_modified_since = true;
    }
    if let Some(p) = get(&kv, "public_dir").and_then(X::as_b) {
        options.set_public_data_dir(leak(p));
    }
    let host_name = get(&kv, "host").and_then(X::as_b).map(|b| String::from_utf8_lossy(b).into_owned()).unwrap_or_else(|| "localhost".into());
    let mut host = Host::unsecure(&host_name, host_path, ext, options);
    host.limiter.disable();
    if !flag(&kv, "cache", true) {
        host.disable_response_cache();
    }
    if !flag(&kv, "fcache", true) {
        host.disable_fs_cache();
    }
    if flag(&kv, "same_compress", true) {
        host.compression_options_oneshot = comprash::CompressionOptions::cached();
    }
    if let Some(rules) = get(&kv, "vary") {
        // (L (L path (L (L name xform default) ...)) ...)
        for r in rules.as_l()? {
            let p = r.as_l()?;
            let mut s = vary::Settings::empty();
            for h in p[1].as_l()? {
                let t = h.as_l()?;
                let id = t[1].as_n()?;
                s = s.add_rule(leak(t[0].as_b()?), move |v| Cow::Owned(xform(id, v)), leak(t[2].as_b()?));
            }
            host.vary.add_mut(leak(p[0].as_b()?), s);
        }
    }
    if let Some(c) = customize {
        c(&kv, &mut host, &shared);
    }
    let report = get(&kv, "report")
        .and_then(X::as_l)
        .map(|l| l.iter().filter_map(|x| x.as_b().map(|b| String::from_utf8_lossy(b).into_owned())).collect())
        .unwrap_or_default();
    // `default_host`: the host is also the collection's default host (it answers whatever the Host header names)
    let hosts = if flag(&kv, "default_host", false) {
        HostCollection::builder().default(host).build()
    } else {
        HostCollection::builder().insert(host).build()
    };
    let align = if flag(&kv, "align", false) { Some(get(&kv, "phase").and_then(X::as_n).unwrap_or(500) as u64) } else { None };
    Some(Built { t0: std::sync::atomic::AtomicU64::new(0), align, hosts, shared, report, dir, host_name })
}

pub fn decode_body(enc: Option<&[u8]>, body: &[u8]) -> (Vec<u8>, bool) {
    use std::io::Read;
    match enc {
        None | Some(b"identity") => (body.to_vec(), true),
        Some(b"gzip") => {
            let mut d = flate2::read::MultiGzDecoder::new(body);
            let mut out = Vec::new();
            let ok = d.read_to_end(&mut out).is_ok();
            (out, ok)
        }
        Some(b"br") => {
            let mut out = Vec::new();
            let mut input = body;
            let ok = brotli::BrotliDecompress(&mut input, &mut out).is_ok();
            (out, ok)
        }
        Some(b"zstd") => match zstd::stream::decode_all(body) {
            Ok(v) => (v, true),
            Err(_) => (Vec::new(), false),
        },
        Some(_) => (Vec::new(), false),
    }
}

pub fn sockaddr(n: u128) -> SocketAddr {
    // address n -> 10.0.(n / 256).(n % 256):4000
    SocketAddr::new(IpAddr::V4(net::Ipv4Addr::new(10, 0, ((n / 256) % 256) as u8, (n % 256) as u8)), 4000)
}

const MONTHS: [&str; 12] = ["Jan", "Feb", "Mar", "Apr", "May", "Jun", "Jul", "Aug", "Sep", "Oct", "Nov", "Dec"];
const DAYS: [&str; 7] = ["Thu", "Fri", "Sat", "Sun", "Mon", "Tue", "Wed"];
/// RFC 1123 date of a unix timestamp (civil-from-days, Howard Hinnant's algorithm)
pub fn http_date(t: i64) -> String {
    let days = t.div_euclid(86400);
    let secs = t.rem_euclid(86400);
    let z = days + 719_468;
    let era = z.div_euclid(146_097);
    let doe = z.rem_euclid(146_097);
    let yoe = (doe - doe / 1460 + doe / 36524 - doe / 146_096) / 365;
    let y = yoe + era * 400;
    let doy = doe - (365 * yoe + yoe / 4 - yoe / 100);
    let mp = (5 * doy + 2) / 153;
    let d = doy - (153 * mp + 2) / 5 + 1;
    let m = if mp < 10 { mp + 3 } else { mp - 9 };
    let y = if m <= 2 { y + 1 } else { y };
    format!(
        "{}, {:02} {} {:04} {:02}:{:02}:{:02} GMT",
        DAYS[days.rem_euclid(7) as usize], d, MONTHS[(m - 1) as usize], y, secs / 3600, (secs / 60) % 60, secs % 60
    )
}

/// "@T+k" / "@T-k" -> HTTP date of scenario start (floored to seconds) +- k seconds
pub fn subst_ims(v: &[u8], t0: u64) -> Vec<u8> {
    if v.len() > 3 && &v[..2] == b"@T" && (v[2] == b'+' || v[2] == b'-') {
        if let Ok(k) = std::str::from_utf8(&v[3..]).unwrap_or("x").parse::<i64>() {
            let t = t0 as i64 + if v[2] == b'+' { k } else { -k };
            return http_date(t).into_bytes();
        }
    }
    v.to_vec()
}

pub fn canon_body(b: &[u8]) -> Vec<u8> {
    if b.starts_with(b"<!DOCTYPE html><html><head><meta name='color-scheme' content='dark light'><title>") {
        b"ERRPAGE".to_vec()
    } else {
        b.to_vec()
    }
}

pub fn make_request(host_name: &str, method: &[u8], target: &[u8], headers: &[X], body: &[u8]) -> Option<FatRequest> {
    let mut uri = Vec::new();
    let mut authority = host_name.as_bytes().to_vec();
    for h in headers {
        let p = h.as_l()?;
        if p[0].as_b()?.eq_ignore_ascii_case(b"host") {
            authority = p[1].as_b()?.to_vec();
        }
    }
    uri.extend_from_slice(b"http://");
    uri.extend_from_slice(&authority);
    uri.extend_from_slice(target);
    let mut b = Request::builder().method(Method::from_bytes(method).ok()?).uri(Uri::try_from(&uri[..]).ok()?);
    for h in headers {
        let p = h.as_l()?;
        b = b.header(HeaderName::from_bytes(p[0].as_b()?).ok()?, HeaderValue::from_bytes(p[1].as_b()?).ok()?);
    }
    b.body(kvarn::application::Body::Bytes(Bytes::copy_from_slice(body).into())).ok()
}

pub fn report_headers(resp_headers: &HeaderMap, report: &[String]) -> X {
    let mut out = Vec::new();
    for name in report {
        // "name" -> value, "?name" -> presence only
        let (n, presence) = match name.strip_prefix('?') {
            Some(n) => (n, true),
            None => (name.as_str(), false),
        };
        if let Some(v) = resp_headers.get(n) {
            out.push(X::L(vec![X::b(n), if presence { X::b("") } else { X::b(v.as_bytes()) }]));
        }
    }
    X::L(out)
}

pub async fn run_ops(b: &Built, ops: &[X]) -> Option<Vec<X>> {
    let host = b.hosts.get_host(&b.host_name)?;
    let mut out = Vec::new();
    {
        // scenario start: optionally wait until the wall clock's sub-second part equals `phase` ms
        let now = || std::time::SystemTime::now().duration_since(std::time::UNIX_EPOCH).unwrap();
        if let Some(phase) = b.align {
            let n = now();
            let frac = n.subsec_millis() as u64;
            let wait = (phase + 1000 - frac) % 1000;
            tokio::time::sleep(Duration::from_millis(wait)).await;
        }
        b.t0.store(now().as_secs(), std::sync::atomic::Ordering::SeqCst);
    }
    for op in ops {
        let l = op.as_l()?;
        match l[0].as_n()? {
            0 => {
                let addr = sockaddr(l[1].as_n()?);
                let t0 = b.t0.load(std::sync::atomic::Ordering::SeqCst);
                let hdrs: Vec<X> = l[4]
                    .as_l()?
                    .iter()
                    .map(|h| match h.as_l() {
                        Some([n, v]) if n.as_b() == Some(b"if-modified-since") => {
                            X::L(vec![n.clone(), X::b(subst_ims(v.as_b().unwrap_or(b""), t0))])
                        }
                        _ => h.clone(),
                    })
                    .collect();
                let mut req = match make_request(&b.host_name, l[2].as_b()?, l[3].as_b()?, &hdrs, l[5].as_b()?) {
                    Some(r) => r,
                    None => {
                        out.push(X::L(vec![X::N(96)]));
                        continue;
                    }
                };
                b.shared.log.lock().unwrap().clear();
                let reply = kvarn::handle_cache(&mut req, addr, host).await;
                let log: Vec<X> = b.shared.log.lock().unwrap().iter().map(X::b).collect();
                let enc = reply.response.headers().get("content-encoding").map(|v| v.as_bytes().to_vec());
                let (decoded, ok) = decode_body(enc.as_deref(), reply.response.body());
                out.push(X::L(vec![
                    X::n(reply.response.status().as_u16()),
                    report_headers(reply.response.headers(), &b.report),
                    X::b(canon_body(&decoded)),
                    X::bool(ok),
                    X::b(canon_body(&reply.identity_body)),
                    X::L(log),
                ]));
            }
            1 => {
                let uri = Uri::try_from(l[1].as_b()?).ok()?;
                let (found, cleared) = b.hosts.clear_page(&b.host_name, &uri);
                out.push(X::L(vec![X::bool(found), X::bool(cleared)]));
            }
            2 => {
                b.hosts.clear_response_caches(None).await;
                out.push(X::L(vec![]));
            }
            3 => {
                tokio::time::sleep(Duration::from_millis(l[1].as_n()? as u64)).await;
                out.push(X::L(vec![]));
            }
            _ => return None,
        }
    }
    Some(out)
}

pub fn block_on<F: std::future::Future>(f: F) -> F::Output {
    tokio::runtime::Builder::new_current_thread().enable_all().build().unwrap().block_on(f)
}

pub fn run_scenario(x: &X, customize: Option<&Customize>) -> X {
    let l = match x.as_l() {
        Some(l) if l.len() == 2 => l,
        _ => return X::bad(),
    };
    let built = match build_host(&l[0], customize) {
        Some(b) => b,
        None => return X::bad(),
    };
    let ops = match l[1].as_l() {
        Some(o) => o,
        None => return X::bad(),
    };
    let res = block_on(run_ops(&built, ops));
    if let Some(d) = &built.dir {
        let _ = std::fs::remove_dir_all(d);
    }
    match res {
        Some(v) => X::L(v),
        None => X::bad(),
    }
}

pub fn dispatch(comp: &str, x: &X) -> Option<X> {
    Some(match comp {
        "pipe.run" => run_scenario(x, None),
        _ => return None,
    })
}
