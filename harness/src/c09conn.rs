//! C09 (connection level): `Range` requests through the **full send path**.
//! A real `Host` (handler-backed page or a file, response cache on/off, server cache preference
//! Full/None, compression on/off) is served by `kvarn::handle_connection` on a loopback TCP pair;
//! a raw HTTP/1.1 client sends a history of GET/HEAD requests (with/without `Range`, with an
//! `Accept-Encoding` class) on ONE connection and reads the framed responses.
//!
//! range.conn  input : (L checked (L cache_on pref_full compress kind [status]) body reprs (L (L method ae (L range ...) [ims]) ...))
//!             output: (L (N 0) (L reply ...)),  reply = (L (N 416)) | (L status (L [content-range]) content-length
//!                                                                      (L [content-encoding]) accept-ranges body)
//!             (`checked` and `reprs` are for the model only: the arithmetic of this binary and the
//!              representations an un-ranged GET receives, as observed by `range.repr`)
//!             kind   : 0 handler page (answers `status`, default 200), 1 file read by kvarn, 2 file streamed by
//!                      `extensions::stream_body()` (prepare_fn for every path below /f), 3 handler page requested as
//!                      /p?x=1 with ServerCachePreference::QueryMatters (cache entry keyed by path and query), 4 handler
//!                      page with a vary rule on `accept-language` (request field `lang`, see below)
//!             method : 0 GET, 1 HEAD, 2 POST (content-length: 0)
//!             range  : the values of the `Range` header LINES of the request, in order (none, one, several)
//!             a request may have a 5th field `lang`: 0 no `Accept-Language`, n > 0 `Accept-Language: l<n>` (kind 4: a
//!                      cached page that has no variant for this value goes through `handle_vary_missing`)
//!             ims    : 0 none, 1 `If-Modified-Since` in the year 2100 (the client's copy is fresh), 2 in the year 1990 (stale)
//! range.repr  input : (L (L cache_on pref_full compress kind [status]) body)
//!             output: (L (L (L [content-encoding]) body decodes) ...) for the Accept-Encoding classes 0..5 — each from a
//!                     fresh host and a fresh connection, one GET without Range; `decodes` = the body, decoded by a standard
//!                     decoder for that content-encoding, is the page's body
use crate::c00pipe;
use crate::xval::X;
use kvarn::prelude::*;
use std::sync::{Arc, OnceLock};
use std::time::Duration;

const OOD: u128 = 96;
const T: Duration = Duration::from_secs(10);
/// Read timeouts seen by this process.  A correct server never makes a read time out (a loaded machine may, rarely:
/// `run_history` tries again); after six of them the remaining exchanges wait 3 s instead of 10 s so that a broken
/// framing is reported in minutes.
static TIMEOUTS: std::sync::atomic::AtomicU32 = std::sync::atomic::AtomicU32::new(0);
fn read_timeout() -> Duration {
    if TIMEOUTS.load(std::sync::atomic::Ordering::Relaxed) >= 6 {
        Duration::from_secs(3)
    } else {
        T
    }
}
fn timed_out(what: &'static str) -> std::io::Error {
    TIMEOUTS.fetch_add(1, std::sync::atomic::Ordering::Relaxed);
    ioerr(std::io::ErrorKind::TimedOut, what)
}
const SENTINEL: &[u8] = b"SENTINEL-OK";

fn rt() -> &'static tokio::runtime::Runtime {
    static RT: OnceLock<tokio::runtime::Runtime> = OnceLock::new();
    RT.get_or_init(|| {
        tokio::runtime::Builder::new_multi_thread()
            .worker_threads(2)
            .enable_all()
            .build()
            .expect("tokio runtime")
    })
}

#[derive(Clone, Copy)]
struct Cfg {
    cache_on: bool,
    pref_full: bool,
    compress: bool,
    kind: u128,
    status: u16,
}

fn parse_cfg(x: &X) -> Option<Cfg> {
    let l = x.as_l()?;
    if l.len() != 4 && l.len() != 5 {
        return None;
    }
    let status = match l.get(4) {
        None => 200,
        Some(s) => u16::try_from(s.as_n()?).ok().filter(|s| (200..600).contains(s))?,
    };
    Some(Cfg { cache_on: l[0].as_bool()?, pref_full: l[1].as_bool()?, compress: l[2].as_bool()?, kind: l[3].as_n()?, status })
}

fn kvp(k: &str, v: X) -> X {
    X::L(vec![X::b(k), v])
}

/// (L path kind status body headers spref maxage cpref compress tuple) of `c00pipe::parse_handler`
fn handler(path: &str, status: u16, body: &[u8], spref: u128, compress: bool) -> X {
    X::L(vec![
        X::b(path),
        X::N(0),
        X::n(status),
        X::b(body),
        X::L(vec![X::L(vec![X::b("content-type"), X::b("text/plain")])]),
        X::N(spref),
        X::N(0),
        X::N(0),
        X::bool(compress),
        X::L(vec![]),
    ])
}

fn build(cfg: Cfg, body: &[u8]) -> Option<(c00pipe::Built, &'static [u8])> {
    let mut kv = vec![kvp("cache", X::bool(cfg.cache_on))];
    let mut handlers = vec![handler("/s", 200, SENTINEL, 0, false)];
    let target: &'static [u8] = match cfg.kind {
        0 | 4 => {
            handlers.push(handler("/p", cfg.status, body, if cfg.pref_full { 2 } else { 0 }, cfg.compress));
            if cfg.kind == 4 {
                // (L (L path (L (L name xform default) ...)) ...): the lower-cased value of accept-language selects the variant
                kv.push(kvp(
                    "vary",
                    X::L(vec![X::L(vec![X::b("/p"), X::L(vec![X::L(vec![X::b("accept-language"), X::N(0), X::b("none")])])])]),
                ));
            }
            b"/p"
        }
        3 => {
            handlers.push(handler("/p", cfg.status, body, if cfg.pref_full { 1 } else { 0 }, cfg.compress));
            b"/p?x=1"
        }
        1 | 2 => {
            kv.push(kvp("files", X::L(vec![X::L(vec![X::b("public/f.txt"), X::b(body)])])));
            b"/f.txt"
        }
        _ => return None,
    };
    kv.push(kvp("handlers", X::L(handlers)));
    let stream = |_: &[(String, X)], host: &mut Host, _: &Arc<c00pipe::Shared>| {
        host.extensions.add_prepare_fn(
            Box::new(|req, _| req.uri().path().starts_with("/f")),
            kvarn::extensions::stream_body(),
            kvarn::extensions::Id::new(16, "verif: stream everything below /f"),
        );
    };
    c00pipe::build_host(&X::L(kv), if cfg.kind == 2 { Some(&stream) } else { None }).map(|b| (b, target))
}

#[derive(Debug)]
struct Reply {
    status: u16,
    content_range: Option<Vec<u8>>,
    content_length: Option<u64>,
    content_encoding: Option<Vec<u8>>,
    accept_ranges: bool,
    body: Vec<u8>,
}

struct Client {
    stream: Option<tokio::net::TcpStream>,
    desc: Arc<PortDescriptor>,
    /// bytes received after the end of the previous response (must stay empty: a HEAD reply has no body)
    pending: Vec<u8>,
}

fn ioerr(kind: std::io::ErrorKind, what: &'static str) -> std::io::Error {
    std::io::Error::new(kind, what)
}

impl Client {
    async fn connect(&mut self) -> std::io::Result<()> {
        // one listener per process (the histories of a process run one after the other): a listener per connection
        // uses up the ephemeral ports of a busy machine
        static LISTENER: OnceLock<tokio::net::TcpListener> = OnceLock::new();
        let listener = match LISTENER.get() {
            Some(l) => l,
            None => {
                let l = tokio::net::TcpListener::bind("127.0.0.1:0").await?;
                LISTENER.get_or_init(|| l)
            }
        };
        let addr = listener.local_addr()?;
        let client = tokio::net::TcpStream::connect(addr).await?;
        let local = client.local_addr()?;
        let (server_end, peer) = loop {
            // (a stale connection attempt of an earlier, failed exchange is skipped)
            let (s, peer) = listener.accept().await?;
            if peer == local {
                break (s, peer);
            }
        };
        let desc = self.desc.clone();
        tokio::spawn(async move {
            let _ = kvarn::handle_connection(kvarn::Incoming::Tcp(server_end), peer, desc, || true).await;
        });
        self.stream = Some(client);
        self.pending.clear();
        Ok(())
    }

    /// Sends one request, reads one framed response.
    #[allow(clippy::too_many_arguments)]
    async fn exchange(&mut self, method: u8, target: &[u8], ae: Option<&[u8]>, ranges: &[Vec<u8>], ims: u8, lang: u8) -> std::io::Result<Reply> {
        let head = method == 1;
        use tokio::io::{AsyncReadExt, AsyncWriteExt};
        if self.stream.is_none() {
            self.connect().await?;
        }
        let s = self.stream.as_mut().unwrap();
        let mut req = Vec::new();
        req.extend_from_slice(match method {
            1 => b"HEAD ",
            2 => b"POST ",
            _ => b"GET ",
        });
        req.extend_from_slice(target);
        req.extend_from_slice(b" HTTP/1.1\r\nHost: localhost\r\n");
        if let Some(ae) = ae {
            req.extend_from_slice(b"Accept-Encoding: ");
            req.extend_from_slice(ae);
            req.extend_from_slice(b"\r\n");
        }
        if method == 2 {
            req.extend_from_slice(b"Content-Length: 0\r\n");
        }
        if lang > 0 {
            req.extend_from_slice(format!("Accept-Language: l{lang}\r\n").as_bytes());
        }
        for r in ranges {
            req.extend_from_slice(b"Range: ");
            req.extend_from_slice(r);
            req.extend_from_slice(b"\r\n");
        }
        match ims {
            1 => req.extend_from_slice(b"If-Modified-Since: Fri, 01 Jan 2100 00:00:00 GMT\r\n"),
            2 => req.extend_from_slice(b"If-Modified-Since: Mon, 01 Jan 1990 00:00:00 GMT\r\n"),
            _ => {}
        }
        req.extend_from_slice(b"\r\n");
        s.write_all(&req).await?;

        let mut buf = std::mem::take(&mut self.pending);
        let mut tmp = [0u8; 4096];
        let head_end;
        loop {
            if let Some(p) = buf.windows(4).position(|w| w == b"\r\n\r\n") {
                head_end = p + 4;
                break;
            }
            let n = match tokio::time::timeout(read_timeout(), s.read(&mut tmp)).await {
                Ok(Ok(n)) => n,
                Ok(Err(e)) => return Err(e),
                Err(_) => return Err(timed_out("no response head")),
            };
            if n == 0 {
                self.stream = None;
                return Err(ioerr(std::io::ErrorKind::UnexpectedEof, "closed before the end of the response head"));
            }
            buf.extend_from_slice(&tmp[..n]);
        }
        let head_txt = &buf[..head_end - 4];
        let mut lines = head_txt.split(|&c| c == b'\n').map(|l| l.strip_suffix(b"\r").unwrap_or(l));
        let status_line = lines.next().unwrap_or(b"");
        // strict: any stray byte before the status line (e.g. a body after a HEAD reply) is a framing error
        if status_line.len() < 12 || &status_line[..9] != b"HTTP/1.1 " || !status_line[9..12].iter().all(u8::is_ascii_digit) {
            self.stream = None;
            return Err(ioerr(std::io::ErrorKind::InvalidData, "bad status line"));
        }
        let status: u16 = std::str::from_utf8(&status_line[9..12]).unwrap().parse().unwrap();
        let mut r = Reply { status, content_range: None, content_length: None, content_encoding: None, accept_ranges: false, body: Vec::new() };
        let mut close = false;
        for l in lines {
            let Some(colon) = l.iter().position(|&c| c == b':') else { continue };
            let name = l[..colon].to_ascii_lowercase();
            let mut v = &l[colon + 1..];
            while let [b' ' | b'\t', rest @ ..] = v {
                v = rest;
            }
            match &name[..] {
                b"content-range" => {
                    if r.content_range.is_some() {
                        return Err(ioerr(std::io::ErrorKind::InvalidData, "two content-range headers"));
                    }
                    r.content_range = Some(v.to_vec())
                }
                b"content-length" => {
                    let n = std::str::from_utf8(v).ok().and_then(|s| s.parse::<u64>().ok());
                    if r.content_length.is_some() || n.is_none() {
                        return Err(ioerr(std::io::ErrorKind::InvalidData, "bad content-length"));
                    }
                    r.content_length = n;
                }
                b"content-encoding" => r.content_encoding = Some(v.to_vec()),
                b"accept-ranges" => r.accept_ranges = v == b"bytes",
                b"connection" => close = v.eq_ignore_ascii_case(b"close"),
                b"transfer-encoding" => return Err(ioerr(std::io::ErrorKind::InvalidData, "unexpected transfer-encoding")),
                _ => {}
            }
        }
        let want = if head { 0 } else { r.content_length.ok_or_else(|| ioerr(std::io::ErrorKind::InvalidData, "no content-length"))? as usize };
        while buf.len() < head_end + want {
            let n = match tokio::time::timeout(read_timeout(), s.read(&mut tmp)).await {
                Ok(Ok(n)) => n,
                Ok(Err(e)) => return Err(e),
                Err(_) => return Err(timed_out("body shorter than content-length")),
            };
            if n == 0 {
                self.stream = None;
                return Err(ioerr(std::io::ErrorKind::UnexpectedEof, "closed inside the body"));
            }
            buf.extend_from_slice(&tmp[..n]);
        }
        r.body = buf[head_end..head_end + want].to_vec();
        self.pending = buf[head_end + want..].to_vec();
        if close {
            self.stream = None;
        }
        Ok(r)
    }
}

fn ae_text(ae: u128) -> Option<Option<&'static [u8]>> {
    Some(match ae {
        0 => None,
        1 => Some(b"gzip"),
        2 => Some(b"identity"),
        3 => Some(b"br"),
        4 => Some(b"zstd"),
        5 => Some(b"deflate"),
        _ => return None,
    })
}

fn x_reply(r: &Reply) -> X {
    if r.status == 416 {
        return X::L(vec![X::N(416)]);
    }
    X::L(vec![
        X::n(r.status),
        X::opt(r.content_range.as_ref().map(X::b)),
        X::n(r.content_length.unwrap_or(u64::MAX)),
        X::opt(r.content_encoding.as_ref().map(X::b)),
        X::bool(r.accept_ranges),
        X::b(&r.body),
    ])
}

fn fail(code: u128, idx: usize, what: String) -> X {
    X::L(vec![X::N(code), X::n(idx), X::b(what)])
}

struct Req {
    /// 0 GET, 1 HEAD, 2 POST
    method: u8,
    ae: Option<&'static [u8]>,
    /// the `Range` header lines of the request
    ranges: Vec<Vec<u8>>,
    /// `If-Modified-Since`: 0 none, 1 far in the future, 2 far in the past
    ims: u8,
    /// `Accept-Language: l<lang>` (0: none)
    lang: u8,
}

/// A read timeout is, almost always, the machine (load), not the code: the history is run again on a fresh host, up to
/// three times.  What times out three times at the same place stays code 93 (harness trouble: the runner retries it in
/// another process and then counts it as not executed) — except a body that stays shorter than its content-length
/// three times: that is what the server did (code 94, a result).
fn run_history(cfg: Cfg, body: &[u8], reqs: &[Req]) -> X {
    let mut last = X::bad();
    let mut short = 0;
    for _ in 0..3 {
        last = run_history_once(cfg, body, reqs);
        let what = match last.as_l() {
            Some([X::N(93), _, X::B(w)]) => w.clone(),
            _ => return last,
        };
        if !what.starts_with(b"TimedOut") {
            return last;
        }
        if what.ends_with(b"body shorter than content-length") {
            short += 1;
        }
    }
    if short == 3 {
        if let X::L(l) = &mut last {
            l[0] = X::N(94);
        }
    }
    last
}

fn run_history_once(cfg: Cfg, body: &[u8], reqs: &[Req]) -> X {
    let (built, target) = match build(cfg, body) {
        Some(b) => b,
        None => return X::bad(),
    };
    let desc = Arc::new(PortDescriptor::unsecure(8080, built.hosts.clone()));
    let out = rt().block_on(async move {
        let mut client = Client { stream: None, desc, pending: Vec::new() };
        let mut out = Vec::new();
        for (i, q) in reqs.iter().enumerate() {
            match client.exchange(q.method, target, q.ae, &q.ranges, q.ims, q.lang).await {
                Ok(r) => {
                    // framing of a GET reply: exactly content-length bytes were read; of every reply: the header is there
                    if r.content_length.is_none() {
                        return fail(94, i, "no content-length".into());
                    }
                    out.push(x_reply(&r))
                }
                // what the server sent is not a framed HTTP/1.1 response (stray bytes, e.g. a body after a HEAD reply; a
                // connection closed inside a response): a result (94).  Everything else (time-outs, socket trouble) is
                // harness trouble (93): retried, then counted as not executed.
                Err(e) if matches!(e.kind(), std::io::ErrorKind::InvalidData | std::io::ErrorKind::UnexpectedEof) => {
                    return fail(94, i, format!("{:?}: {}", e.kind(), e))
                }
                Err(e) => return fail(93, i, format!("{:?}: {}", e.kind(), e)),
            }
        }
        match client.exchange(0, b"/s", None, &[], 0, 0).await {
            Ok(r) if r.status == 200 && r.body == SENTINEL && client.pending.is_empty() => {}
            Ok(r) => return fail(92, reqs.len(), format!("sentinel reply {} {:?}", r.status, String::from_utf8_lossy(&r.body))),
            Err(e) if e.kind() == std::io::ErrorKind::TimedOut => return fail(93, reqs.len(), format!("TimedOut: sentinel: {e}")),
            Err(e) => return fail(92, reqs.len(), format!("sentinel {:?}: {}", e.kind(), e)),
        }
        X::ok(X::L(out))
    });
    if let Some(d) = &built.dir {
        let _ = std::fs::remove_dir_all(d);
    }
    out
}

fn conn(x: &X) -> X {
    let l = match x.as_l() {
        Some(l) if l.len() == 5 => l,
        _ => return X::bad(),
    };
    let (cfg, body, rs) = match (parse_cfg(&l[1]), l[2].as_b(), l[4].as_l()) {
        (Some(c), Some(b), Some(r)) => (c, b, r),
        _ => return X::bad(),
    };
    let mut reqs = Vec::new();
    for r in rs {
        let q = match r.as_l() {
            Some(q) if (3..=5).contains(&q.len()) => q,
            _ => return X::bad(),
        };
        let (m, ae, hs) = match (q[0].as_n(), q[1].as_n().and_then(ae_text), q[2].as_l()) {
            (Some(m @ (0 | 1 | 2)), Some(ae), Some(hs)) => (m as u8, ae, hs),
            _ => return X::bad(),
        };
        let ims = match q.get(3).map(X::as_n) {
            None => 0,
            Some(Some(i @ (0 | 1 | 2))) => i as u8,
            _ => return X::bad(),
        };
        let mut ranges = Vec::new();
        for v in hs {
            let v = match v.as_b() {
                Some(v) => v,
                None => return X::bad(),
            };
            // only values that travel unchanged through a HTTP/1.1 header line
            let edge_ws = |c: Option<&u8>| matches!(c, Some(b' ' | b'\t'));
            if http::HeaderValue::from_bytes(v).is_err() || edge_ws(v.first()) || edge_ws(v.last()) {
                return X::L(vec![X::N(OOD)]);
            }
            ranges.push(v.to_vec());
        }
        let lang = match q.get(4).map(X::as_n) {
            None => 0,
            Some(Some(l)) if l < 10 => l as u8,
            _ => return X::bad(),
        };
        reqs.push(Req { method: m, ae, ranges, ims, lang });
    }
    run_history(cfg, body, &reqs)
}

fn repr(x: &X) -> X {
    let l = match x.as_l() {
        Some(l) if l.len() == 2 => l,
        _ => return X::bad(),
    };
    let (cfg, body) = match (parse_cfg(&l[0]), l[1].as_b()) {
        (Some(c), Some(b)) => (c, b),
        _ => return X::bad(),
    };
    let mut out = Vec::new();
    for ae in 0..6u128 {
        let r = run_history(cfg, body, &[Req { method: 0, ae: ae_text(ae).unwrap(), ranges: vec![], ims: 0, lang: 0 }]);
        // (L (N 0) (L (L status (L) len (L [enc]) ar body)))
        let rep = r.as_l().filter(|l| l.len() == 2 && l[0] == X::N(0)).and_then(|l| l[1].as_l()).and_then(|l| l.first()).and_then(X::as_l);
        match rep {
            Some(f) if f.len() == 6 && f[0] == X::n(cfg.status) && f[1] == X::L(vec![]) => {
                let enc = f[3].as_opt().flatten().and_then(X::as_b);
                let (dec, ok) = c00pipe::decode_body(enc, f[5].as_b().unwrap_or(b""));
                out.push(X::L(vec![f[3].clone(), f[5].clone(), X::bool(ok && dec == body)]))
            }
            _ => return X::L(vec![X::N(91), X::n(ae), r]),
        }
    }
    X::L(out)
}

/// Probe outside the model: (L cfg body range) -> replies to [GET; GET + If-Modified-Since(future) + Range; GET + If-Modified-Since(future)]
fn ims(x: &X) -> X {
    let l = match x.as_l() {
        Some(l) if l.len() == 3 => l,
        _ => return X::bad(),
    };
    let (cfg, body, range) = match (parse_cfg(&l[0]), l[1].as_b(), l[2].as_b()) {
        (Some(c), Some(b), Some(r)) => (c, b, r),
        _ => return X::bad(),
    };
    run_history(
        cfg,
        body,
        &[
            Req { method: 0, ae: None, ranges: vec![], ims: 0, lang: 0 },
            Req { method: 0, ae: None, ranges: vec![range.to_vec()], ims: 1, lang: 0 },
            Req { method: 0, ae: None, ranges: vec![], ims: 1, lang: 0 },
        ],
    )
}

pub fn dispatch(comp: &str, x: &X) -> Option<X> {
    Some(match comp {
        "range.conn" => conn(x),
        "range.repr" => repr(x),
        "range.ims" => ims(x),
        _ => return None,
    })
}
