//! C18: `kvarn::read::{file, file_cached, file_cached_with_mtime}` over a history of file changes, through one real
//! `FileCache` or past it (the functions kvarn itself calls: lib.rs, error.rs, templates, php).
//! Runs under the poisoning allocator of c18.rs, twice.
use crate::xval::X;
use std::path::PathBuf;

fn runtime() -> tokio::runtime::Runtime {
    tokio::runtime::Builder::new_current_thread().enable_all().build().expect("runtime")
}

fn trouble(what: &str, e: impl std::fmt::Display) -> X {
    // trouble of the harness (scratch directory), not an answer of kvarn: run again by the driver, then "not executed"
    X::L(vec![X::N(93), X::b(format!("{what}: {e}"))])
}

/// input: (L (L op...) junk)
///   (L (N 0) (N p) (B content) (N mtime))   write file p, set its modification time to 1_000_000_000 + mtime seconds
///   (L (N 1) (N p))                          remove it (file or directory)
///   (L (N 2) (N p) (N mtime))                make p a directory (it opens; reading it fails)
///   (L (N 3) (N variant) (N p) (N cached))   variant 0 `file`, 1 `file_cached`, 2 `file_cached_with_mtime`;
///                                            cached 1 = `Some(&cache)` (one `FileCache` per case), 0 = `None`
///   (L (N 4) (N p) (B path) (B content))     p stands for `path`, a file this harness did not make (procfs: length 0 in the
///                                            metadata); `content` is what the generator saw in it
/// output: Ok (L answer...) one per read: (L) = None | (L (B bytes)) | (L (B bytes) (N mtime - 1_000_000_000))
fn files_once(x: &X) -> X {
    use std::sync::atomic::{AtomicUsize, Ordering};
    static SEQ: AtomicUsize = AtomicUsize::new(0);
    const EPOCH: u64 = 1_000_000_000;
    let l = match x.as_l() { Some(l) if l.len() == 2 => l, _ => return X::bad() };
    let ops = match l[0].as_l() { Some(o) => o, None => return X::bad() };
    let dir = std::path::Path::new(env!("CARGO_MANIFEST_DIR")).parent().expect("verif dir").join(".run")
        .join(format!("c18f-{}-{}", std::process::id(), SEQ.fetch_add(1, Ordering::Relaxed)));
    let _ = std::fs::remove_dir_all(&dir);
    if let Err(e) = std::fs::create_dir_all(&dir) {
        return trouble("create_dir_all", e);
    }
    let mut external: std::collections::HashMap<u128, PathBuf> = Default::default();
    let path_of = |external: &std::collections::HashMap<u128, PathBuf>, p: u128| -> PathBuf {
        external.get(&p).cloned().unwrap_or_else(|| dir.join(format!("f{p}")))
    };
    let set_mtime = |path: &PathBuf, m: u128| -> std::io::Result<()> {
        let t = std::time::UNIX_EPOCH + std::time::Duration::from_secs(EPOCH + m as u64);
        std::fs::File::open(path)?.set_modified(t)
    };
    let clear = |path: &PathBuf| {
        let _ = std::fs::remove_file(path);
        let _ = std::fs::remove_dir_all(path);
    };
    let cache = kvarn::comprash::FileCache::default();
    let rt = runtime();
    let mut out = Vec::new();
    let mut res = None;
    for op in ops {
        let op = match op.as_l() { Some(o) => o, None => return X::bad() };
        match op {
            [X::N(0), X::N(p), X::B(content), X::N(m)] => {
                let path = path_of(&external, *p);
                if external.contains_key(p) {
                    return X::bad();
                }
                clear(&path);
                if let Err(e) = std::fs::write(&path, content).and_then(|()| set_mtime(&path, *m)) {
                    res = Some(trouble("write", e));
                    break;
                }
            }
            [X::N(1), X::N(p)] => {
                if external.remove(p).is_none() {
                    clear(&path_of(&external, *p));
                }
            }
            [X::N(2), X::N(p), X::N(m)] => {
                let path = path_of(&external, *p);
                if external.contains_key(p) {
                    return X::bad();
                }
                clear(&path);
                if let Err(e) = std::fs::create_dir(&path).and_then(|()| set_mtime(&path, *m)) {
                    res = Some(trouble("mkdir", e));
                    break;
                }
            }
            [X::N(3), X::N(v), X::N(p), c] => {
                let cached = match c.as_bool() { Some(c) => c, None => return X::bad() };
                let path = path_of(&external, *p).to_string_lossy().to_string();
                let c = if cached { Some(&cache) } else { None };
                let is_external = external.contains_key(p);
                let a = match v {
                    0 => rt.block_on(kvarn::read::file(&path, c)).map(|b| vec![X::b(&b[..])]),
                    1 => rt.block_on(kvarn::read::file_cached(&path, c)).map(|b| vec![X::b(&b[..])]),
                    2 => rt.block_on(kvarn::read::file_cached_with_mtime(&path, c)).map(|(b, t)| {
                        // the modification time of a file this harness did not make is not the model's business
                        let secs = if is_external { 0 } else { (t.unix_timestamp() as i128 - EPOCH as i128).max(0) as u128 };
                        vec![X::b(&b[..]), X::N(secs)]
                    }),
                    _ => return X::bad(),
                };
                out.push(X::L(a.unwrap_or_default()));
            }
            [X::N(4), X::N(p), X::B(path), X::B(content)] => {
                let path = PathBuf::from(String::from_utf8_lossy(path).to_string());
                // the generator's view of the file must still hold, or the case says nothing
                match std::fs::read(&path) {
                    Ok(now) if &now == content => {}
                    _ => {
                        res = Some(X::L(vec![X::N(96), X::b(b"external file changed or unreadable")]));
                        break;
                    }
                }
                external.insert(*p, path);
            }
            _ => return X::bad(),
        }
    }
    drop(rt);
    let _ = std::fs::remove_dir_all(&dir);
    res.unwrap_or_else(|| X::ok(X::L(out)))
}

pub fn dispatch(comp: &str, x: &X) -> Option<X> {
    Some(match comp {
        "buf.files" => crate::c18::twice(|| files_once(x)),
        _ => return None,
    })
}
