//! C07 over a real loopback connection (the kernel decides the segmentation, the client only suggests one):
//!
//! `h1.accept`: the real `HttpConnection::accept` (application.rs) on the server end of a loopback TCP pair, so the
//! head limit (16 KiB), the per-read time-out (5 s), the scheme and the glue of `parse_http_1`
//! (`get_body_length_request`, `Http1Body::new(stream, early bytes, length)`) are the code's own; the body is read through
//! `Body::read_to_bytes(limit)` as a handler does.
//! `h1.echo`: the same bytes sent to `kvarn::handle_connection` with a host whose only extension answers every request
//! with what the handler saw (request fields and the body), so the body handed to handlers is observed end to end.
//!
//! input  h1.accept: (L (L [default_host]) (L step..) (N limit) (N end) [request]); h1.echo: (L (L step..) (N limit) (N end) [request])
//!        (the structured request the bytes were printed from is used by the specification only)
//!        step = (B bytes): write + flush, then a pause of 1 ms | (N ms): pause; end = 0: the client shuts its write side
//!        down after the steps, 1: it stays silent with the connection open
//! output (L outcome (N elapsed ms)), outcome = (L (N 0) (L method path (L [query]) version headers (L [authority]) body_outcome))
//!        | (L (N 1) (N error class)) | (L (N 3)) = no result within HANG_S seconds (a hang);
//!        h1.echo: (L (N 1) (N 0)) = connection closed without a response, (L (N 4) (N status)) = another response
//!        | (L (N 3) (N 3)) = the case did not come back from its worker thread within HARD_LIMIT (twice): code that neither
//!        returns nor yields, which the timers above cannot see
//!
//! Every case runs on a worker thread with a runtime of its own (`crate::c07::on_worker`): a case that is stuck keeps its
//! thread and its runtime, and the cases after it get new ones.
use crate::xval::X;
use kvarn::prelude::*;
use std::sync::Arc;
use std::time::{Duration, Instant};
use tokio::io::{AsyncReadExt, AsyncWriteExt};

/// kvarn gives up on a head after 5 s without a byte; three times that and more is a hang.
const HANG_S: u64 = 20;
pub const ECHO_HOST: &str = "echo.host";

/// The longest a case can take by itself: HANG_S for the head, 10 s for a body that does not arrive, the pauses of the
/// script (seconds at most in what the generators write); three times that.
const HARD_LIMIT: Duration = Duration::from_secs(120);

thread_local! {
    /// one runtime per worker thread (see the module text)
    static RT: tokio::runtime::Runtime =
        tokio::runtime::Builder::new_multi_thread().worker_threads(2).enable_all().build().expect("tokio runtime");
}
fn block_on<F: std::future::Future>(f: F) -> F::Output {
    RT.with(|rt| rt.block_on(f))
}
static POOL: std::sync::Mutex<Option<crate::c07::Worker>> = std::sync::Mutex::new(None);

fn trouble(msg: &str) -> X {
    X::L(vec![X::N(93), X::b(msg)])
}

#[derive(Clone)]
enum Step {
    Write(Vec<u8>),
    Sleep(u64),
}
fn steps_of(x: &X) -> Option<Vec<Step>> {
    x.as_l()?
        .iter()
        .map(|s| match s {
            X::B(b) => Some(Step::Write(b.clone())),
            X::N(ms) if *ms <= 10_000 => Some(Step::Sleep(*ms as u64)),
            _ => None,
        })
        .collect()
}

async fn pair() -> std::io::Result<(tokio::net::TcpStream, tokio::net::TcpStream, std::net::SocketAddr)> {
    let listener = tokio::net::TcpListener::bind("127.0.0.1:0").await?;
    let addr = listener.local_addr()?;
    let client = tokio::net::TcpStream::connect(addr).await?;
    let (server, peer) = listener.accept().await?;
    client.set_nodelay(true)?;
    Ok((client, server, peer))
}

/// The client's side of the script; write errors (the server has given up and closed) end it silently.
async fn play(wr: &mut tokio::net::tcp::OwnedWriteHalf, steps: &[Step], end: u128) {
    for s in steps {
        match s {
            Step::Write(b) => {
                if wr.write_all(b).await.is_err() || wr.flush().await.is_err() {
                    return;
                }
                tokio::time::sleep(Duration::from_millis(1)).await;
            }
            Step::Sleep(ms) => tokio::time::sleep(Duration::from_millis(*ms)).await,
        }
    }
    if end == 0 {
        let _ = wr.shutdown().await;
    }
}

fn parse_error_class(e: &kvarn_utils::parse::Error) -> u128 {
    use kvarn_utils::parse::Error::*;
    match e {
        Http(_) => 1,
        NoPath => 2,
        UnexpectedEnd => 3,
        HeaderTooLong => 4,
        InvalidPath => 5,
        InvalidMethod => 6,
        InvalidVersion => 7,
        InvalidStatusCode => 8,
        Syntax => 9,
        IllegalName => 10,
        IllegalValue => 11,
        NoHost => 12,
    }
}

fn header_list(h: &HeaderMap) -> X {
    let mut v: Vec<(Vec<u8>, Vec<u8>)> = h.iter().map(|(n, v)| (n.as_str().as_bytes().to_vec(), v.as_bytes().to_vec())).collect();
    v.sort();
    X::L(v.into_iter().map(|(n, v)| X::L(vec![X::B(n), X::B(v)])).collect())
}

fn version_code(v: Version) -> u128 {
    match v {
        Version::HTTP_09 => 9,
        Version::HTTP_10 => 10,
        Version::HTTP_11 => 11,
        Version::HTTP_2 => 20,
        Version::HTTP_3 => 30,
        _ => 0,
    }
}

fn io_class(e: &std::io::Error) -> u128 {
    match e.kind() {
        std::io::ErrorKind::TimedOut => 20,
        _ => 21,
    }
}

/// What a handler sees of a request, and the body it gets from `read_to_bytes(limit)`.
/// kvarn bounds a body that does not arrive by 30 s; nothing here makes a body stall, so 10 s without it are reported
/// as that time-out.
async fn seen(req: &mut Request<application::Body>, limit: usize) -> X {
    let body = match tokio::time::timeout(Duration::from_secs(10), req.body_mut().read_to_bytes(limit)).await {
        Err(_) => X::err(20),
        Ok(Err(e)) => X::err(io_class(&e)),
        Ok(Ok(b)) => X::ok(X::b(&b)),
    };
    X::L(vec![
        X::b(req.method().as_str()),
        X::b(req.uri().path()),
        X::opt(req.uri().query().map(X::b)),
        X::N(version_code(req.version())),
        header_list(req.headers()),
        X::opt(req.uri().authority().map(|a| X::b(a.as_str()))),
        body,
    ])
}

fn accept(x: &X) -> X {
    let l = match x.as_l() { Some(l) if l.len() == 4 || l.len() == 5 => l, _ => return X::bad() };
    let (dh, steps, limit, end) = match (l[0].as_opt(), steps_of(&l[1]), l[2].as_n(), l[3].as_n()) {
        (Some(a), Some(b), Some(c), Some(d)) => (a.and_then(X::as_b).map(<[u8]>::to_vec), b, c as usize, d),
        _ => return X::bad(),
    };
    block_on(async move {
        let (client, server, _) = match pair().await {
            Ok(p) => p,
            Err(_) => return trouble("loopback pair"),
        };
        let (done_tx, done_rx) = tokio::sync::oneshot::channel::<()>();
        let client_task = tokio::spawn(async move {
            let (rd, mut wr) = client.into_split();
            play(&mut wr, &steps, end).await;
            // the connection stays open until the server side has its result
            let _ = done_rx.await;
            drop((rd, wr));
        });
        let t0 = Instant::now();
        let mut conn = match application::HttpConnection::new(encryption::Encryption::Tcp(server), Version::HTTP_11).await {
            Ok(c) => c,
            Err(_) => return trouble("HttpConnection::new"),
        };
        let out = match tokio::time::timeout(Duration::from_secs(HANG_S), conn.accept(dh.as_deref())).await {
            Err(_) => X::L(vec![X::N(3)]),
            Ok(Err(application::Error::Parse(e))) => X::err(parse_error_class(&e)),
            Ok(Err(application::Error::Io(_))) => X::err(21),
            Ok(Err(_)) => X::err(22),
            Ok(Ok((mut req, _pipe))) => X::ok(seen(&mut req, limit).await),
        };
        let ms = t0.elapsed().as_millis();
        let _ = done_tx.send(());
        let _ = client_task.await;
        X::L(vec![out, X::n(ms)])
    })
}

fn echo_hosts(limit: usize) -> Arc<HostCollection> {
    let mut ext = Extensions::empty();
    ext.add_prepare_fn(
        Box::new(|_, _| true),
        prepare!(req, _host, _path, _addr, move |limit: usize| {
            let mut text = String::new();
            seen(req, *limit).await.write(&mut text);
            FatResponse::no_cache(Response::new(Bytes::from(text.into_bytes())))
        }),
        extensions::Id::new(0, "C07: answers with the request the handler saw"),
    );
    let mut options = host::Options::new();
    options.disable_fs();
    let mut host = Host::unsecure(ECHO_HOST, "/nonexistent-kvarn-verif", ext, options);
    host.limiter.disable();
    host.disable_response_cache();
    host.disable_fs_cache();
    HostCollection::builder().default(host).build()
}

/// Reads one response: head up to the blank line, then `content-length` bytes. `None` = closed before a complete response.
async fn read_response(rd: &mut tokio::net::tcp::OwnedReadHalf) -> Result<Option<(u16, Vec<u8>)>, ()> {
    let mut buf = Vec::new();
    let mut chunk = [0_u8; 4096];
    let deadline = Duration::from_secs(HANG_S);
    let head_end = loop {
        if let Some(p) = buf.windows(4).position(|w| w == b"\r\n\r\n") {
            break p + 4;
        }
        match tokio::time::timeout(deadline, rd.read(&mut chunk)).await {
            Err(_) => return Err(()),
            Ok(Ok(0)) | Ok(Err(_)) => return Ok(None),
            Ok(Ok(n)) => buf.extend_from_slice(&chunk[..n]),
        }
    };
    let head = String::from_utf8_lossy(&buf[..head_end]).to_ascii_lowercase();
    let status = head.split(' ').nth(1).and_then(|s| s.parse::<u16>().ok()).unwrap_or(0);
    let len = head
        .lines()
        .find_map(|l| l.strip_prefix("content-length:").map(|v| v.trim().parse::<usize>().unwrap_or(0)))
        .unwrap_or(0);
    while buf.len() < head_end + len {
        match tokio::time::timeout(deadline, rd.read(&mut chunk)).await {
            Err(_) => return Err(()),
            Ok(Ok(0)) | Ok(Err(_)) => return Ok(None),
            Ok(Ok(n)) => buf.extend_from_slice(&chunk[..n]),
        }
    }
    Ok(Some((status, buf[head_end..head_end + len].to_vec())))
}

fn echo(x: &X) -> X {
    let l = match x.as_l() { Some(l) if l.len() == 3 || l.len() == 4 => l, _ => return X::bad() };
    let (steps, limit, end) = match (steps_of(&l[0]), l[1].as_n(), l[2].as_n()) {
        (Some(a), Some(b), Some(c)) => (a, b as usize, c),
        _ => return X::bad(),
    };
    block_on(async move {
        let (client, server, peer) = match pair().await {
            Ok(p) => p,
            Err(_) => return trouble("loopback pair"),
        };
        let desc = Arc::new(PortDescriptor::unsecure(8080, echo_hosts(limit)));
        let server_task = tokio::spawn(async move {
            let _ = kvarn::handle_connection(kvarn::Incoming::Tcp(server), peer, desc, || true).await;
        });
        let t0 = Instant::now();
        let (mut rd, mut wr) = client.into_split();
        let writer = tokio::spawn(async move {
            play(&mut wr, &steps, end).await;
            wr
        });
        let out = match read_response(&mut rd).await {
            Err(()) => X::L(vec![X::N(3)]),
            Ok(None) => X::err(0),
            Ok(Some((200, body))) => {
                let mut pos = 0;
                match crate::xval::parse(&body, &mut pos) {
                    Some(v) => X::ok(v),
                    None => X::L(vec![X::N(4), X::N(200)]),
                }
            }
            Ok(Some((status, _))) => X::L(vec![X::N(4), X::n(status)]),
        };
        let ms = t0.elapsed().as_millis();
        writer.abort();
        let _ = writer.await;
        drop(rd);
        server_task.abort();
        let _ = server_task.await;
        X::L(vec![out, X::n(ms)])
    })
}

pub fn dispatch(comp: &str, x: &X) -> Option<X> {
    Some(match comp {
        "h1.accept" => crate::c07::on_worker(&POOL, HARD_LIMIT, accept, x),
        "h1.echo" => crate::c07::on_worker(&POOL, HARD_LIMIT, echo, x),
        _ => return None,
    })
}
