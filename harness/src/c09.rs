//! C09: `sanitize_request` (range part) + `apply_to_response`.
use crate::xval::X;
use bytes::Bytes;
use kvarn_utils::parse::{sanitize_request, SanitizeError};

fn request(hdr: Option<&[u8]>) -> Option<http::Request<()>> {
    let mut b = http::Request::builder().uri("/").method("GET");
    if let Some(h) = hdr {
        b = b.header("range", http::HeaderValue::from_bytes(h).ok()?);
    }
    b.body(()).ok()
}

/// input: (L checked (L [hdr]) status body); `checked` only tells the model
/// which arithmetic this binary was built with.
pub fn serve(x: &X) -> X {
    let l = match x.as_l() { Some(l) if l.len() == 4 => l, _ => return X::bad() };
    let (hdr, status, body) = match (l[1].as_opt(), l[2].as_n(), l[3].as_b()) {
        (Some(h), Some(s), Some(b)) => (h.and_then(X::as_b), s, b),
        _ => return X::bad(),
    };
    let req = match request(hdr) { Some(r) => r, None => return X::L(vec![X::N(96)]) };
    let data = match sanitize_request(&req) {
        Ok(d) => d,
        Err(SanitizeError::RangeNotSatisfiable) => return X::ok(X::L(vec![X::N(416)])),
        Err(SanitizeError::UnsafePath) => return X::L(vec![X::N(95)]),
    };
    let mut response = http::Response::builder()
        .status(status as u16)
        .body(Bytes::copy_from_slice(body))
        .unwrap();
    match data.apply_to_response(&mut response, None, false) {
        Err(_) => X::ok(X::L(vec![X::N(416)])),
        Ok(()) => X::ok(X::L(vec![
            X::n(response.status().as_u16()),
            X::opt(response.headers().get("content-range").map(|v| X::b(v.as_bytes()))),
            X::bool(response.headers().get("accept-ranges").map(|v| v.as_bytes()) == Some(b"bytes")),
            X::b(response.body()),
        ])),
    }
}

pub fn parse(x: &X) -> X {
    let v = match x.as_b() { Some(v) => v, None => return X::bad() };
    let req = match request(Some(v)) { Some(r) => r, None => return X::L(vec![X::N(96)]) };
    match sanitize_request(&req) {
        Ok(d) => X::opt(d.get_range().map(|(a, b)| X::L(vec![X::n(a), X::n(b)]))),
        Err(_) => X::L(vec![X::N(416)]),
    }
}

pub fn dispatch(comp: &str, x: &X) -> Option<X> {
    Some(match comp {
        "range.serve" => serve(x),
        "range.parse" => parse(x),
        _ => return None,
    })
}
