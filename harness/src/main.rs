//! Implementation side of the correspondence (DESIGN.md 2.4).
//! stdin : "<case-id> <component> <xval>" per line
//! stdout: "<case-id> <xval>" per line
pub mod xval;
include!(concat!(env!("OUT_DIR"), "/mods.rs"));

use std::io::{BufRead, Write};
use xval::X;

/// Runs `f` and maps a panic to the `Panic` outcome.
pub fn guarded(f: impl FnOnce() -> X) -> X {
    match std::panic::catch_unwind(std::panic::AssertUnwindSafe(f)) {
        Ok(x) => x,
        Err(_) => X::panic(),
    }
}

fn dispatch(comp: &str, x: &X) -> X {
    dispatch_all(comp, x).unwrap_or_else(|| X::L(vec![X::N(98)]))
}

fn main() {
    // panics are outcomes here; keep stderr quiet
    std::panic::set_hook(Box::new(|_| {}));
    let stdin = std::io::stdin();
    let stdout = std::io::stdout();
    let mut out = std::io::BufWriter::new(stdout.lock());
    let mut line_out = String::new();
    for line in stdin.lock().lines() {
        let line = line.expect("read stdin");
        if line.is_empty() {
            continue;
        }
        let mut it = line.splitn(3, ' ');
        let (id, comp, rest) = (it.next().unwrap(), it.next().unwrap_or(""), it.next().unwrap_or(""));
        let mut pos = 0;
        let res = match xval::parse(rest.as_bytes(), &mut pos) {
            Some(x) => guarded(|| dispatch(comp, &x)),
            None => X::L(vec![X::N(97)]),
        };
        line_out.clear();
        line_out.push_str(id);
        line_out.push(' ');
        res.write(&mut line_out);
        line_out.push('\n');
        out.write_all(line_out.as_bytes()).unwrap();
    }
    out.flush().unwrap();
}
