//! C19 (the operator's side): the REAL `kvarnctl` binary (ctl/src/main.rs), built from the repo under test into
//! `<verif>/harness/target-ctl` by driver/props/c19.py, run against a real instance's control socket.
//!
//! `ctl.binary`: `(L (L command (L arg ...)) ...)`, strings as lists of code points -> one
//! `(L (N exit-status) (B stdout))` per invocation `kvarnctl -s <socket> -- <command> <arg>...`, all against ONE
//! instance (the sequential fixture of c19ctl.rs), in order.  `(L (N 92))`: the binary does not exist (it did not
//! build); `(L (N 93))`: no instance could be started; `(L (N 96))`: an argument cannot be passed to a process
//! (NUL, not a Rust char); `(L (N 91) ...)`: the process could not be run / did not end within 30 s.
use crate::c19::{d_str, d_strs, ood};
use crate::c19ctl::{runtime, Server};
use crate::xval::X;
use std::path::PathBuf;
use std::time::Duration;

pub fn kvarnctl_path() -> PathBuf {
    if let Some(p) = std::env::var_os("KV_KVARNCTL") {
        return PathBuf::from(p);
    }
    // <verif>/harness/target/<profile>/kvh -> <verif>/harness/target-ctl/debug/kvarnctl
    let exe = std::env::current_exe().expect("current_exe");
    exe.ancestors().nth(3).expect("harness layout").join("target-ctl").join("debug").join("kvarnctl")
}

fn binary(x: &X) -> X {
    let l = match x.as_l() {
        Some(l) => l,
        None => return X::bad(),
    };
    let mut calls: Vec<(String, Vec<String>)> = Vec::new();
    for c in l {
        let c = match c.as_l() {
            Some(c) if c.len() == 2 => c,
            _ => return X::bad(),
        };
        let cmd = match d_str(&c[0]) {
            Some(Ok(s)) => s,
            Some(Err(())) => return ood(),
            None => return X::bad(),
        };
        let args = match d_strs(&c[1]) {
            Some(Ok(s)) => s,
            Some(Err(())) => return ood(),
            None => return X::bad(),
        };
        if cmd.contains('\0') || args.iter().any(|a| a.contains('\0')) {
            return ood();
        }
        calls.push((cmd, args));
    }
    let bin = kvarnctl_path();
    if !bin.is_file() {
        return X::L(vec![X::N(92)]);
    }
    runtime().block_on(async move {
        let server = match Server::start().await {
            Some(s) => s,
            None => return X::L(vec![X::N(93)]),
        };
        let mut out = Vec::with_capacity(calls.len());
        for (cmd, args) in calls {
            let (bin, path) = (bin.clone(), server.path.clone());
            let run = tokio::task::spawn_blocking(move || {
                std::process::Command::new(bin)
                    .arg("-s")
                    .arg(path)
                    .arg("--")
                    .arg(cmd)
                    .args(args)
                    .env_remove("KVARNCTL_LOG")
                    .stdin(std::process::Stdio::null())
                    .stderr(std::process::Stdio::null())
                    .output()
            });
            let r = match tokio::time::timeout(Duration::from_secs(30), run).await {
                Ok(Ok(Ok(o))) => match o.status.code() {
                    Some(code) => X::L(vec![X::N(code as u128), X::B(o.stdout)]),
                    None => X::L(vec![X::N(91), X::N(1)]),
                },
                Ok(Ok(Err(_))) => X::L(vec![X::N(91), X::N(2)]),
                Ok(Err(_)) => X::L(vec![X::N(91), X::N(3)]),
                Err(_) => X::L(vec![X::N(91), X::N(4)]),
            };
            out.push(r);
            server.settle().await;
        }
        server.stop().await;
        X::L(out)
    })
}

pub fn dispatch(comp: &str, x: &X) -> Option<X> {
    Some(match comp {
        "ctl.binary" => binary(x),
        _ => return None,
    })
}
