//! C19 (direct part): `kvarn_utils::encode_quoted_str` / `quoted_str_split`.
//! Strings travel as lists of code points `(L (N cp) ...)`; a code point that is not a
//! Rust `char` (surrogate, > 0x10FFFF) makes the case out of domain `(L (N 96))`.
use crate::xval::X;
use kvarn_utils::{encode_quoted_str, quoted_str_split};

pub fn ood() -> X {
    X::L(vec![X::N(96)])
}
pub fn d_str(x: &X) -> Option<Result<String, ()>> {
    let l = x.as_l()?;
    let mut s = String::with_capacity(l.len());
    for c in l {
        let n = c.as_n()?;
        match u32::try_from(n).ok().and_then(char::from_u32) {
            Some(c) => s.push(c),
            None => return Some(Err(())),
        }
    }
    Some(Ok(s))
}
pub fn d_strs(x: &X) -> Option<Result<Vec<String>, ()>> {
    let l = x.as_l()?;
    let mut v = Vec::with_capacity(l.len());
    for s in l {
        match d_str(s)? {
            Ok(s) => v.push(s),
            Err(()) => return Some(Err(())),
        }
    }
    Some(Ok(v))
}
pub fn x_str(s: &str) -> X {
    X::L(s.chars().map(|c| X::N(c as u128)).collect())
}
pub fn x_strs<S: AsRef<str>>(l: impl IntoIterator<Item = S>) -> X {
    X::L(l.into_iter().map(|s| x_str(s.as_ref())).collect())
}
macro_rules! dec {
    ($e:expr) => {
        match $e {
            Some(Ok(v)) => v,
            Some(Err(())) => return ood(),
            None => return X::bad(),
        }
    };
}

fn encode(x: &X) -> X {
    let s = dec!(d_str(x));
    // appended to a non-empty destination: the function must only append
    let mut dest = String::from("x");
    encode_quoted_str(&s, &mut dest);
    if !dest.starts_with('x') {
        return X::L(vec![X::N(94)]);
    }
    x_str(&dest[1..])
}
fn split(x: &X) -> X {
    let s = dec!(d_str(x));
    let mut it = quoted_str_split(&s);
    let mut out = Vec::new();
    for tok in &mut it {
        out.push(tok);
    }
    // the iterator is fused in practice: once `None`, always `None`
    if it.next().is_some() {
        return X::L(vec![X::N(94)]);
    }
    x_strs(out)
}
/// split(join " " (map encode l)) with `kvarn_utils::join`
fn roundtrip(x: &X) -> X {
    let l = dec!(d_strs(x));
    let enc: Vec<String> = l
        .iter()
        .map(|s| {
            let mut d = String::new();
            encode_quoted_str(s, &mut d);
            d
        })
        .collect();
    let joined = kvarn_utils::join(enc.iter(), " ");
    x_strs(quoted_str_split(&joined))
}
/// The body of the `ping` plugin (src/ctl.rs `with_ping`), statement for statement; the plugin
/// itself is exercised through the socket by `ctl.session`, which must agree with this.
pub fn ping_data(args: &[String]) -> String {
    let mut data = args.iter().fold(String::new(), |mut acc, arg| {
        acc.push(' ');
        encode_quoted_str(arg, &mut acc);
        acc
    });
    if !data.is_empty() {
        data.remove(0);
    }
    data
}
fn ping(x: &X) -> X {
    let l = dec!(d_strs(x));
    let data = ping_data(&l);
    X::L(vec![x_str(&data), x_strs(quoted_str_split(&data))])
}
/// kvarnctl's message construction (ctl/src/main.rs l.263-291), statement for statement (the
/// code lives in a binary crate's `main`; the real binary is run by `ctl.binary`, c19bin.rs, in both tiers -- this copy
/// serves the exhaustive in-process sweep).
pub fn client_message(command: &str, args: &[String]) -> String {
    Some(args.iter())
        .and_then(|args| if args.len() == 0 { None } else { Some(args) })
        .map(|args| {
            args.fold(
                {
                    let mut s = String::new();
                    encode_quoted_str(command, &mut s);
                    s
                },
                |mut acc, arg| {
                    acc.push(' ');
                    encode_quoted_str(arg, &mut acc);
                    acc
                },
            )
        })
        .unwrap_or_else(|| command.to_owned())
}
fn client(x: &X) -> X {
    let l = match x.as_l() {
        Some(l) if l.len() == 2 => l,
        _ => return X::bad(),
    };
    let c = dec!(d_str(&l[0]));
    let a = dec!(d_strs(&l[1]));
    let m = client_message(&c, &a);
    X::L(vec![x_str(&m), x_strs(quoted_str_split(&m))])
}

pub fn dispatch(comp: &str, x: &X) -> Option<X> {
    Some(match comp {
        "quoted.encode" => encode(x),
        "quoted.split" => split(x),
        "quoted.roundtrip" => roundtrip(x),
        "quoted.ping" => ping(x),
        "quoted.client" => client(x),
        _ => return None,
    })
}
