//! C07: `kvarn_async::read::request` + `kvarn::application::Http1Body::read_to_bytes`
//! over a scripted `AsyncRead` (read schedule), and `kvarn_utils::parse::headers` directly.
//!
//! A hang is an outcome here, never the fate of the harness process (`(L (N 3) (N why))`, see `Hang`):
//! the scripted reader has a budget of consecutive reads it answers with 0 bytes, every call into kvarn runs under an
//! asynchronous watchdog, and every case runs on a worker thread the main thread gives up on after `HARD_WATCHDOG`.
use crate::xval::X;
use bytes::Bytes;
use std::collections::VecDeque;
use std::future::Future;
use std::pin::Pin;
use std::sync::atomic::{AtomicBool, AtomicUsize, Ordering};
use std::sync::{mpsc, Arc, Mutex};
use std::task::{Context, Poll};
use std::time::Duration;
use tokio::io::{AsyncRead, ReadBuf};

/// Why a case was given up as a hang: the `why` of the outcome `(L (N 3) (N why))`.
#[derive(Clone, Copy, Debug, PartialEq, Eq)]
pub enum Hang {
    /// the code read again after `ZERO_BUDGET` consecutive reads that were answered with 0 bytes (end of file, an
    /// exhausted 0-byte burst or an empty window): it spins on a connection that delivers nothing any more
    Spin = 1,
    /// a call into kvarn did not return within `WATCHDOG` (twice: the case is run again once before this is said)
    Pending = 2,
    /// the case did not come back from its worker thread within `HARD_WATCHDOG` (twice): it spins without reading
    Stuck = 3,
}
impl Hang {
    pub fn outcome(self) -> X {
        X::L(vec![X::N(3), X::N(self as u128)])
    }
}
fn is_hang(x: &X, why: Hang) -> bool {
    matches!(x.as_l(), Some([X::N(3), X::N(w)]) if *w == why as u128)
}

/// A reader at end of file answers every read with 0 bytes, for ever.  Code that has been told so this many times in a
/// row without a single byte in between and still reads is not going to stop (the readers under test stop at the first).
const ZERO_BUDGET: usize = 1000;
/// A call into kvarn over the scripted reader takes microseconds to milliseconds (the longest wait in it is the 60 ms
/// cut of a stalled body): one that has not returned after this long never will.
const WATCHDOG: Duration = Duration::from_secs(10);
/// The same, seen from outside the worker thread (for code that neither returns nor yields).
pub const HARD_WATCHDOG: Duration = Duration::from_secs(45);
/// Worker threads that never came back are left behind spinning; after this many the rest of the shard is not executed
/// (reported as harness trouble `(L (N 93) ..)`, which the driver runs again in fresh processes and counts).
const MAX_STUCK: usize = 2;

/// What the reader and the watchdog share: set when the budget of 0-byte reads is used up.
#[derive(Default)]
struct Spin {
    flag: AtomicBool,
    notify: tokio::sync::Notify,
}

/// Delivers `data` in the burst sizes of `sched`.  A burst that does not fit into the
/// caller's window stays available for the next read (as bytes in a socket buffer do).
/// When the data or the schedule is used up: `end_mode` 0 = EOF (0-byte read),
/// 1 = pending for ever (a stalled peer), 2 = an I/O error.
/// After `ZERO_BUDGET` consecutive 0-byte answers the next read raises `spin` and pends for ever.
struct Scripted {
    data: Vec<u8>,
    pos: Arc<AtomicUsize>,
    sched: VecDeque<usize>,
    end_mode: u8,
    zeros: usize,
    spin: Arc<Spin>,
}
impl Scripted {
    fn new(data: &[u8], sched: VecDeque<usize>, end_mode: u8) -> (Self, Arc<AtomicUsize>, Arc<Spin>) {
        let pos = Arc::new(AtomicUsize::new(0));
        let spin = Arc::new(Spin::default());
        (Scripted { data: data.to_vec(), pos: Arc::clone(&pos), sched, end_mode, zeros: 0, spin: Arc::clone(&spin) }, pos, spin)
    }
    fn answer(&mut self, buf: &mut ReadBuf<'_>) -> Poll<std::io::Result<()>> {
        let me = self;
        let room = buf.remaining();
        if room == 0 {
            return Poll::Ready(Ok(()));
        }
        let pos = me.pos.load(Ordering::Relaxed);
        if pos >= me.data.len() || me.sched.is_empty() {
            return match me.end_mode {
                0 => Poll::Ready(Ok(())),
                1 => Poll::Pending,
                _ => Poll::Ready(Err(std::io::Error::new(std::io::ErrorKind::Other, "scripted"))),
            };
        }
        let b = me.sched[0];
        let n = b.min(room).min(me.data.len() - pos);
        buf.put_slice(&me.data[pos..pos + n]);
        me.pos.store(pos + n, Ordering::Relaxed);
        if n == b {
            me.sched.pop_front();
        } else {
            me.sched[0] = b - n;
        }
        Poll::Ready(Ok(()))
    }
}
impl AsyncRead for Scripted {
    fn poll_read(self: Pin<&mut Self>, _cx: &mut Context<'_>, buf: &mut ReadBuf<'_>) -> Poll<std::io::Result<()>> {
        let me = self.get_mut();
        if me.spin.flag.load(Ordering::Relaxed) {
            return Poll::Pending;
        }
        if me.zeros >= ZERO_BUDGET {
            me.spin.flag.store(true, Ordering::Relaxed);
            me.spin.notify.notify_one();
            return Poll::Pending;
        }
        let before = buf.filled().len();
        let res = me.answer(buf);
        if matches!(res, Poll::Ready(Ok(()))) {
            if buf.filled().len() == before {
                me.zeros += 1;
            } else {
                me.zeros = 0;
            }
        }
        res
    }
}

/// One call into kvarn under the watchdog: its result, or why it was given up.
async fn watch<T>(spin: &Spin, fut: impl Future<Output = T>) -> Result<T, Hang> {
    let r = tokio::select! {
        biased;
        _ = spin.notify.notified() => Err(Hang::Spin),
        r = tokio::time::timeout(WATCHDOG, fut) => r.map_err(|_| Hang::Pending),
    };
    if spin.flag.load(Ordering::Relaxed) {
        return Err(Hang::Spin);
    }
    r
}

thread_local! {
    /// one runtime per worker thread: a thread that is stuck inside `block_on` keeps its own
    static RT: tokio::runtime::Runtime = tokio::runtime::Builder::new_current_thread().enable_time().build().unwrap();
}
fn block_on<F: Future>(f: F) -> F::Output {
    RT.with(|rt| rt.block_on(f))
}

type Job = (fn(&X) -> X, X);
pub struct Worker {
    jobs: mpsc::Sender<Job>,
    results: mpsc::Receiver<X>,
}
impl Worker {
    fn start() -> Option<Worker> {
        let (jobs, job_rx) = mpsc::channel::<Job>();
        let (res_tx, results) = mpsc::channel::<X>();
        std::thread::Builder::new()
            .name("c07-case".into())
            .spawn(move || {
                for (f, x) in job_rx {
                    if res_tx.send(crate::guarded(|| f(&x))).is_err() {
                        return;
                    }
                }
            })
            .ok()?;
        Some(Worker { jobs, results })
    }
}
static STUCK: AtomicUsize = AtomicUsize::new(0);

/// Runs `f(x)` on a worker thread and waits for it no longer than `limit`.  A worker that does not come back is left
/// behind (a thread cannot be stopped) and replaced; the case is tried a second time before it is called stuck.
pub fn on_worker(pool: &Mutex<Option<Worker>>, limit: Duration, f: fn(&X) -> X, x: &X) -> X {
    let mut slot = pool.lock().unwrap_or_else(|e| e.into_inner());
    for _attempt in 0..2 {
        if STUCK.load(Ordering::Relaxed) >= MAX_STUCK {
            return X::L(vec![X::N(93), X::b("not executed: worker threads of this process are stuck in earlier cases")]);
        }
        let w = match slot.take().or_else(Worker::start) {
            Some(w) => w,
            None => return X::L(vec![X::N(93), X::b("no worker thread")]),
        };
        if w.jobs.send((f, x.clone())).is_err() {
            continue;
        }
        match w.results.recv_timeout(limit) {
            Ok(r) => {
                *slot = Some(w);
                return r;
            }
            // a worker that died is replaced and the case run again; one that is still busy is left behind
            Err(mpsc::RecvTimeoutError::Disconnected) => {}
            Err(mpsc::RecvTimeoutError::Timeout) => {
                STUCK.fetch_add(1, Ordering::Relaxed);
            }
        }
    }
    Hang::Stuck.outcome()
}
static POOL: Mutex<Option<Worker>> = Mutex::new(None);

/// A case whose only trouble was time (`Hang::Pending`) is run once more before that is its outcome.
fn twice(f: fn(&X) -> X, x: &X) -> X {
    let r = f(x);
    if is_hang(&r, Hang::Pending) {
        return f(x);
    }
    r
}

fn parse_error_class(e: &kvarn_utils::parse::Error) -> u128 {
    use kvarn_utils::parse::Error::*;
    match e {
        Http(_) => 1,
        NoPath => 2,
        UnexpectedEnd => 3,
        HeaderTooLong => 4,
        InvalidPath => 5,
        InvalidMethod => 6,
        InvalidVersion => 7,
        InvalidStatusCode => 8,
        Syntax => 9,
        IllegalName => 10,
        IllegalValue => 11,
        NoHost => 12,
    }
}

fn header_list(h: &http::HeaderMap) -> X {
    let mut v: Vec<(Vec<u8>, Vec<u8>)> =
        h.iter().map(|(n, v)| (n.as_str().as_bytes().to_vec(), v.as_bytes().to_vec())).collect();
    v.sort();
    X::L(v.into_iter().map(|(n, v)| X::L(vec![X::B(n), X::B(v)])).collect())
}

fn version_code(v: http::Version) -> u128 {
    match v {
        http::Version::HTTP_09 => 9,
        http::Version::HTTP_10 => 10,
        http::Version::HTTP_11 => 11,
        http::Version::HTTP_2 => 20,
        http::Version::HTTP_3 => 30,
        _ => 0,
    }
}

fn sched_of(x: &X) -> Option<VecDeque<usize>> {
    x.as_l()?.iter().map(|b| b.as_n().map(|n| n as usize)).collect()
}

fn io_class(e: &std::io::Error) -> u128 {
    match e.kind() {
        std::io::ErrorKind::TimedOut => 20,
        _ => 21,
    }
}

/// The body phase.  kvarn's own guard is a fixed 30 s `tokio::time::timeout` that maps to `TimedOut`; a reader that
/// pends for ever would make every such case take 30 s, so the harness puts a 60 ms timeout around the call and reports
/// the same class (the scripted reader never pends in any other situation, so nothing else can trip it).
async fn body_phase(spin: &Spin, reader: Arc<tokio::sync::Mutex<Scripted>>, early: Bytes, content_length: usize, limit: usize) -> Result<X, Hang> {
    let mut body = kvarn::application::Http1Body::new(reader, early, content_length);
    Ok(match watch(spin, tokio::time::timeout(CUT, body.read_to_bytes(limit))).await? {
        Err(_) => X::err(20),
        Ok(Err(e)) => X::err(io_class(&e)),
        Ok(Ok(b)) => X::ok(X::b(&b)),
    })
}
const CUT: Duration = Duration::from_millis(60);

/// input: (L https (L [default_host]) max_len end_mode stream (L burst..) limit [structured request, used by the spec only])
/// output: outcome of (L method path (L [query]) version headers (L [authority]) early body_outcome consumed)
/// (`consumed` = bytes taken from the connection, reported when the body was read without error)
/// | (L (N 3) (N why)) = a hang (see `Hang`)
fn request(x: &X) -> X {
    let l = match x.as_l() { Some(l) if l.len() == 7 || l.len() == 8 => l, _ => return X::bad() };
    let (https, dh, max_len, end_mode, stream, sched, limit) = match (
        l[0].as_bool(), l[1].as_opt(), l[2].as_n(), l[3].as_n(), l[4].as_b(), sched_of(&l[5]), l[6].as_n(),
    ) {
        (Some(a), Some(b), Some(c), Some(d), Some(e), Some(f), Some(g)) => (a, b.and_then(X::as_b), c as usize, d as u8, e, f, g as usize),
        _ => return X::bad(),
    };
    let (reader, pos, spin) = Scripted::new(stream, sched, end_mode);
    let reader = Arc::new(tokio::sync::Mutex::new(reader));
    block_on(async move {
        let parsed = {
            let lock = reader.lock().await;
            watch(&spin, kvarn_async::read::request(lock, max_len, dh, if https { "https" } else { "http" }, Duration::from_millis(15))).await
        };
        match parsed {
            Err(hang) => hang.outcome(),
            Ok(Err(e)) => X::err(parse_error_class(&e)),
            Ok(Ok((req, early))) => {
                let cl = kvarn_utils::get_body_length_request(&req);
                let body = match body_phase(&spin, Arc::clone(&reader), early.clone(), cl, limit).await {
                    Err(hang) => return hang.outcome(),
                    Ok(b) => b,
                };
                let body_ok = matches!(body.as_l(), Some([X::N(0), _]));
                X::ok(X::L(vec![
                    X::b(req.method().as_str()),
                    X::b(req.uri().path()),
                    X::opt(req.uri().query().map(X::b)),
                    X::N(version_code(req.version())),
                    header_list(req.headers()),
                    X::opt(req.uri().authority().map(|a| X::b(a.as_str()))),
                    X::b(&early),
                    body,
                    X::n(if body_ok { pos.load(Ordering::Relaxed) } else { 0 }),
                ]))
            }
        }
    })
}

/// input: (L early content_length limit end_mode stream (L burst..)); output: (L body_outcome consumed) | (L (N 3) (N why)) = a hang
fn body(x: &X) -> X {
    let l = match x.as_l() { Some(l) if l.len() == 6 => l, _ => return X::bad() };
    let (early, cl, limit, end_mode, stream, sched) = match (l[0].as_b(), l[1].as_n(), l[2].as_n(), l[3].as_n(), l[4].as_b(), sched_of(&l[5])) {
        (Some(a), Some(b), Some(c), Some(d), Some(e), Some(f)) => (a, b as usize, c as usize, d as u8, e, f),
        _ => return X::bad(),
    };
    let (reader, pos, spin) = Scripted::new(stream, sched, end_mode);
    let reader = Arc::new(tokio::sync::Mutex::new(reader));
    let early = Bytes::copy_from_slice(early);
    block_on(async move {
        let out = match body_phase(&spin, reader, early, cl, limit).await {
            Err(hang) => return hang.outcome(),
            Ok(b) => b,
        };
        let ok = matches!(out.as_l(), Some([X::N(0), _]));
        X::L(vec![out, X::n(if ok { pos.load(Ordering::Relaxed) } else { 0 })])
    })
}

/// input: (B bytes) or (L (B bytes) [structured header lines, used by the spec only]); output: outcome of (L headers end)
fn headers(x: &X) -> X {
    let b = match (x.as_b(), x.as_l()) {
        (Some(b), _) => b,
        (None, Some([X::B(b), _])) => &b[..],
        _ => return X::bad(),
    };
    match kvarn_utils::parse::headers(&Bytes::copy_from_slice(b)) {
        Ok((h, end)) => X::ok(X::L(vec![header_list(&h), X::n(end)])),
        Err(e) => X::err(parse_error_class(&e)),
    }
}

/// `Http1Body` used as what it is to a handler that matches on `Body::Http1`: an `AsyncRead` (plus `read_to_bytes` and
/// `drain`).  input: (L early content_length end_mode stream (L burst..) (L op..)), op = (N window): one
/// `read(&mut buf[..window])` | (L (N limit)): `read_to_bytes(limit)` | (L): `drain()`.
/// output: (L (L outcome..) consumed): one outcome per executed op (the first error ends the run), `consumed` = bytes
/// taken from the connection (0 after an error).  A read that pends for ever is cut off after 60 ms and reported as TimedOut (as in `body_phase`).
/// | (L (N 3) (N why)) = one of the calls hung (see `Hang`)
fn poll(x: &X) -> X {
    use tokio::io::AsyncReadExt;
    let l = match x.as_l() { Some(l) if l.len() == 6 => l, _ => return X::bad() };
    let (early, cl, end_mode, stream, sched, ops) = match (l[0].as_b(), l[1].as_n(), l[2].as_n(), l[3].as_b(), sched_of(&l[4]), l[5].as_l()) {
        (Some(a), Some(b), Some(c), Some(d), Some(e), Some(f)) => (a, b as usize, c as u8, d, e, f),
        _ => return X::bad(),
    };
    let (reader, pos, spin) = Scripted::new(stream, sched, end_mode);
    let reader = Arc::new(tokio::sync::Mutex::new(reader));
    let early = Bytes::copy_from_slice(early);
    let ops = ops.to_vec();
    block_on(async move {
        let mut body = kvarn::application::Http1Body::new(reader, early, cl);
        let mut outs = Vec::new();
        let cut = CUT;
        for op in &ops {
            let out = match op {
                X::N(w) => {
                    if *w > (1 << 20) {
                        return X::bad();
                    }
                    let mut buf = vec![0_u8; *w as usize];
                    match watch(&spin, tokio::time::timeout(cut, body.read(&mut buf))).await {
                        Err(hang) => return hang.outcome(),
                        Ok(Err(_)) => X::err(20),
                        Ok(Ok(Err(e))) => X::err(io_class(&e)),
                        Ok(Ok(Ok(n))) => X::ok(X::b(&buf[..n])),
                    }
                }
                X::L(v) if v.is_empty() => match watch(&spin, tokio::time::timeout(cut, body.drain())).await {
                    Err(hang) => return hang.outcome(),
                    Ok(Err(_)) => X::err(20),
                    Ok(Ok(Err(e))) => X::err(io_class(&e)),
                    Ok(Ok(Ok(()))) => X::ok(X::b(b"")),
                },
                X::L(v) => match v.as_slice() {
                    [X::N(limit)] => match watch(&spin, tokio::time::timeout(cut, body.read_to_bytes(*limit as usize))).await {
                        Err(hang) => return hang.outcome(),
                        Ok(Err(_)) => X::err(20),
                        Ok(Ok(Err(e))) => X::err(io_class(&e)),
                        Ok(Ok(Ok(b))) => X::ok(X::b(&b)),
                    },
                    _ => return X::bad(),
                },
                X::B(_) => return X::bad(),
            };
            let failed = !matches!(out.as_l(), Some([X::N(0), _]));
            outs.push(out);
            if failed {
                break;
            }
        }
        // as in `request`: the bytes taken from the connection are reported when nothing failed
        let ok = outs.iter().all(|o| matches!(o.as_l(), Some([X::N(0), _])));
        X::L(vec![X::L(outs), X::n(if ok { pos.load(Ordering::Relaxed) } else { 0 })])
    })
}

pub fn dispatch(comp: &str, x: &X) -> Option<X> {
    Some(match comp {
        // on a worker thread, under the watchdogs (a hang is the outcome (L (N 3) (N why)))
        "h1.request" => on_worker(&POOL, HARD_WATCHDOG, |x| twice(request, x), x),
        "h1.body" => on_worker(&POOL, HARD_WATCHDOG, |x| twice(body, x), x),
        "h1.poll" => on_worker(&POOL, HARD_WATCHDOG, |x| twice(poll, x), x),
        "h1.headers" => headers(x),
        _ => return None,
    })
}
