//! C07: `kvarn_async::read::request` + `kvarn::application::Http1Body::read_to_bytes`
//! over a scripted `AsyncRead` (read schedule), and `kvarn_utils::parse::headers` directly.
use crate::xval::X;
use bytes::Bytes;
use std::collections::VecDeque;
use std::pin::Pin;
use std::sync::atomic::{AtomicUsize, Ordering};
use std::sync::Arc;
use std::task::{Context, Poll};
use std::time::Duration;
use tokio::io::{AsyncRead, ReadBuf};

/// Delivers `data` in the burst sizes of `sched`.  A burst that does not fit into the
/// caller's window stays available for the next read (as bytes in a socket buffer do).
/// When the data or the schedule is used up: `end_mode` 0 = EOF (0-byte read),
/// 1 = pending for ever (a stalled peer), 2 = an I/O error.
struct Scripted {
    data: Vec<u8>,
    pos: Arc<AtomicUsize>,
    sched: VecDeque<usize>,
    end_mode: u8,
}
impl AsyncRead for Scripted {
    fn poll_read(self: Pin<&mut Self>, _cx: &mut Context<'_>, buf: &mut ReadBuf<'_>) -> Poll<std::io::Result<()>> {
        let me = self.get_mut();
        let room = buf.remaining();
        if room == 0 {
            return Poll::Ready(Ok(()));
        }
        let pos = me.pos.load(Ordering::Relaxed);
        if pos >= me.data.len() || me.sched.is_empty() {
            return match me.end_mode {
                0 => Poll::Ready(Ok(())),
                1 => Poll::Pending,
                _ => Poll::Ready(Err(std::io::Error::new(std::io::ErrorKind::Other, "scripted"))),
            };
        }
        let b = me.sched[0];
        let n = b.min(room).min(me.data.len() - pos);
        buf.put_slice(&me.data[pos..pos + n]);
        me.pos.store(pos + n, Ordering::Relaxed);
        if n == b {
            me.sched.pop_front();
        } else {
            me.sched[0] = b - n;
        }
        Poll::Ready(Ok(()))
    }
}

fn runtime() -> &'static tokio::runtime::Runtime {
    static RT: std::sync::OnceLock<tokio::runtime::Runtime> = std::sync::OnceLock::new();
    RT.get_or_init(|| tokio::runtime::Builder::new_current_thread().enable_time().build().unwrap())
}

fn parse_error_class(e: &kvarn_utils::parse::Error) -> u128 {
    use kvarn_utils::parse::Error::*;
    match e {
        Http(_) => 1,
        NoPath => 2,
        UnexpectedEnd => 3,
        HeaderTooLong => 4,
        InvalidPath => 5,
        InvalidMethod => 6,
        InvalidVersion => 7,
        InvalidStatusCode => 8,
        Syntax => 9,
        IllegalName => 10,
        IllegalValue => 11,
        NoHost => 12,
    }
}

fn header_list(h: &http::HeaderMap) -> X {
    let mut v: Vec<(Vec<u8>, Vec<u8>)> =
        h.iter().map(|(n, v)| (n.as_str().as_bytes().to_vec(), v.as_bytes().to_vec())).collect();
    v.sort();
    X::L(v.into_iter().map(|(n, v)| X::L(vec![X::B(n), X::B(v)])).collect())
}

fn version_code(v: http::Version) -> u128 {
    match v {
        http::Version::HTTP_09 => 9,
        http::Version::HTTP_10 => 10,
        http::Version::HTTP_11 => 11,
        http::Version::HTTP_2 => 20,
        http::Version::HTTP_3 => 30,
        _ => 0,
    }
}

fn sched_of(x: &X) -> Option<VecDeque<usize>> {
    x.as_l()?.iter().map(|b| b.as_n().map(|n| n as usize)).collect()
}

fn io_class(e: &std::io::Error) -> u128 {
    match e.kind() {
        std::io::ErrorKind::TimedOut => 20,
        _ => 21,
    }
}

/// The body phase.  kvarn's own guard is a fixed 30 s `tokio::time::timeout` that maps to `TimedOut`; a reader that
/// pends for ever would make every such case take 30 s, so the harness puts a 60 ms timeout around the call and reports
/// the same class (the scripted reader never pends in any other situation, so nothing else can trip it).
async fn body_phase(reader: Arc<tokio::sync::Mutex<Scripted>>, early: Bytes, content_length: usize, limit: usize) -> X {
    let mut body = kvarn::application::Http1Body::new(reader, early, content_length);
    match tokio::time::timeout(Duration::from_millis(60), body.read_to_bytes(limit)).await {
        Err(_) => X::err(20),
        Ok(Err(e)) => X::err(io_class(&e)),
        Ok(Ok(b)) => X::ok(X::b(&b)),
    }
}

/// input: (L https (L [default_host]) max_len end_mode stream (L burst..) limit [structured request, used by the spec only])
/// output: outcome of (L method path (L [query]) version headers (L [authority]) early body_outcome consumed)
/// (`consumed` = bytes taken from the connection, reported when the body was read without error)
fn request(x: &X) -> X {
    let l = match x.as_l() { Some(l) if l.len() == 7 || l.len() == 8 => l, _ => return X::bad() };
    let (https, dh, max_len, end_mode, stream, sched, limit) = match (
        l[0].as_bool(), l[1].as_opt(), l[2].as_n(), l[3].as_n(), l[4].as_b(), sched_of(&l[5]), l[6].as_n(),
    ) {
        (Some(a), Some(b), Some(c), Some(d), Some(e), Some(f), Some(g)) => (a, b.and_then(X::as_b), c as usize, d as u8, e, f, g as usize),
        _ => return X::bad(),
    };
    let pos = Arc::new(AtomicUsize::new(0));
    let reader = Scripted { data: stream.to_vec(), pos: Arc::clone(&pos), sched, end_mode };
    let reader = Arc::new(tokio::sync::Mutex::new(reader));
    runtime().block_on(async move {
        let parsed = {
            let lock = reader.lock().await;
            kvarn_async::read::request(lock, max_len, dh, if https { "https" } else { "http" }, Duration::from_millis(15)).await
        };
        match parsed {
            Err(e) => X::err(parse_error_class(&e)),
            Ok((req, early)) => {
                let cl = kvarn_utils::get_body_length_request(&req);
                let body = body_phase(Arc::clone(&reader), early.clone(), cl, limit).await;
                let body_ok = matches!(body.as_l(), Some([X::N(0), _]));
                X::ok(X::L(vec![
                    X::b(req.method().as_str()),
                    X::b(req.uri().path()),
                    X::opt(req.uri().query().map(X::b)),
                    X::N(version_code(req.version())),
                    header_list(req.headers()),
                    X::opt(req.uri().authority().map(|a| X::b(a.as_str()))),
                    X::b(&early),
                    body,
                    X::n(if body_ok { pos.load(Ordering::Relaxed) } else { 0 }),
                ]))
            }
        }
    })
}

/// input: (L early content_length limit end_mode stream (L burst..)); output: (L body_outcome consumed)
fn body(x: &X) -> X {
    let l = match x.as_l() { Some(l) if l.len() == 6 => l, _ => return X::bad() };
    let (early, cl, limit, end_mode, stream, sched) = match (l[0].as_b(), l[1].as_n(), l[2].as_n(), l[3].as_n(), l[4].as_b(), sched_of(&l[5])) {
        (Some(a), Some(b), Some(c), Some(d), Some(e), Some(f)) => (a, b as usize, c as usize, d as u8, e, f),
        _ => return X::bad(),
    };
    let pos = Arc::new(AtomicUsize::new(0));
    let reader = Scripted { data: stream.to_vec(), pos: Arc::clone(&pos), sched, end_mode };
    let reader = Arc::new(tokio::sync::Mutex::new(reader));
    let early = Bytes::copy_from_slice(early);
    runtime().block_on(async move {
        let out = body_phase(reader, early, cl, limit).await;
        let ok = matches!(out.as_l(), Some([X::N(0), _]));
        X::L(vec![out, X::n(if ok { pos.load(Ordering::Relaxed) } else { 0 })])
    })
}

/// input: (B bytes) or (L (B bytes) [structured header lines, used by the spec only]); output: outcome of (L headers end)
fn headers(x: &X) -> X {
    let b = match (x.as_b(), x.as_l()) {
        (Some(b), _) => b,
        (None, Some([X::B(b), _])) => &b[..],
        _ => return X::bad(),
    };
    match kvarn_utils::parse::headers(&Bytes::copy_from_slice(b)) {
        Ok((h, end)) => X::ok(X::L(vec![header_list(&h), X::n(end)])),
        Err(e) => X::err(parse_error_class(&e)),
    }
}

/// `Http1Body` used as what it is to a handler that matches on `Body::Http1`: an `AsyncRead` (plus `read_to_bytes` and
/// `drain`).  input: (L early content_length end_mode stream (L burst..) (L op..)), op = (N window): one
/// `read(&mut buf[..window])` | (L (N limit)): `read_to_bytes(limit)` | (L): `drain()`.
/// output: (L (L outcome..) consumed): one outcome per executed op (the first error ends the run), `consumed` = bytes
/// taken from the connection (0 after an error).  A read that pends for ever is cut off after 60 ms and reported as TimedOut (as in `body_phase`).
fn poll(x: &X) -> X {
    use tokio::io::AsyncReadExt;
    let l = match x.as_l() { Some(l) if l.len() == 6 => l, _ => return X::bad() };
    let (early, cl, end_mode, stream, sched, ops) = match (l[0].as_b(), l[1].as_n(), l[2].as_n(), l[3].as_b(), sched_of(&l[4]), l[5].as_l()) {
        (Some(a), Some(b), Some(c), Some(d), Some(e), Some(f)) => (a, b as usize, c as u8, d, e, f),
        _ => return X::bad(),
    };
    let pos = Arc::new(AtomicUsize::new(0));
    let reader = Scripted { data: stream.to_vec(), pos: Arc::clone(&pos), sched, end_mode };
    let reader = Arc::new(tokio::sync::Mutex::new(reader));
    let early = Bytes::copy_from_slice(early);
    let ops = ops.to_vec();
    runtime().block_on(async move {
        let mut body = kvarn::application::Http1Body::new(reader, early, cl);
        let mut outs = Vec::new();
        let cut = Duration::from_millis(60);
        for op in &ops {
            let out = match op {
                X::N(w) => {
                    if *w > (1 << 20) {
                        return X::bad();
                    }
                    let mut buf = vec![0_u8; *w as usize];
                    match tokio::time::timeout(cut, body.read(&mut buf)).await {
                        Err(_) => X::err(20),
                        Ok(Err(e)) => X::err(io_class(&e)),
                        Ok(Ok(n)) => X::ok(X::b(&buf[..n])),
                    }
                }
                X::L(v) if v.is_empty() => match tokio::time::timeout(cut, body.drain()).await {
                    Err(_) => X::err(20),
                    Ok(Err(e)) => X::err(io_class(&e)),
                    Ok(Ok(())) => X::ok(X::b(b"")),
                },
                X::L(v) => match v.as_slice() {
                    [X::N(limit)] => match tokio::time::timeout(cut, body.read_to_bytes(*limit as usize)).await {
                        Err(_) => X::err(20),
                        Ok(Err(e)) => X::err(io_class(&e)),
                        Ok(Ok(b)) => X::ok(X::b(&b)),
                    },
                    _ => return X::bad(),
                },
                X::B(_) => return X::bad(),
            };
            let failed = !matches!(out.as_l(), Some([X::N(0), _]));
            outs.push(out);
            if failed {
                break;
            }
        }
        // as in `request`: the bytes taken from the connection are reported when nothing failed
        let ok = outs.iter().all(|o| matches!(o.as_l(), Some([X::N(0), _])));
        X::L(vec![X::L(outs), X::n(if ok { pos.load(Ordering::Relaxed) } else { 0 })])
    })
}

pub fn dispatch(comp: &str, x: &X) -> Option<X> {
    Some(match comp {
        "h1.request" => request(x),
        "h1.body" => body(x),
        "h1.poll" => poll(x),
        "h1.headers" => headers(x),
        _ => return None,
    })
}
