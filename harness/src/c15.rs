//! C15: virtual hosts — `HostCollection` builder + lookups (direct calls) and
//! `kvarn::handle_connection` over loopback TCP with per-host marker handlers, files and caches.
use crate::xval::X;
use kvarn::prelude::*;
use std::sync::atomic::{AtomicU64, Ordering};
use std::sync::{Arc, OnceLock};
use std::time::Duration;

const OOD: u128 = 96;
fn ood() -> X {
    X::L(vec![X::N(OOD)])
}

struct Cfg {
    default: bool,
    name: String,
    alts: Vec<String>,
}

/// (L (L flag name (L alt...)) ...)
fn parse_ops(x: &X) -> Result<Vec<Cfg>, X> {
    let l = x.as_l().ok_or_else(X::bad)?;
    let mut out = Vec::new();
    for o in l {
        let o = match o.as_l() {
            Some(o) if o.len() == 3 => o,
            _ => return Err(X::bad()),
        };
        let default = o[0].as_bool().ok_or_else(X::bad)?;
        let name = String::from_utf8(o[1].as_b().ok_or_else(X::bad)?.to_vec()).map_err(|_| ood())?;
        let mut alts = Vec::new();
        for a in o[2].as_l().ok_or_else(X::bad)? {
            alts.push(String::from_utf8(a.as_b().ok_or_else(X::bad)?.to_vec()).map_err(|_| ood())?);
        }
        out.push(Cfg { default, name, alts });
    }
    Ok(out)
}

/// The id of a host is carried by the last path component `h<idx>` of `Host::path`.
fn host_id(h: &Host) -> u128 {
    let p = h.path.as_str();
    let i = p.rfind('h').expect("marker path");
    p[i + 1..].parse().expect("marker path number")
}
fn host_res(h: Option<&Host>) -> X {
    X::ok(X::opt(h.map(|h| X::L(vec![X::N(host_id(h)), X::b(h.name.as_bytes())]))))
}

type Probe = (Box<dyn Fn() + Send + Sync>, Box<dyn Fn() -> bool + Send + Sync>);

fn mk_host(idx: usize, cfg: &Cfg, dir: &str, ext: Extensions) -> Host {
    let mut h = Host::unsecure(&cfg.name, format!("{dir}h{idx}"), ext, host::Options::default());
    h.limiter.disable();
    for a in &cfg.alts {
        h.add_alternative_name(a);
    }
    h
}

fn request(hosts: &[&[u8]]) -> Option<FatRequest> {
    let mut b = Request::builder().uri("/").method("GET");
    for h in hosts {
        b = b.header("host", HeaderValue::from_bytes(h).ok()?);
    }
    b.body(kvarn::application::Body::Bytes(Bytes::new().into())).ok()
}

fn rt() -> &'static tokio::runtime::Runtime {
    static RT: OnceLock<tokio::runtime::Runtime> = OnceLock::new();
    RT.get_or_init(|| {
        tokio::runtime::Builder::new_multi_thread()
            .worker_threads(2)
            .enable_all()
            .build()
            .expect("tokio runtime")
    })
}

fn opt_str(x: &X) -> Result<Option<String>, X> {
    match x.as_opt() {
        Some(None) => Ok(None),
        Some(Some(v)) => Ok(Some(String::from_utf8(v.as_b().ok_or_else(X::bad)?.to_vec()).map_err(|_| ood())?)),
        None => Err(X::bad()),
    }
}
fn str_of(x: &X) -> Result<String, X> {
    String::from_utf8(x.as_b().ok_or_else(X::bad)?.to_vec()).map_err(|_| ood())
}

fn query(coll: &HostCollection, cfgs: &[Cfg], probes: &[Probe], q: &X) -> Result<X, X> {
    let l = q.as_l().ok_or_else(X::bad)?;
    let kind = l.first().and_then(X::as_n).ok_or_else(X::bad)?;
    Ok(match (kind, l.len()) {
        (0, 3) | (6, 3) => {
            let sni = opt_str(&l[1])?;
            let hh: Vec<&[u8]> = l[2].as_l().ok_or_else(X::bad)?.iter().map(|h| h.as_b().ok_or_else(X::bad)).collect::<Result<_, _>>()?;
            let req = request(&hh).ok_or_else(ood)?;
            let r = coll.get_from_request(&req, sni.as_deref());
            if kind == 0 {
                host_res(r)
            } else {
                // the host choice of handle_connection: None => 409; else re-lookup by the host's own name, unwrap
                match r {
                    None => X::ok(X::L(vec![X::N(409)])),
                    Some(h) => {
                        let h2 = coll.get_host(&h.name).unwrap();
                        X::ok(X::L(vec![X::N(200), X::N(host_id(h2))]))
                    }
                }
            }
        }
        (1, 2) => host_res(coll.get_host(&str_of(&l[1])?)),
        (2, 2) => host_res(coll.get_or_default(&str_of(&l[1])?)),
        (3, 1) => host_res(coll.get_default()),
        (4, 2) => {
            let name = str_of(&l[1])?;
            for p in probes {
                (p.0)();
            }
            let (found, cleared) = coll.clear_file(&name, "k");
            let gone: Vec<usize> = probes.iter().enumerate().filter(|(_, p)| !(p.1)()).map(|(i, _)| i).collect();
            match (found, cleared, gone.as_slice()) {
                (false, false, []) => X::ok(X::opt(None)),
                (true, true, [i]) => X::ok(X::opt(Some(X::L(vec![X::n(*i), X::b(cfgs[*i].name.as_bytes())])))),
                _ => X::L(vec![X::N(94), X::bool(found), X::bool(cleared), X::L(gone.iter().map(|i| X::n(*i)).collect())]),
            }
        }
        (5, 2) => {
            let filter = opt_str(&l[1])?;
            for p in probes {
                (p.0)();
            }
            rt().block_on(coll.clear_file_caches(filter.as_deref()));
            X::L(probes.iter().enumerate().filter(|(_, p)| !(p.1)()).map(|(i, _)| X::n(i)).collect())
        }
        _ => return Err(X::bad()),
    })
}

/// input: (L ops (L query...))
fn lookup(x: &X) -> X {
    let l = match x.as_l() {
        Some(l) if l.len() == 2 => l,
        _ => return X::bad(),
    };
    let cfgs = match parse_ops(&l[0]) {
        Ok(c) => c,
        Err(e) => return e,
    };
    let qs = match l[1].as_l() {
        Some(q) => q,
        None => return X::bad(),
    };
    let mut probes: Vec<Probe> = Vec::new();
    let built = crate::guarded(|| {
        let mut b = HostCollection::builder();
        for (idx, cfg) in cfgs.iter().enumerate() {
            let h = mk_host(idx, cfg, "", Extensions::empty());
            let c1 = h.file_cache.as_ref().unwrap().cache.clone();
            let c2 = c1.clone();
            probes.push((
                Box::new(move || c1.insert("k".to_compact_string(), None)),
                Box::new(move || c2.contains_key("k")),
            ));
            b = if cfg.default { b.default(h) } else { b.insert(h) };
        }
        COLL.with(|c| *c.borrow_mut() = Some(b.build()));
        X::N(0)
    });
    if built != X::N(0) {
        return built;
    }
    let coll = COLL.with(|c| c.borrow_mut().take().unwrap());
    let mut out = Vec::new();
    for q in qs {
        out.push(crate::guarded(|| match query(&coll, &cfgs, &probes, q) {
            Ok(x) | Err(x) => x,
        }));
    }
    if out.iter().any(|o| *o == ood()) {
        return ood();
    }
    X::L(vec![X::N(0), X::L(out)])
}
thread_local! {
    static COLL: std::cell::RefCell<Option<Arc<HostCollection>>> = std::cell::RefCell::new(None);
}

// ---------------------------------------------------------------------------------------------
// loopback histories
// ---------------------------------------------------------------------------------------------
static DIR_SEQ: AtomicU64 = AtomicU64::new(0);

struct Client {
    stream: Option<tokio::net::TcpStream>,
    desc: Arc<PortDescriptor>,
}
impl Client {
    async fn connect(&mut self) -> std::io::Result<()> {
        let listener = tokio::net::TcpListener::bind("127.0.0.1:0").await?;
        let addr = listener.local_addr()?;
        let client = tokio::net::TcpStream::connect(addr).await?;
        let (server_end, peer) = listener.accept().await?;
        let desc = self.desc.clone();
        tokio::spawn(async move {
            let _ = kvarn::handle_connection(kvarn::Incoming::Tcp(server_end), peer, desc, || true).await;
        });
        self.stream = Some(client);
        Ok(())
    }
    /// Sends one request; reads one framed response.  None = closed without an answer.
    async fn exchange(&mut self, hosts: &[Vec<u8>], path: &[u8]) -> std::io::Result<Option<(u16, Vec<u8>)>> {
        use tokio::io::{AsyncReadExt, AsyncWriteExt};
        if self.stream.is_none() {
            self.connect().await?;
        }
        let s = self.stream.as_mut().unwrap();
        let mut req = Vec::new();
        req.extend_from_slice(b"GET ");
        req.extend_from_slice(path);
        req.extend_from_slice(b" HTTP/1.1\r\n");
        for h in hosts {
            req.extend_from_slice(b"Host: ");
            req.extend_from_slice(h);
            req.extend_from_slice(b"\r\n");
        }
        req.extend_from_slice(b"\r\n");
        s.write_all(&req).await?;
        let mut buf = Vec::new();
        let mut tmp = [0u8; 4096];
        let head_end;
        loop {
            if let Some(p) = buf.windows(4).position(|w| w == b"\r\n\r\n") {
                head_end = p + 4;
                break;
            }
            let n = match tokio::time::timeout(Duration::from_secs(8), s.read(&mut tmp)).await {
                Ok(Ok(n)) => n,
                Ok(Err(e)) if e.kind() == std::io::ErrorKind::ConnectionReset => 0,
                Ok(Err(e)) => return Err(e),
                Err(_) => return Err(std::io::Error::new(std::io::ErrorKind::TimedOut, "no response head")),
            };
            if n == 0 {
                self.stream = None;
                return if buf.is_empty() { Ok(None) } else { Err(std::io::Error::new(std::io::ErrorKind::UnexpectedEof, "partial head")) };
            }
            buf.extend_from_slice(&tmp[..n]);
        }
        let head = String::from_utf8_lossy(&buf[..head_end]).to_ascii_lowercase();
        let status: u16 = head.split(' ').nth(1).and_then(|s| s.parse().ok()).unwrap_or(0);
        let len: usize = head
            .lines()
            .find_map(|l| l.strip_prefix("content-length:").map(|v| v.trim().parse::<usize>().unwrap_or(0)))
            .unwrap_or(0);
        let close = head.lines().any(|l| l.starts_with("connection:") && l.contains("close"));
        while buf.len() < head_end + len {
            let n = match tokio::time::timeout(Duration::from_secs(8), s.read(&mut tmp)).await {
                Ok(Ok(n)) => n,
                Ok(Err(e)) => return Err(e),
                Err(_) => return Err(std::io::Error::new(std::io::ErrorKind::TimedOut, "no response body")),
            };
            if n == 0 {
                return Err(std::io::Error::new(std::io::ErrorKind::UnexpectedEof, "partial body"));
            }
            buf.extend_from_slice(&tmp[..n]);
        }
        let body = buf[head_end..head_end + len].to_vec();
        if close || status == 409 {
            // the server closes after a 409; start the next request on a fresh connection
            self.stream = None;
        }
        Ok(Some((status, body)))
    }
}

/// input: (L ops (L (L (L hosthdr...) path) ...))
fn conn(x: &X) -> X {
    let l = match x.as_l() {
        Some(l) if l.len() == 2 => l,
        _ => return X::bad(),
    };
    let cfgs = match parse_ops(&l[0]) {
        Ok(c) => c,
        Err(e) => return e,
    };
    let mut reqs: Vec<(Vec<Vec<u8>>, Vec<u8>)> = Vec::new();
    for r in match l[1].as_l() { Some(r) => r, None => return X::bad() } {
        match r.as_l() {
            Some([hh, X::B(p)]) => {
                let hh = match hh.as_l() { Some(h) => h, None => return X::bad() };
                let mut v = Vec::new();
                for h in hh {
                    match h.as_b() { Some(b) => v.push(b.to_vec()), None => return X::bad() }
                }
                reqs.push((v, p.clone()));
            }
            _ => return X::bad(),
        }
    }
    // fixture tree: <dir>/h<idx>/public/{f.txt,g.txt}
    let dir = format!(
        "{}/kvh-c15-{}-{}/",
        std::env::temp_dir().display(),
        std::process::id(),
        DIR_SEQ.fetch_add(1, Ordering::Relaxed)
    );
    for idx in 0..cfgs.len() {
        let p = format!("{dir}h{idx}/public");
        std::fs::create_dir_all(&p).expect("fixture dir");
        std::fs::write(format!("{p}/f.txt"), format!("file f of host {idx} h{idx}")).unwrap();
        std::fs::write(format!("{p}/g.txt"), format!("file g of host {idx} h{idx}")).unwrap();
    }
    let built = crate::guarded(|| {
        let mut b = HostCollection::builder();
        for (idx, cfg) in cfgs.iter().enumerate() {
            let mut ext = Extensions::empty();
            let counter = Arc::new(AtomicU64::new(0));
            ext.add_prepare_fn(
                Box::new(|req, _| req.uri().path().starts_with("/h")),
                prepare!(_req, host, _path, _addr, move |counter: Arc<AtomicU64>| {
                    let n = counter.fetch_add(1, Ordering::SeqCst) + 1;
                    let body = format!("handler h{} n{}", host_id(host), n);
                    FatResponse::cache(Response::new(Bytes::from(body.into_bytes())))
                }),
                extensions::Id::new(0, "marker handler"),
            );
            let h = mk_host(idx, cfg, &dir, ext);
            b = if cfg.default { b.default(h) } else { b.insert(h) };
        }
        COLL.with(|c| *c.borrow_mut() = Some(b.build()));
        X::N(0)
    });
    if built != X::N(0) {
        let _ = std::fs::remove_dir_all(&dir);
        return built;
    }
    let coll = COLL.with(|c| c.borrow_mut().take().unwrap());
    let desc = Arc::new(PortDescriptor::unsecure(8080, coll));
    let out = rt().block_on(async move {
        let mut client = Client { stream: None, desc };
        let mut out = Vec::new();
        for (hh, path) in &reqs {
            let r = client.exchange(hh, path).await;
            out.push(match r {
                Err(e) => {
                    client.stream = None;
                    X::L(vec![X::N(93), X::b(format!("{:?}", e.kind()))])
                }
                Ok(None) => X::ok(X::L(vec![X::N(0)])),
                Ok(Some((409, _))) => X::ok(X::L(vec![X::N(409)])),
                Ok(Some((200, body))) => {
                    let s = String::from_utf8_lossy(&body).to_string();
                    // "handler h<i> n<k>" | "file f of host <i> h<i>"
                    let id = s.split(' ').find_map(|w| w.strip_prefix('h').and_then(|d| d.parse::<u128>().ok()));
                    let n = s.split(' ').find_map(|w| w.strip_prefix('n').and_then(|d| d.parse::<u128>().ok())).unwrap_or(0);
                    match id {
                        Some(id) => X::ok(X::L(vec![X::N(200), X::N(id), X::N(n)])),
                        None => X::L(vec![X::N(92), X::b(body)]),
                    }
                }
                Ok(Some((st, body))) => X::L(vec![X::N(91), X::n(st), X::b(body)]),
            });
        }
        out
    });
    let _ = std::fs::remove_dir_all(&dir);
    X::L(vec![X::N(0), X::L(out)])
}

pub fn dispatch(comp: &str, x: &X) -> Option<X> {
    Some(match comp {
        "hosts.lookup" | "hosts.lookup_v0" => lookup(x),
        "hosts.conn" => conn(x),
        _ => return None,
    })
}
