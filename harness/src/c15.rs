//! C15: virtual hosts — `HostCollection` builder + lookups (direct calls) and
//! `kvarn::handle_connection` over loopback TCP with per-host marker handlers, files and caches.
use crate::xval::X;
use kvarn::prelude::*;
use std::sync::atomic::{AtomicU64, Ordering};
use std::sync::{Arc, OnceLock};
use std::time::Duration;

const OOD: u128 = 96;
fn ood() -> X {
    X::L(vec![X::N(OOD)])
}

struct Cfg {
    default: bool,
    name: String,
    alts: Vec<String>,
}

/// (L (L flag name (L alt...)) ...)
fn parse_ops(x: &X) -> Result<Vec<Cfg>, X> {
    let l = x.as_l().ok_or_else(X::bad)?;
    let mut out = Vec::new();
    for o in l {
        let o = match o.as_l() {
            Some(o) if o.len() == 3 => o,
            _ => return Err(X::bad()),
        };
        let default = o[0].as_bool().ok_or_else(X::bad)?;
        let name = String::from_utf8(o[1].as_b().ok_or_else(X::bad)?.to_vec()).map_err(|_| ood())?;
        let mut alts = Vec::new();
        for a in o[2].as_l().ok_or_else(X::bad)? {
            alts.push(String::from_utf8(a.as_b().ok_or_else(X::bad)?.to_vec()).map_err(|_| ood())?);
        }
        out.push(Cfg { default, name, alts });
    }
    Ok(out)
}

/// The id of a host is carried by the last path component `h<idx>` of `Host::path`.
fn host_id(h: &Host) -> u128 {
    let p = h.path.as_str();
    let i = p.rfind('h').expect("marker path");
    p[i + 1..].parse().expect("marker path number")
}
fn host_res(h: Option<&Host>) -> X {
    X::ok(X::opt(h.map(|h| X::L(vec![X::N(host_id(h)), X::b(h.name.as_bytes())]))))
}

type Probe = (Box<dyn Fn() + Send + Sync>, Box<dyn Fn() -> bool + Send + Sync>);

fn mk_host(idx: usize, cfg: &Cfg, dir: &str, ext: Extensions) -> Host {
    let mut h = Host::unsecure(&cfg.name, format!("{dir}h{idx}"), ext, host::Options::default());
    h.limiter.disable();
    for a in &cfg.alts {
        h.add_alternative_name(a);
    }
    h
}

fn request(hosts: &[&[u8]], authority: Option<&[u8]>) -> Option<FatRequest> {
    let uri = match authority {
        Some(a) => {
            let mut u = b"http://".to_vec();
            u.extend_from_slice(a);
            u.extend_from_slice(b"/");
            Uri::try_from(&u[..]).ok()?
        }
        None => Uri::from_static("/"),
    };
    let mut b = Request::builder().uri(uri).method("GET");
    for h in hosts {
        b = b.header("host", HeaderValue::from_bytes(h).ok()?);
    }
    b.body(kvarn::application::Body::Bytes(Bytes::new().into())).ok()
}

fn rt() -> &'static tokio::runtime::Runtime {
    static RT: OnceLock<tokio::runtime::Runtime> = OnceLock::new();
    RT.get_or_init(|| {
        tokio::runtime::Builder::new_multi_thread()
            .worker_threads(2)
            .enable_all()
            .build()
            .expect("tokio runtime")
    })
}

fn opt_str(x: &X) -> Result<Option<String>, X> {
    match x.as_opt() {
        Some(None) => Ok(None),
        Some(Some(v)) => Ok(Some(String::from_utf8(v.as_b().ok_or_else(X::bad)?.to_vec()).map_err(|_| ood())?)),
        None => Err(X::bad()),
    }
}
fn str_of(x: &X) -> Result<String, X> {
    String::from_utf8(x.as_b().ok_or_else(X::bad)?.to_vec()).map_err(|_| ood())
}

fn query(coll: &HostCollection, cfgs: &[Cfg], probes: &[Probe], q: &X) -> Result<X, X> {
    let l = q.as_l().ok_or_else(X::bad)?;
    let kind = l.first().and_then(X::as_n).ok_or_else(X::bad)?;
    Ok(match (kind, l.len()) {
        (0, 3) | (6, 3) | (7, 4) => {
            let sni = opt_str(&l[1])?;
            let hh: Vec<&[u8]> = l[2].as_l().ok_or_else(X::bad)?.iter().map(|h| h.as_b().ok_or_else(X::bad)).collect::<Result<_, _>>()?;
            // kind 7: the request's URI has an authority (as the URI of an HTTP/2 request has)
            let authority = if kind == 7 { Some(l[3].as_b().ok_or_else(X::bad)?) } else { None };
            let req = request(&hh, authority).ok_or_else(ood)?;
            let r = coll.get_from_request(&req, sni.as_deref());
            if kind == 0 || kind == 7 {
                host_res(r)
            } else {
                // the host choice of handle_connection: None => 409; else re-lookup by the host's own name, unwrap
                match r {
                    None => X::ok(X::L(vec![X::N(409)])),
                    Some(h) => {
                        let h2 = coll.get_host(&h.name).unwrap();
                        X::ok(X::L(vec![X::N(200), X::N(host_id(h2))]))
                    }
                }
            }
        }
        (1, 2) => host_res(coll.get_host(&str_of(&l[1])?)),
        (2, 2) => host_res(coll.get_or_default(&str_of(&l[1])?)),
        (3, 1) => host_res(coll.get_default()),
        (4, 2) => {
            let name = str_of(&l[1])?;
            for p in probes {
                (p.0)();
            }
            let (found, cleared) = coll.clear_file(&name, "k");
            let gone: Vec<usize> = probes.iter().enumerate().filter(|(_, p)| !(p.1)()).map(|(i, _)| i).collect();
            match (found, cleared, gone.as_slice()) {
                (false, false, []) => X::ok(X::opt(None)),
                (true, true, [i]) => X::ok(X::opt(Some(X::L(vec![X::n(*i), X::b(cfgs[*i].name.as_bytes())])))),
                _ => X::L(vec![X::N(94), X::bool(found), X::bool(cleared), X::L(gone.iter().map(|i| X::n(*i)).collect())]),
            }
        }
        (5, 2) => {
            let filter = opt_str(&l[1])?;
            for p in probes {
                (p.0)();
            }
            rt().block_on(coll.clear_file_caches(filter.as_deref()));
            X::L(probes.iter().enumerate().filter(|(_, p)| !(p.1)()).map(|(i, _)| X::n(i)).collect())
        }
        _ => return Err(X::bad()),
    })
}

/// input: (L ops (L query...))
fn lookup(x: &X) -> X {
    let l = match x.as_l() {
        Some(l) if l.len() == 2 => l,
        _ => return X::bad(),
    };
    let cfgs = match parse_ops(&l[0]) {
        Ok(c) => c,
        Err(e) => return e,
    };
    let qs = match l[1].as_l() {
        Some(q) => q,
        None => return X::bad(),
    };
    let mut probes: Vec<Probe> = Vec::new();
    let built = crate::guarded(|| {
        let mut b = HostCollection::builder();
        for (idx, cfg) in cfgs.iter().enumerate() {
            let h = mk_host(idx, cfg, "", Extensions::empty());
            let c1 = h.file_cache.as_ref().unwrap().cache.clone();
            let c2 = c1.clone();
            probes.push((
                Box::new(move || c1.insert("k".to_compact_string(), None)),
                Box::new(move || c2.contains_key("k")),
            ));
            b = if cfg.default { b.default(h) } else { b.insert(h) };
        }
        COLL.with(|c| *c.borrow_mut() = Some(b.build()));
        X::N(0)
    });
    if built != X::N(0) {
        return built;
    }
    let coll = COLL.with(|c| c.borrow_mut().take().unwrap());
    let mut out = Vec::new();
    for q in qs {
        out.push(crate::guarded(|| match query(&coll, &cfgs, &probes, q) {
            Ok(x) | Err(x) => x,
        }));
    }
    if out.iter().any(|o| *o == ood()) {
        return ood();
    }
    X::L(vec![X::N(0), X::L(out)])
}
thread_local! {
    static COLL: std::cell::RefCell<Option<Arc<HostCollection>>> = std::cell::RefCell::new(None);
}

// ---------------------------------------------------------------------------------------------
// histories over loopback connections: plain HTTP/1.x, HTTP/1.1 over TLS, HTTP/2 over TLS
// ---------------------------------------------------------------------------------------------
//
// hosts.wire   (L hosts reqs)
//   hosts = (L (L default name (L alt...) opts) ...)   opts: bit 0 = built by `clone_without_extensions` of the host before it,
//                                                            bit 1 = shares `Host::path` with host 0 (own public directory)
//   req   = (L transport sni v10 method (L hosthdr...) authority path flags)
//           transport 0 = plain TCP HTTP/1.x, 1 = TLS + HTTP/1.1 (ALPN http/1.1), 2 = TLS + HTTP/2 (ALPN h2)
//           sni       (L) | (L name): the SNI the client sends (TLS only; none = the client connects "by IP address")
//           v10       HTTP/1.0 request line (HTTP/1.x only; a connection of its own)
//           authority (L) | (L bytes): `:authority` of an HTTP/2 request
//           flags     bit 0 accept-encoding: gzip, bit 1 if-modified-since far in the future, bit 2 if-modified-since in the past
//   reply = (L (N 0) (L (N 0)))          connection closed without an answer
//         | (L (N 0) (L (N 1)))          the TLS handshake was refused
//         | (L (N 0) (L (N 409)))  | (L (N 0) (L (N 304)))
//         | (L (N 0) (L (N 200) host n)) marker of the host that answered and the invocation number of its handler
//         | (L (N 0) (L (N 3) status))   another status
static DIR_SEQ: AtomicU64 = AtomicU64::new(0);
const T: Duration = Duration::from_secs(12);

trait Io: tokio::io::AsyncRead + tokio::io::AsyncWrite + Unpin + Send + Sync {}
impl<S: tokio::io::AsyncRead + tokio::io::AsyncWrite + Unpin + Send + Sync> Io for S {}

/// harness trouble (not an outcome of the code): the whole case is reported as `(L (N 93) what)` and run again by the runner
struct Trouble(String);
type R<V> = Result<V, Trouble>;
fn trouble<E: std::fmt::Display>(what: &'static str) -> impl Fn(E) -> Trouble {
    move |e| Trouble(format!("{what}: {e}"))
}

mod tlsc {
    use super::*;
    use rustls::client::danger::{HandshakeSignatureValid, ServerCertVerified, ServerCertVerifier};
    use rustls::pki_types::{CertificateDer, ServerName, UnixTime};
    /// The hosts of a history all present the same self-signed certificate whatever their name: the client accepts it.
    #[derive(Debug)]
    struct AnyCert(Arc<rustls::crypto::CryptoProvider>);
    impl ServerCertVerifier for AnyCert {
        fn verify_server_cert(&self, _: &CertificateDer<'_>, _: &[CertificateDer<'_>], _: &ServerName<'_>, _: &[u8], _: UnixTime) -> Result<ServerCertVerified, rustls::Error> {
            Ok(ServerCertVerified::assertion())
        }
        fn verify_tls12_signature(&self, m: &[u8], c: &CertificateDer<'_>, d: &rustls::DigitallySignedStruct) -> Result<HandshakeSignatureValid, rustls::Error> {
            rustls::crypto::verify_tls12_signature(m, c, d, &self.0.signature_verification_algorithms)
        }
        fn verify_tls13_signature(&self, m: &[u8], c: &CertificateDer<'_>, d: &rustls::DigitallySignedStruct) -> Result<HandshakeSignatureValid, rustls::Error> {
            rustls::crypto::verify_tls13_signature(m, c, d, &self.0.signature_verification_algorithms)
        }
        fn supported_verify_schemes(&self) -> Vec<rustls::SignatureScheme> {
            self.0.signature_verification_algorithms.supported_schemes()
        }
    }
    pub struct Tls {
        pub key: Arc<rustls::sign::CertifiedKey>,
        pub h1: Arc<rustls::ClientConfig>,
        pub h2: Arc<rustls::ClientConfig>,
    }
    pub fn tls() -> &'static Tls {
        static TLS: OnceLock<Tls> = OnceLock::new();
        TLS.get_or_init(|| {
            use rustls::pki_types::PrivateKeyDer;
            let provider = Arc::new(rustls::crypto::ring::default_provider());
            let ss = rcgen::generate_simple_self_signed(vec!["localhost".to_string()]).expect("self-signed certificate");
            let cert = ss.cert.der().clone();
            let pk = PrivateKeyDer::Pkcs8(ss.key_pair.serialized_der().to_vec().into());
            let pk = rustls::crypto::ring::sign::any_supported_type(&pk).expect("key type");
            let key = Arc::new(rustls::sign::CertifiedKey::new(vec![cert], pk));
            let mk = |alpn: &[u8]| {
                let mut c = rustls::ClientConfig::builder_with_provider(provider.clone())
                    .with_safe_default_protocol_versions()
                    .expect("versions")
                    .dangerous()
                    .with_custom_certificate_verifier(Arc::new(AnyCert(provider.clone())))
                    .with_no_client_auth();
                c.alpn_protocols = vec![alpn.to_vec()];
                Arc::new(c)
            };
            Tls { key, h1: mk(b"http/1.1"), h2: mk(b"h2") }
        })
    }
}

#[derive(Clone)]
struct WReq {
    tr: u128,
    sni: Option<String>,
    v10: bool,
    method: Vec<u8>,
    hosts: Vec<Vec<u8>>,
    authority: Option<Vec<u8>>,
    path: Vec<u8>,
    flags: u128,
}

enum Wire {
    Closed,
    NoTls,
    Status(u16),
    Marker(u128, u128),
    /// an answer that is neither: the marker is malformed, or closure and `&Host` argument disagree
    Odd(Vec<u8>),
}
impl Wire {
    fn x(&self) -> X {
        match self {
            Wire::Closed => X::ok(X::L(vec![X::N(0)])),
            Wire::NoTls => X::ok(X::L(vec![X::N(1)])),
            Wire::Status(409) => X::ok(X::L(vec![X::N(409)])),
            Wire::Status(304) => X::ok(X::L(vec![X::N(304)])),
            Wire::Status(s) => X::ok(X::L(vec![X::N(3), X::n(*s)])),
            Wire::Marker(h, n) => X::ok(X::L(vec![X::N(200), X::N(*h), X::N(*n)])),
            Wire::Odd(b) => X::L(vec![X::N(92), X::b(b)]),
        }
    }
}

/// "handler c<i> h<i> n<k>" | "file f of host <i> h<i>"
fn parse_marker(s: &[u8]) -> Wire {
    let t = String::from_utf8_lossy(s).to_string();
    let num = |p: char| t.split(' ').find_map(|w| w.strip_prefix(p).and_then(|d| d.parse::<u128>().ok()));
    match (num('h'), num('c'), num('n')) {
        (Some(h), Some(c), Some(n)) if h == c => Wire::Marker(h, n),
        (Some(h), None, None) if t.starts_with("file ") => Wire::Marker(h, 0),
        _ => Wire::Odd(s.to_vec()),
    }
}

struct Reply {
    status: u16,
    marker: Option<Vec<u8>>,
    encoding: Option<Vec<u8>>,
    body: Vec<u8>,
}
fn classify_reply(r: Reply) -> Wire {
    if r.status != 200 {
        return Wire::Status(r.status);
    }
    if let Some(m) = r.marker {
        // the body, when there is one, says the same as the header
        if !r.body.is_empty() {
            let (decoded, ok) = crate::c00pipe::decode_body(r.encoding.as_deref(), &r.body);
            if !ok || decoded != m {
                return Wire::Odd(r.body);
            }
        }
        return parse_marker(&m);
    }
    let (decoded, ok) = crate::c00pipe::decode_body(r.encoding.as_deref(), &r.body);
    if !ok {
        return Wire::Odd(r.body);
    }
    parse_marker(&decoded)
}

enum Conn {
    H1(Box<dyn Io>),
    H2(h2::client::SendRequest<Bytes>),
}

struct Client {
    desc_plain: Arc<PortDescriptor>,
    desc_tls: Arc<PortDescriptor>,
    conns: std::collections::HashMap<(u128, Option<String>), Conn>,
}

enum Opened {
    Conn(Conn),
    NoTls,
}

impl Client {
    async fn tcp(&self, secure: bool) -> R<tokio::net::TcpStream> {
        let listener = tokio::net::TcpListener::bind("127.0.0.1:0").await.map_err(trouble("bind"))?;
        let addr = listener.local_addr().map_err(trouble("addr"))?;
        let client = tokio::net::TcpStream::connect(addr).await.map_err(trouble("connect"))?;
        let (server_end, peer) = listener.accept().await.map_err(trouble("accept"))?;
        let desc = if secure { self.desc_tls.clone() } else { self.desc_plain.clone() };
        tokio::spawn(async move {
            let _ = kvarn::handle_connection(kvarn::Incoming::Tcp(server_end), peer, desc, || true).await;
        });
        let _ = client.set_nodelay(true);
        Ok(client)
    }
    async fn open(&self, r: &WReq) -> R<Opened> {
        if r.tr == 0 {
            return Ok(Opened::Conn(Conn::H1(Box::new(self.tcp(false).await?))));
        }
        let cfg = if r.tr == 1 { tlsc::tls().h1.clone() } else { tlsc::tls().h2.clone() };
        // a client that connects to an IP address sends no SNI
        let name = match &r.sni {
            Some(n) => rustls::pki_types::ServerName::try_from(n.clone()).map_err(|_| Trouble("OOD".into()))?,
            None => rustls::pki_types::ServerName::IpAddress(std::net::IpAddr::from([127, 0, 0, 1]).into()),
        };
        // the server refuses the handshake (alert, or it closes the connection) deterministically: a handshake that fails is
        // tried once more on a fresh connection, so that a connection lost under load is not taken for a refusal
        let mut attempt = 0;
        let s = loop {
            let tcp = self.tcp(true).await?;
            match tokio::time::timeout(T, tokio_rustls::TlsConnector::from(cfg.clone()).connect(name.clone(), tcp)).await {
                Err(_) => return Err(Trouble("timeout: TLS handshake".into())),
                Ok(Err(_)) if attempt == 0 => attempt += 1,
                Ok(Err(_)) => return Ok(Opened::NoTls),
                Ok(Ok(s)) => break s,
            }
        };
        let want: &[u8] = if r.tr == 1 { b"http/1.1" } else { b"h2" };
        if s.get_ref().1.alpn_protocol() != Some(want) {
            return Err(Trouble(format!("ALPN: negotiated {:?}", s.get_ref().1.alpn_protocol())));
        }
        if r.tr == 1 {
            return Ok(Opened::Conn(Conn::H1(Box::new(s))));
        }
        let (send, conn) = tokio::time::timeout(T, h2::client::Builder::new().handshake::<_, Bytes>(s))
            .await
            .map_err(|_| Trouble("timeout: h2 handshake".into()))?
            .map_err(trouble("h2 handshake"))?;
        tokio::spawn(async move {
            let _ = conn.await;
        });
        Ok(Opened::Conn(Conn::H2(send)))
    }

    async fn exchange(&mut self, r: &WReq) -> R<Wire> {
        let key = (r.tr, r.sni.clone());
        // an HTTP/1.0 exchange has a connection of its own
        let reused = if r.v10 { None } else { self.conns.remove(&key) };
        let was_reused = reused.is_some();
        let conn = match reused {
            Some(c) => c,
            None => match self.open(r).await? {
                Opened::NoTls => return Ok(Wire::NoTls),
                Opened::Conn(c) => c,
            },
        };
        let (w, keep) = self.exchange_on(conn, r).await?;
        // a kept-alive connection may have been closed by the server since its last exchange: that is no answer to this request
        let (w, keep) = if was_reused && matches!(w, Wire::Closed) {
            match self.open(r).await? {
                Opened::NoTls => return Ok(Wire::NoTls),
                Opened::Conn(c) => self.exchange_on(c, r).await?,
            }
        } else {
            (w, keep)
        };
        if let Some(c) = keep {
            if !r.v10 {
                self.conns.insert(key, c);
            }
        }
        Ok(w)
    }

    async fn exchange_on(&mut self, conn: Conn, r: &WReq) -> R<(Wire, Option<Conn>)> {
        match conn {
            Conn::H1(mut s) => {
                let (reply, keep) = h1_exchange(&mut s, r).await?;
                match reply {
                    None => Ok((Wire::Closed, None)),
                    Some(rep) => {
                        // the server closes after a 409
                        let keep = keep && rep.status != 409;
                        Ok((classify_reply(rep), if keep { Some(Conn::H1(s)) } else { None }))
                    }
                }
            }
            Conn::H2(send) => {
                let mut uri = b"https://".to_vec();
                uri.extend_from_slice(r.authority.as_deref().unwrap_or(b"localhost"));
                uri.extend_from_slice(&r.path);
                // (not expressible with this HTTP/2 client: out of domain)
                let mut b = Request::builder().method(Method::from_bytes(&r.method).map_err(|_| Trouble("OOD".into()))?).uri(Uri::try_from(&uri[..]).map_err(|_| Trouble("OOD".into()))?);
                for h in &r.hosts {
                    b = b.header("host", HeaderValue::from_bytes(h).map_err(|_| Trouble("OOD".into()))?);
                }
                for (n, v) in extra_headers(r) {
                    b = b.header(n, v);
                }
                let req = b.body(()).map_err(|_| Trouble("OOD".into()))?;
                let mut send = match tokio::time::timeout(T, send.ready()).await {
                    Err(_) => return Err(Trouble("timeout: h2 ready".into())),
                    Ok(Err(_)) => return Ok((Wire::Closed, None)),
                    Ok(Ok(s)) => s,
                };
                let (resp, _stream) = match send.send_request(req, true) {
                    Ok(x) => x,
                    Err(_) => return Ok((Wire::Closed, None)),
                };
                let resp = match tokio::time::timeout(T, resp).await {
                    Err(_) => return Err(Trouble("timeout: h2 response head".into())),
                    Ok(Err(_)) => return Ok((Wire::Closed, None)),
                    Ok(Ok(r)) => r,
                };
                let (parts, mut body) = resp.into_parts();
                let mut data = Vec::new();
                loop {
                    match tokio::time::timeout(T, body.data()).await {
                        Err(_) => return Err(Trouble("timeout: h2 body".into())),
                        Ok(None) => break,
                        Ok(Some(Err(e))) => return Err(Trouble(format!("h2 body: {e}"))),
                        Ok(Some(Ok(chunk))) => {
                            let _ = body.flow_control().release_capacity(chunk.len());
                            data.extend_from_slice(&chunk);
                        }
                    }
                }
                let status = parts.status.as_u16();
                let rep = Reply {
                    status,
                    marker: parts.headers.get("x-marker").map(|v| v.as_bytes().to_vec()),
                    encoding: parts.headers.get("content-encoding").map(|v| v.as_bytes().to_vec()),
                    body: data,
                };
                Ok((classify_reply(rep), if status == 409 { None } else { Some(Conn::H2(send)) }))
            }
        }
    }
}

fn extra_headers(r: &WReq) -> Vec<(&'static str, String)> {
    let mut v = Vec::new();
    if r.flags & 1 != 0 {
        v.push(("accept-encoding", "gzip".to_string()));
    }
    if r.flags & 2 != 0 {
        v.push(("if-modified-since", "Fri, 01 Jan 2100 00:00:00 GMT".to_string()));
    }
    if r.flags & 4 != 0 {
        v.push(("if-modified-since", "Mon, 01 Jan 1990 00:00:00 GMT".to_string()));
    }
    v
}

/// Sends one HTTP/1.x request; reads one framed response.  `None` = closed without an answer.  The flag: may be used again.
async fn h1_exchange(s: &mut Box<dyn Io>, r: &WReq) -> R<(Option<Reply>, bool)> {
    use tokio::io::{AsyncReadExt, AsyncWriteExt};
    let mut req = Vec::new();
    req.extend_from_slice(&r.method);
    req.push(b' ');
    req.extend_from_slice(&r.path);
    req.extend_from_slice(if r.v10 { b" HTTP/1.0\r\n" } else { b" HTTP/1.1\r\n" });
    for h in &r.hosts {
        req.extend_from_slice(b"Host: ");
        req.extend_from_slice(h);
        req.extend_from_slice(b"\r\n");
    }
    for (n, v) in extra_headers(r) {
        req.extend_from_slice(format!("{n}: {v}\r\n").as_bytes());
    }
    if r.method != b"GET" && r.method != b"HEAD" {
        req.extend_from_slice(b"content-length: 0\r\n");
    }
    req.extend_from_slice(b"\r\n");
    // a server that has closed already may reset the connection while we write: that is "closed", too
    if s.write_all(&req).await.is_err() || s.flush().await.is_err() {
        return Ok((None, false));
    }
    let mut buf = Vec::new();
    let mut tmp = [0u8; 4096];
    let head_end;
    loop {
        if let Some(p) = buf.windows(4).position(|w| w == b"\r\n\r\n") {
            head_end = p + 4;
            break;
        }
        let n = match tokio::time::timeout(T, s.read(&mut tmp)).await {
            Ok(Ok(n)) => n,
            // reset, or a TLS connection closed without close_notify
            Ok(Err(_)) => 0,
            Err(_) => return Err(Trouble("timeout: no response head".into())),
        };
        if n == 0 {
            return if buf.is_empty() { Ok((None, false)) } else { Err(Trouble("partial response head".into())) };
        }
        buf.extend_from_slice(&tmp[..n]);
    }
    let head = String::from_utf8_lossy(&buf[..head_end]).to_string();
    let lower = head.to_ascii_lowercase();
    let status: u16 = head.split(' ').nth(1).and_then(|s| s.parse().ok()).unwrap_or(0);
    let value = |name: &str| -> Option<Vec<u8>> {
        head.lines().zip(lower.lines()).find_map(|(l, ll)| ll.strip_prefix(name).map(|_| l[name.len()..].trim().as_bytes().to_vec()))
    };
    let no_body = r.method == b"HEAD" || status == 304 || status == 204;
    let len: usize = if no_body { 0 } else { value("content-length:").and_then(|v| String::from_utf8_lossy(&v).parse().ok()).unwrap_or(0) };
    let close = r.v10 || lower.lines().any(|l| l.starts_with("connection:") && l.contains("close"));
    while buf.len() < head_end + len {
        let n = match tokio::time::timeout(T, s.read(&mut tmp)).await {
            Ok(Ok(n)) => n,
            Ok(Err(e)) => return Err(Trouble(format!("response body: {e}"))),
            Err(_) => return Err(Trouble("timeout: no response body".into())),
        };
        if n == 0 {
            return Err(Trouble("partial response body".into()));
        }
        buf.extend_from_slice(&tmp[..n]);
    }
    if buf.len() != head_end + len {
        return Err(Trouble("bytes after the response".into()));
    }
    let rep = Reply { status, marker: value("x-marker:"), encoding: value("content-encoding:"), body: buf[head_end..].to_vec() };
    Ok((Some(rep), !close))
}

fn parse_whosts(x: &X) -> Result<Vec<(Cfg, u128)>, X> {
    let mut out = Vec::new();
    for o in x.as_l().ok_or_else(X::bad)? {
        let o = match o.as_l() {
            Some(o) if o.len() == 4 => o,
            _ => return Err(X::bad()),
        };
        let mut c = parse_ops(&X::L(vec![X::L(o[..3].to_vec())]))?;
        out.push((c.remove(0), o[3].as_n().ok_or_else(X::bad)?));
    }
    Ok(out)
}

fn parse_wreq(x: &X) -> Result<WReq, X> {
    let l = match x.as_l() {
        Some(l) if l.len() == 8 => l,
        _ => return Err(X::bad()),
    };
    let tr = l[0].as_n().filter(|t| *t <= 2).ok_or_else(X::bad)?;
    let sni = opt_str(&l[1])?;
    let v10 = l[2].as_bool().ok_or_else(X::bad)?;
    let method = l[3].as_b().ok_or_else(X::bad)?.to_vec();
    let mut hosts = Vec::new();
    for h in l[4].as_l().ok_or_else(X::bad)? {
        hosts.push(h.as_b().ok_or_else(X::bad)?.to_vec());
    }
    let authority = match l[5].as_opt() {
        Some(a) => match a {
            Some(a) => Some(a.as_b().ok_or_else(X::bad)?.to_vec()),
            None => None,
        },
        None => return Err(X::bad()),
    };
    let path = l[6].as_b().ok_or_else(X::bad)?.to_vec();
    let flags = l[7].as_n().ok_or_else(X::bad)?;
    // what the model covers (Model/Hosts.v d_wreq)
    if (tr == 0 && sni.is_some())
        || (tr == 2 && (v10 || authority.is_none()))
        || (tr != 2 && authority.is_some())
        || (flags & 2 != 0 && flags & 4 != 0)
        || flags >= 8
        || !path.starts_with(b"/")
        || !(path.starts_with(b"/h") || (method == b"GET" && flags < 2))
    {
        return Err(X::bad());
    }
    // outside what the clients of this harness can put on the wire
    if sni.as_ref().map_or(false, |n| {
        rustls::pki_types::ServerName::try_from(n.as_str()).map_or(true, |n| !matches!(n, rustls::pki_types::ServerName::DnsName(_)))
            || n.ends_with('.')
            || n.bytes().any(|c| c.is_ascii_uppercase())
    }) || hosts.iter().any(|h| {
        h.iter().any(|c| *c == b'\r' || *c == b'\n' || *c == 0)
            || h.first().map_or(false, |c| *c == b' ' || *c == b'\t')
            || h.last().map_or(false, |c| *c == b' ' || *c == b'\t')
    }) || Method::from_bytes(&method).is_err()
        || path.iter().any(|c| *c <= b' ' || *c >= 127)
    {
        return Err(ood());
    }
    Ok(WReq { tr, sni, v10, method, hosts, authority, path, flags })
}

/// The id of a host of a history is carried by its public directory `public-h<idx>`.
fn whost_id(h: &Host) -> u128 {
    h.options.get_public_data_dir().rsplit('h').next().and_then(|d| d.parse().ok()).expect("marker directory")
}

/// `clients`: hosts.wire2 — the second element is a list of histories, one per client; the clients run concurrently
/// against the same server, each over its own connections.
fn wire(x: &X, clients: bool) -> X {
    let l = match x.as_l() {
        Some(l) if l.len() == 2 => l,
        _ => return X::bad(),
    };
    let cfgs = match parse_whosts(&l[0]) {
        Ok(c) => c,
        Err(e) => return e,
    };
    let histories: Vec<&X> = if clients {
        match l[1].as_l() {
            Some(h) => h.iter().collect(),
            None => return X::bad(),
        }
    } else {
        vec![&l[1]]
    };
    let mut all_reqs = Vec::new();
    for h in histories {
        let mut reqs = Vec::new();
        for r in match h.as_l() { Some(r) => r, None => return X::bad() } {
            match parse_wreq(r) {
                Ok(r) => reqs.push(r),
                Err(e) => return e,
            }
        }
        all_reqs.push(reqs);
    }
    // fixture tree: <dir>/h<idx>/public-h<idx>/{f.txt,g.txt}; a host that shares the path of host 0: <dir>/h0/public-h<idx>/..
    let dir = format!("{}/kvh-c15-{}-{}/", std::env::temp_dir().display(), std::process::id(), DIR_SEQ.fetch_add(1, Ordering::Relaxed));
    let path_of = |idx: usize| if cfgs[idx].1 & 2 != 0 { format!("{dir}h0") } else { format!("{dir}h{idx}") };
    for idx in 0..cfgs.len() {
        let p = format!("{}/public-h{idx}", path_of(idx));
        std::fs::create_dir_all(&p).expect("fixture dir");
        std::fs::write(format!("{p}/f.txt"), format!("file f of host {idx} h{idx}")).unwrap();
        std::fs::write(format!("{p}/g.txt"), format!("file g of host {idx} h{idx}")).unwrap();
    }
    let built = crate::guarded(|| {
        let mut hosts: Vec<Host> = Vec::new();
        for (idx, (cfg, opts)) in cfgs.iter().enumerate() {
            let mut ext = Extensions::empty();
            let counter = Arc::new(AtomicU64::new(0));
            ext.add_prepare_fn(
                Box::new(|req, _| req.uri().path().starts_with("/h")),
                prepare!(_req, host, _path, _addr, move |counter: Arc<AtomicU64>, idx: usize| {
                    let n = counter.fetch_add(1, Ordering::SeqCst) + 1;
                    // the closure says which host it was mounted on, the argument which host the request was handed to
                    let body = format!("handler c{} h{} n{}", idx, whost_id(host), n);
                    let mut resp = Response::new(Bytes::from(body.clone().into_bytes()));
                    resp.headers_mut().insert("x-marker", HeaderValue::from_str(&body).unwrap());
                    FatResponse::cache(resp)
                }),
                extensions::Id::new(0, "marker handler"),
            );
            let mut options = host::Options::default();
            options.set_public_data_dir(format!("public-h{idx}"));
            let mut h = if opts & 1 != 0 && idx > 0 {
                let mut h = hosts[idx - 1].clone_without_extensions();
                h.name = cfg.name.as_str().into();
                h.alternative_names.clear();
                h.path = path_of(idx).into();
                h.extensions = ext;
                h.options = options;
                h
            } else {
                Host::unsecure(&cfg.name, path_of(idx), ext, options)
            };
            h.limiter.disable();
            for a in &cfg.alts {
                h.add_alternative_name(a);
            }
            *h.certificate.write().unwrap() = Some(tlsc::tls().key.clone());
            hosts.push(h);
        }
        let mut b = HostCollection::builder();
        for (h, (cfg, _)) in hosts.into_iter().zip(cfgs.iter()) {
            b = if cfg.default { b.default(h) } else { b.insert(h) };
        }
        COLL.with(|c| *c.borrow_mut() = Some(b.build()));
        X::N(0)
    });
    if built != X::N(0) {
        let _ = std::fs::remove_dir_all(&dir);
        return built;
    }
    let coll = COLL.with(|c| c.borrow_mut().take().unwrap());
    let out: R<Vec<X>> = rt().block_on(async move {
        let desc_plain = Arc::new(PortDescriptor::unsecure(8080, coll.clone()));
        let desc_tls = Arc::new(PortDescriptor::new(8443, coll));
        let mut tasks = Vec::new();
        for reqs in all_reqs {
            let mut client = Client { desc_plain: desc_plain.clone(), desc_tls: desc_tls.clone(), conns: Default::default() };
            tasks.push(tokio::spawn(async move {
                let mut out = Vec::new();
                for r in &reqs {
                    out.push(client.exchange(r).await?.x());
                }
                Ok::<_, Trouble>(out)
            }));
        }
        let mut outs = Vec::new();
        for t in tasks {
            outs.push(X::L(t.await.map_err(trouble("client task"))??));
        }
        Ok(outs)
    });
    let _ = std::fs::remove_dir_all(&dir);
    match out {
        Ok(mut outs) if !clients => X::L(vec![X::N(0), outs.remove(0)]),
        Ok(outs) => X::L(vec![X::N(0), X::L(outs)]),
        Err(Trouble(what)) if what == "OOD" => ood(),
        Err(Trouble(what)) => X::L(vec![X::N(93), X::b(what)]),
    }
}

pub fn dispatch(comp: &str, x: &X) -> Option<X> {
    Some(match comp {
        "hosts.lookup" | "hosts.lookup_v0" => lookup(x),
        "hosts.wire" => wire(x, false),
        "hosts.wire2" => wire(x, true),
        _ => return None,
    })
}
