//! C18: `WriteableBytes`, `BytesCow::replace`, `read_to_end_or_max`, `kvarn::read::file` (the cached variants are in c18files.rs).
//! Every component takes a trailing "junk" field that only the model uses (there it decides the contents of
//! uninitialised memory).  On this side uninitialised memory is made recognisable instead: the harness installs a
//! poisoning global allocator, every C18 component runs the real code twice with two different poison bytes, and a
//! result that differs between the two runs is reported as `(L (N 91) run1 run2)` — "depends on bytes nobody wrote".
use crate::xval::X;
use bytes::{Buf, Bytes, BytesMut};
use kvarn_utils::{BytesCow, WriteableBytes};
use std::future::Future;
use std::io::Write;
use std::pin::Pin;
use std::task::{Context, Poll, Waker};
use tokio::io::{AsyncRead, ReadBuf};

/// Global allocator of the harness binary: the system allocator, except that while a poison byte is set every
/// fresh allocation, every region gained by `realloc` and every freed block is filled with it (freed blocks with its
/// complement).  Off (`MODE == 0`) it is a plain pass-through; only the C18 components switch it on.
pub mod poison {
    use std::alloc::{GlobalAlloc, Layout, System};
    use std::sync::atomic::{AtomicUsize, Ordering};

    static MODE: AtomicUsize = AtomicUsize::new(0);

    pub struct Poison;
    unsafe impl GlobalAlloc for Poison {
        unsafe fn alloc(&self, l: Layout) -> *mut u8 {
            let p = System.alloc(l);
            let m = MODE.load(Ordering::Relaxed);
            if m != 0 && !p.is_null() {
                std::ptr::write_bytes(p, m as u8, l.size());
            }
            p
        }
        unsafe fn alloc_zeroed(&self, l: Layout) -> *mut u8 {
            System.alloc_zeroed(l)
        }
        unsafe fn dealloc(&self, p: *mut u8, l: Layout) {
            let m = MODE.load(Ordering::Relaxed);
            if m != 0 {
                std::ptr::write_bytes(p, !(m as u8), l.size());
            }
            System.dealloc(p, l)
        }
        unsafe fn realloc(&self, p: *mut u8, l: Layout, new: usize) -> *mut u8 {
            let q = System.realloc(p, l, new);
            let m = MODE.load(Ordering::Relaxed);
            if m != 0 && !q.is_null() && new > l.size() {
                std::ptr::write_bytes(q.add(l.size()), m as u8, new - l.size());
            }
            q
        }
    }
    #[global_allocator]
    static ALLOC: Poison = Poison;

    pub fn set(byte: Option<u8>) {
        MODE.store(byte.map_or(0, |b| 0x100 | b as usize), Ordering::SeqCst);
    }
}

/// Runs the real code under two poison bytes; the answers must not differ.
pub fn twice(f: impl Fn() -> X) -> X {
    poison::set(Some(0xA5));
    let a = crate::guarded(&f);
    poison::set(Some(0x3C));
    let b = crate::guarded(&f);
    poison::set(None);
    let trouble = |x: &X| matches!(x.as_l(), Some([X::N(93), ..]));
    if trouble(&a) {
        return a;
    }
    if trouble(&b) {
        return b;
    }
    if a == b {
        a
    } else {
        X::L(vec![X::N(91), a, b])
    }
}

fn usize_of(x: &X) -> Option<usize> {
    usize::try_from(x.as_n()?).ok()
}

/// A `BytesMut` with the given contents and exactly `spare` bytes of spare capacity
/// (`Vec::with_capacity(n)` of `u8` records exactly `n`).
fn bytes_mut(init: &[u8], spare: usize) -> BytesMut {
    let mut b = BytesMut::with_capacity(init.len() + spare);
    b.extend_from_slice(init);
    b
}

/// The same contents and spare capacity in the other representations a `BytesMut` can be in (they grow differently):
///   0 = fresh vector | 1 = vector advanced past a 7-byte prefix | 2 = allocation shared with a live (empty) tail
///   3 = shared representation whose other handle is gone | 4 = advanced past a prefix longer than contents + spare
fn stored(kind: u128, init: &[u8], spare: usize) -> Option<(BytesMut, Option<BytesMut>)> {
    Some(match kind {
        0 => (bytes_mut(init, spare), None),
        1 => {
            let mut b = BytesMut::with_capacity(7 + init.len() + spare);
            b.extend_from_slice(b"prefix!");
            b.extend_from_slice(init);
            b.advance(7);
            (b, None)
        }
        2 | 3 => {
            let mut b = BytesMut::with_capacity(init.len() + spare + 5);
            b.extend_from_slice(init);
            let t = b.split_off(init.len() + spare);
            if kind == 2 { (b, Some(t)) } else { (b, None) }
        }
        4 => {
            let off = init.len() + spare + 2048;
            let mut b = BytesMut::with_capacity(off + init.len() + spare);
            b.resize(off, b'<');
            b.extend_from_slice(init);
            b.advance(off);
            (b, None)
        }
        _ => return None,
    })
}

/// input: (L ctor (L (B w1) (B w2) ...) junk [driver])
///   ctor = (L (N 0))                      WriteableBytes::new()
///        | (L (N 1) (N cap))              WriteableBytes::with_capacity(cap)
///        | (L (N 2) (B init) (N spare) [(N storage)])   WriteableBytes::from(BytesMut{init, capacity = len + spare}),
///                                                       in the representation `stored(storage, ..)`
///   driver (optional) = (N 0) `write` per slice | (N 1) `write_all` per slice | (N 2) `io::copy` of the concatenation
///                       | (N 3) `write_vectored` of all slices at once (std's default: first non-empty slice), then the rest
/// output: Ok (L (B into_inner) (N sum of the counts returned by write))
fn writeable_once(x: &X) -> X {
    let l = match x.as_l() { Some(l) if l.len() == 3 || l.len() == 4 => l, _ => return X::bad() };
    let (ctor, writes) = match (l[0].as_l(), l[1].as_l()) { (Some(c), Some(w)) => (c, w), _ => return X::bad() };
    let driver = if l.len() == 4 { match l[3].as_n() { Some(d) => d, None => return X::bad() } } else { 0 };
    let mut _keep_alive = None;
    let mut w = match ctor {
        [X::N(0)] => WriteableBytes::new(),
        [X::N(1), c] => match usize_of(c) { Some(c) => WriteableBytes::with_capacity(c), None => return X::bad() },
        [X::N(2), X::B(init), s] => match usize_of(s) { Some(s) => WriteableBytes::from(bytes_mut(init, s)), None => return X::bad() },
        [X::N(2), X::B(init), s, X::N(k)] => match usize_of(s).and_then(|s| stored(*k, init, s)) {
            Some((b, t)) => {
                _keep_alive = t;
                WriteableBytes::from(b)
            }
            None => return X::bad(),
        },
        _ => return X::bad(),
    };
    let mut slices = Vec::new();
    for wr in writes {
        match wr.as_b() { Some(b) => slices.push(b), None => return X::bad() }
    }
    let mut total: usize = 0;
    match driver {
        0 => {
            for wr in &slices {
                match w.write(wr) {
                    Ok(n) => total += n,
                    Err(_) => return X::err(1),
                }
            }
        }
        1 => {
            for wr in &slices {
                if w.write_all(wr).is_err() {
                    return X::err(1);
                }
                total += wr.len();
            }
        }
        2 => {
            let all: Vec<u8> = slices.concat();
            match std::io::copy(&mut &all[..], &mut w) {
                Ok(n) => total += n as usize,
                Err(_) => return X::err(1),
            }
        }
        3 => {
            let mut rest: Vec<std::io::IoSlice<'_>> = slices.iter().map(|s| std::io::IoSlice::new(s)).collect();
            let mut rest = &mut rest[..];
            // `write_all_vectored` is unstable: the same loop by hand
            while !rest.is_empty() {
                match w.write_vectored(rest) {
                    Ok(n) => {
                        total += n;
                        if n == 0 && rest.iter().all(|s| s.is_empty()) {
                            break;
                        }
                        if n == 0 {
                            return X::err(3);
                        }
                        std::io::IoSlice::advance_slices(&mut rest, n);
                    }
                    Err(_) => return X::err(1),
                }
            }
        }
        _ => return X::bad(),
    }
    if w.flush().is_err() {
        return X::err(2);
    }
    let out = w.into_inner();
    X::ok(X::L(vec![X::b(&out[..]), X::n(total)]))
}

/// The storage kinds of the body handed to `replace`:
///   0 = BytesCow::Ref(Bytes)  (spare ignored: take_mut copies the slice)
///   1 = BytesCow::Mut(BytesMut with `spare` spare capacity)
///   2 = BytesCow::Mut(BytesMut that was advanced past a 7-byte prefix: vector storage with an offset)
///   3 = BytesCow::Mut(BytesMut whose allocation is shared with a live split-off tail)
///   4 = BytesCow::Mut(BytesMut advanced past a prefix longer than the body: `reserve` can reclaim the front)
///   5 = BytesCow::Mut(BytesMut in shared representation whose other handle is gone: unique Arc storage)
///   6 = BytesCow::Ref(a slice out of the middle of a larger `Bytes`)
fn make_cow(kind: u128, body: &[u8], spare: usize, rep_len: usize) -> Option<(BytesCow, Option<BytesMut>)> {
    Some(match kind {
        0 => (BytesCow::Ref(Bytes::copy_from_slice(body)), None),
        1 => (BytesCow::Mut(bytes_mut(body, spare)), None),
        2 => {
            let mut b = BytesMut::with_capacity(7 + body.len() + spare);
            b.extend_from_slice(b"prefix!");
            b.extend_from_slice(body);
            b.advance(7);
            (BytesCow::Mut(b), None)
        }
        3 => {
            let mut b = BytesMut::with_capacity(body.len() + spare + 5);
            b.extend_from_slice(body);
            b.extend_from_slice(b"tail!");
            let t = b.split_off(body.len());
            (BytesCow::Mut(b), Some(t))
        }
        4 => {
            let off = body.len() + rep_len + 16;
            let mut b = BytesMut::with_capacity(off + body.len() + spare);
            b.resize(off, b'<');
            b.extend_from_slice(body);
            b.advance(off);
            (BytesCow::Mut(b), None)
        }
        5 => {
            let mut b = BytesMut::with_capacity(body.len() + spare + 5);
            b.extend_from_slice(body);
            b.extend_from_slice(b"gone!");
            drop(b.split_off(body.len()));
            (BytesCow::Mut(b), None)
        }
        6 => {
            let mut v = Vec::with_capacity(body.len() + 9);
            v.extend_from_slice(b"head");
            v.extend_from_slice(body);
            v.extend_from_slice(b"after");
            let whole = Bytes::from(v);
            (BytesCow::Ref(whole.slice(4..4 + body.len())), None)
        }
        _ => return None,
    })
}

/// input: (L checked (N kind) (B body) (N spare) (N start) (N end) (B replacement) junk)
/// `checked` only tells the model which arithmetic this binary was built with.
/// output: Ok (B body after) | Panic
fn replace_once(x: &X) -> X {
    let l = match x.as_l() { Some(l) if l.len() == 8 => l, _ => return X::bad() };
    let (kind, body, spare, start, end, rep) =
        match (l[1].as_n(), l[2].as_b(), usize_of(&l[3]), l[4].as_n(), l[5].as_n(), l[6].as_b()) {
            (Some(k), Some(b), Some(sp), Some(s), Some(e), Some(r)) => (k, b, sp, s, e, r),
            _ => return X::bad(),
        };
    let (start, end) = match (usize::try_from(start), usize::try_from(end)) {
        (Ok(s), Ok(e)) => (s, e),
        _ => return X::L(vec![X::N(96)]),
    };
    let (mut cow, keep_alive) = match make_cow(kind, body, spare, rep.len()) { Some(c) => c, None => return X::bad() };
    cow.replace(start..end, rep);
    let out = X::b(&cow[..]);
    if let Some(t) = &keep_alive {
        if &t[..] != b"tail!" {
            // the neighbouring handle of the shared allocation must be untouched
            return X::L(vec![X::N(94)]);
        }
    }
    X::ok(out)
}

/// input: (L checked (N kind) (B body) (N spare) (L (L (N start) (N end) (B replacement)) ...) (N post) junk)
/// A chain of `replace` calls on the same `BytesCow` (what the Present extensions do), then
///   post 0 = `&cow[..]` | 1 = `cow.freeze()` | 2 = `cow.into_mut()` | 3 = `cow.ref_mut()`
/// output: Ok (B body after) | Panic
fn replace_seq_once(x: &X) -> X {
    let l = match x.as_l() { Some(l) if l.len() == 7 => l, _ => return X::bad() };
    let (kind, body, spare, edits, post) = match (l[1].as_n(), l[2].as_b(), usize_of(&l[3]), l[4].as_l(), l[5].as_n()) {
        (Some(k), Some(b), Some(sp), Some(e), Some(p)) => (k, b, sp, e, p),
        _ => return X::bad(),
    };
    let mut es = Vec::new();
    for e in edits {
        match e.as_l() {
            Some([X::N(s), X::N(e), X::B(r)]) => match (usize::try_from(*s), usize::try_from(*e)) {
                (Ok(s), Ok(e)) => es.push((s, e, &r[..])),
                _ => return X::L(vec![X::N(96)]),
            },
            _ => return X::bad(),
        }
    }
    let longest = es.iter().map(|e| e.2.len()).max().unwrap_or(0);
    let (mut cow, keep_alive) = match make_cow(kind, body, spare, longest) { Some(c) => c, None => return X::bad() };
    for (s, e, r) in es {
        cow.replace(s..e, r);
    }
    if let Some(t) = &keep_alive {
        if &t[..] != b"tail!" {
            return X::L(vec![X::N(94)]);
        }
    }
    let out = match post {
        0 => X::b(&cow[..]),
        1 => X::b(&cow.freeze()[..]),
        2 => X::b(&cow.into_mut()[..]),
        3 => X::b(&cow.ref_mut()[..]),
        _ => return X::bad(),
    };
    X::ok(out)
}

enum Ev {
    Data(Vec<u8>),
    Fail(u128),
    Pend,
}

/// The `io::ErrorKind` a failure code stands for (the code itself travels in the message).
fn kind_of(code: u128) -> std::io::ErrorKind {
    use std::io::ErrorKind::*;
    match code % 8 {
        0 => Other,
        1 => Interrupted,
        2 => WouldBlock,
        3 => ConnectionReset,
        4 => UnexpectedEof,
        5 => TimedOut,
        6 => BrokenPipe,
        _ => ConnectionAborted,
    }
}

/// Scripted reader: a read returns min(|chunk|, room) bytes of the head chunk, empty chunks are
/// skipped, a `Fail` event makes that read return an error of the kind `kind_of(code)`, a `Pend` event makes it
/// return `Poll::Pending` (waking the task at once, unless `stall` says that this is the Pending the reader never
/// recovers from), no event left = 0 bytes = EOF.
struct Script {
    evs: std::collections::VecDeque<Ev>,
    consumed: usize,
    reads: usize,
    pends: usize,
    /// the Pending with this index (0-based) does not wake the task
    stall: Option<usize>,
    /// a read was handed an empty window
    empty_window: bool,
}
impl AsyncRead for Script {
    fn poll_read(mut self: Pin<&mut Self>, cx: &mut Context<'_>, buf: &mut ReadBuf<'_>) -> Poll<std::io::Result<()>> {
        self.reads += 1;
        if buf.remaining() == 0 {
            self.empty_window = true;
        }
        loop {
            match self.evs.pop_front() {
                None => return Poll::Ready(Ok(())),
                Some(Ev::Data(d)) if d.is_empty() => continue,
                Some(Ev::Data(mut d)) => {
                    let n = d.len().min(buf.remaining());
                    buf.put_slice(&d[..n]);
                    self.consumed += n;
                    let rest = d.split_off(n);
                    self.evs.push_front(Ev::Data(rest));
                    return Poll::Ready(Ok(()));
                }
                Some(Ev::Fail(e)) => {
                    return Poll::Ready(Err(std::io::Error::new(kind_of(e), e.to_string())));
                }
                Some(Ev::Pend) => {
                    if self.stall == Some(self.pends) {
                        // stalled for good: whoever polls again (a timer that fired, say) is told Pending again
                        self.evs.push_front(Ev::Pend);
                        return Poll::Pending;
                    }
                    cx.waker().wake_by_ref();
                    self.pends += 1;
                    return Poll::Pending;
                }
            }
        }
    }
}

fn runtime() -> tokio::runtime::Runtime {
    tokio::runtime::Builder::new_current_thread().enable_all().build().expect("runtime")
}

/// input: (L (B init) (N spare) (N max) (L ev...) junk [patience [storage]])   ev = (B chunk) | (N error-code) | (L) = Pending
///   storage (optional) = the representation of the buffer handed in, see `stored`
///   patience (optional) = (L)               the caller polls until the helper is done
///                       | (L (N k))         the caller drops the future at the (k+1)-th Pending (polled by hand)
///                       | (L (N 0) (N ms))  the caller is `tokio::time::timeout(ms, ..)` and the reader stalls for good at its
///                                           first Pending (which must be the only one in the script)
/// output: (L (N 0) (B buffer) (N consumed-from-reader))            Ok(())
///       | (L (N 1) (N code) (B buffer) (N consumed-from-reader))   Err(_)
///       | (L (N 2))                                                panic
///       | (L (N 4) (B buffer) (N consumed-from-reader))            the future was dropped (cancelled)
/// `(L (N 90) answer)`: a read was handed an empty window (which a reader can only answer with 0 bytes = end of stream).
fn read_once(x: &X) -> X {
    let l = match x.as_l() { Some(l) if (5..=7).contains(&l.len()) => l, _ => return X::bad() };
    let storage = if l.len() == 7 { match l[6].as_n() { Some(k) => k, None => return X::bad() } } else { 0 };
    let (init, spare, max, evs) = match (l[0].as_b(), usize_of(&l[1]), l[2].as_n(), l[3].as_l()) {
        (Some(i), Some(s), Some(m), Some(e)) => (i, s, m, e),
        _ => return X::bad(),
    };
    let max = match usize::try_from(max) { Ok(m) => m, Err(_) => return X::L(vec![X::N(96)]) };
    let (patience, timeout_ms): (Option<usize>, Option<u64>) = if l.len() >= 6 {
        match l[5].as_l() {
            Some([]) => (None, None),
            Some([k]) => match usize_of(k) { Some(k) => (Some(k), None), None => return X::bad() },
            Some([X::N(0), ms]) => match usize_of(ms) { Some(ms) => (Some(0), Some(ms as u64)), None => return X::bad() },
            _ => return X::bad(),
        }
    } else {
        (None, None)
    };
    let mut script = Script { evs: Default::default(), consumed: 0, reads: 0, pends: 0, stall: patience, empty_window: false };
    let mut npend = 0;
    for e in evs {
        match e {
            X::B(d) => script.evs.push_back(Ev::Data(d.clone())),
            X::N(c) => script.evs.push_back(Ev::Fail(*c)),
            X::L(v) if v.is_empty() => {
                npend += 1;
                script.evs.push_back(Ev::Pend)
            }
            _ => return X::bad(),
        }
    }
    if timeout_ms.is_some() && npend > 1 {
        return X::bad();
    }
    let (mut buffer, _keep_alive) = match stored(storage, init, spare) { Some(b) => b, None => return X::bad() };
    // None = the future was dropped before it finished
    let r: Option<std::io::Result<()>> = if let Some(ms) = timeout_ms {
        let rt = runtime();
        rt.block_on(async {
            tokio::time::timeout(std::time::Duration::from_millis(ms), kvarn_async::read_to_end_or_max(&mut buffer, &mut script, max))
                .await
                .ok()
        })
    } else {
        let mut fut = Box::pin(kvarn_async::read_to_end_or_max(&mut buffer, &mut script, max));
        let mut cx = Context::from_waker(Waker::noop());
        let mut left = patience;
        let mut polls = 0usize;
        loop {
            polls += 1;
            if polls > 10_000_000 {
                return X::L(vec![X::N(93), X::b(b"the helper pends without asking the reader")]);
            }
            match fut.as_mut().poll(&mut cx) {
                Poll::Ready(r) => break Some(r),
                Poll::Pending => match left {
                    Some(0) => break None,
                    Some(k) => left = Some(k - 1),
                    None => {}
                },
            }
        }
        // `fut` is dropped here: the cancellation
    };
    let out = match r {
        Some(Ok(())) => vec![X::N(0), X::b(&buffer[..]), X::n(script.consumed)],
        Some(Err(e)) => {
            let code = e.to_string().parse::<u128>().ok().filter(|c| kind_of(*c) == e.kind()).unwrap_or(u128::MAX);
            vec![X::N(1), X::N(code), X::b(&buffer[..]), X::n(script.consumed)]
        }
        None => vec![X::N(4), X::b(&buffer[..]), X::n(script.consumed)],
    };
    if script.empty_window {
        // a read into an empty window cannot be told from the end of the stream
        return X::L(vec![X::N(90), X::L(out)]);
    }
    X::L(out)
}

/// input: (L (B content) junk): the content is written to a fresh file under <verif>/.run/ and read back with
/// the public `kvarn::read::file(path, None)` (= `read_file`), i.e. `read_to_end` into `BytesMut::with_capacity(4096)`.
/// output: Ok (B bytes) | (L (N 1) (N 0)) when the file could not be read
fn file_once(x: &X) -> X {
    use std::sync::atomic::{AtomicUsize, Ordering};
    static SEQ: AtomicUsize = AtomicUsize::new(0);
    let l = match x.as_l() { Some(l) if l.len() == 2 => l, _ => return X::bad() };
    let content = match l[0].as_b() { Some(c) => c, None => return X::bad() };
    let dir = std::path::Path::new(env!("CARGO_MANIFEST_DIR")).parent().expect("verif dir").join(".run").join(format!("c18-{}", std::process::id()));
    // trouble with the scratch directory is trouble of the harness, not an answer of kvarn: (L (N 93) ..) is run again
    // by the driver and counted as not executed when it persists
    if let Err(e) = std::fs::create_dir_all(&dir) {
        return X::L(vec![X::N(93), X::b(format!("create_dir_all {}: {e}", dir.display()))]);
    }
    let path = dir.join(format!("f{}", SEQ.fetch_add(1, Ordering::Relaxed)));
    if let Err(e) = std::fs::write(&path, content) {
        return X::L(vec![X::N(93), X::b(format!("write {}: {e}", path.display()))]);
    }
    let p = path.to_string_lossy().to_string();
    let out = crate::guarded(|| {
        let rt = runtime();
        match rt.block_on(kvarn::read::file(&p, None)) {
            Some(b) => X::ok(X::b(&b[..])),
            None => X::err(0),
        }
    });
    let _ = std::fs::remove_file(&path);
    let _ = std::fs::remove_dir(&dir);
    out
}

/// input: (L (N codec) (N level) (B body) junk): the body is compressed into a `WriteableBytes` the way
/// `CompressedResponse::get_gzip / get_br / get_zstd` do it (src/comprash.rs: `with_capacity(len / 3 + 64)`, the encoder writes
/// into `&mut buffer`, `into_inner().freeze()`), so the writes are the real encoders' (header bytes, 4-128 KiB blocks, trailers);
/// what arrived in the buffer is decoded again with the standard decoder.   codec 0 = gzip, 1 = brotli, 2 = zstd
/// output: Ok (B decoded) | Err 1 (the encoder reported an error) | Err 2 (what is in the buffer does not decode)
fn encode_once(x: &X) -> X {
    use std::io::Read;
    let l = match x.as_l() { Some(l) if l.len() == 4 => l, _ => return X::bad() };
    let (codec, level, bytes) = match (l[0].as_n(), l[1].as_n(), l[2].as_b()) {
        (Some(c), Some(lv), Some(b)) => (c, lv as u32, b),
        _ => return X::bad(),
    };
    let mut buffer = WriteableBytes::with_capacity(bytes.len() / 3 + 64);
    let ok = match codec {
        0 => {
            let mut c = flate2::write::GzEncoder::new(&mut buffer, flate2::Compression::new(level.min(9)));
            c.write_all(bytes).is_ok() && c.finish().is_ok()
        }
        1 => {
            let mut c = brotli::CompressorWriter::new(&mut buffer, 4096, level.min(11), 21);
            let ok = c.write_all(bytes).is_ok() && c.flush().is_ok();
            c.into_inner();
            ok
        }
        2 => match zstd::Encoder::new(&mut buffer, level.min(19) as i32) {
            Ok(mut e) => e.write_all(bytes).is_ok() && e.finish().is_ok(),
            Err(_) => false,
        },
        _ => return X::bad(),
    };
    if !ok {
        return X::err(1);
    }
    let out = buffer.into_inner().freeze();
    let mut back = Vec::new();
    let decoded = match codec {
        0 => flate2::read::GzDecoder::new(&out[..]).read_to_end(&mut back).is_ok(),
        1 => brotli::Decompressor::new(&out[..], 4096).read_to_end(&mut back).is_ok(),
        _ => zstd::Decoder::new(&out[..]).and_then(|mut d| d.read_to_end(&mut back)).is_ok(),
    };
    if !decoded {
        return X::err(2);
    }
    X::ok(X::b(&back))
}

pub fn dispatch(comp: &str, x: &X) -> Option<X> {
    Some(match comp {
        "buf.encode" => twice(|| encode_once(x)),
        "buf.writeable" => twice(|| writeable_once(x)),
        "buf.replace" => twice(|| replace_once(x)),
        "buf.replace_seq" => twice(|| replace_seq_once(x)),
        // "buf.read.legacy*" is the same real function; only the model side differs (the code before the repairs)
        "buf.read" | "buf.read.legacy" | "buf.read.unguarded" => twice(|| read_once(x)),
        "buf.file" => twice(|| file_once(x)),
        _ => return None,
    })
}
