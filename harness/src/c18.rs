//! C18: `WriteableBytes`, `BytesCow::replace`, `read_to_end_or_max`, `kvarn::read::file`.
//! Every component takes a trailing "junk" field that only the model uses
//! (uninitialised memory cannot be chosen on the real side); it is ignored here.
use crate::xval::X;
use bytes::{Buf, Bytes, BytesMut};
use kvarn_utils::{BytesCow, WriteableBytes};
use std::io::Write;
use std::pin::Pin;
use std::task::{Context, Poll};
use tokio::io::{AsyncRead, ReadBuf};

fn usize_of(x: &X) -> Option<usize> {
    usize::try_from(x.as_n()?).ok()
}

/// A `BytesMut` with the given contents and exactly `spare` bytes of spare capacity
/// (`Vec::with_capacity(n)` of `u8` records exactly `n`).
fn bytes_mut(init: &[u8], spare: usize) -> BytesMut {
    let mut b = BytesMut::with_capacity(init.len() + spare);
    b.extend_from_slice(init);
    b
}

/// input: (L ctor (L (B w1) (B w2) ...) junk)
///   ctor = (L (N 0))                      WriteableBytes::new()
///        | (L (N 1) (N cap))              WriteableBytes::with_capacity(cap)
///        | (L (N 2) (B init) (N spare))   WriteableBytes::from(BytesMut{init, capacity = len + spare})
/// output: Ok (L (B into_inner) (N sum of the counts returned by write))
pub fn writeable(x: &X) -> X {
    let l = match x.as_l() { Some(l) if l.len() == 3 => l, _ => return X::bad() };
    let (ctor, writes) = match (l[0].as_l(), l[1].as_l()) { (Some(c), Some(w)) => (c, w), _ => return X::bad() };
    let mut w = match ctor {
        [X::N(0)] => WriteableBytes::new(),
        [X::N(1), c] => match usize_of(c) { Some(c) => WriteableBytes::with_capacity(c), None => return X::bad() },
        [X::N(2), X::B(init), s] => match usize_of(s) { Some(s) => WriteableBytes::from(bytes_mut(init, s)), None => return X::bad() },
        _ => return X::bad(),
    };
    let mut total: usize = 0;
    for wr in writes {
        let wr = match wr.as_b() { Some(b) => b, None => return X::bad() };
        match w.write(wr) {
            Ok(n) => total += n,
            Err(_) => return X::err(1),
        }
    }
    if w.flush().is_err() {
        return X::err(2);
    }
    let out = w.into_inner();
    X::ok(X::L(vec![X::b(&out[..]), X::n(total)]))
}

/// input: (L checked (N kind) (B body) (N spare) (N start) (N end) (B replacement) junk)
///   kind 0 = BytesCow::Ref(Bytes)  (spare ignored: take_mut copies the slice)
///        1 = BytesCow::Mut(BytesMut with `spare` spare capacity)
///        2 = BytesCow::Mut(BytesMut that was advanced past a 7-byte prefix: vector storage with an offset)
///        3 = BytesCow::Mut(BytesMut whose allocation is shared with a live split-off tail)
/// `checked` only tells the model which arithmetic this binary was built with.
/// output: Ok (B body after) | Panic
pub fn replace(x: &X) -> X {
    let l = match x.as_l() { Some(l) if l.len() == 8 => l, _ => return X::bad() };
    let (kind, body, spare, start, end, rep) =
        match (l[1].as_n(), l[2].as_b(), usize_of(&l[3]), l[4].as_n(), l[5].as_n(), l[6].as_b()) {
            (Some(k), Some(b), Some(sp), Some(s), Some(e), Some(r)) => (k, b, sp, s, e, r),
            _ => return X::bad(),
        };
    let (start, end) = match (usize::try_from(start), usize::try_from(end)) {
        (Ok(s), Ok(e)) => (s, e),
        _ => return X::L(vec![X::N(96)]),
    };
    let mut _keep_alive = None;
    let mut cow = match kind {
        0 => BytesCow::Ref(Bytes::copy_from_slice(body)),
        1 => BytesCow::Mut(bytes_mut(body, spare)),
        2 => {
            let mut b = BytesMut::with_capacity(7 + body.len() + spare);
            b.extend_from_slice(b"prefix!");
            b.extend_from_slice(body);
            b.advance(7);
            BytesCow::Mut(b)
        }
        3 => {
            let mut b = BytesMut::with_capacity(body.len() + spare + 5);
            b.extend_from_slice(body);
            b.extend_from_slice(b"tail!");
            _keep_alive = Some(b.split_off(body.len()));
            BytesCow::Mut(b)
        }
        _ => return X::bad(),
    };
    crate::guarded(move || {
        cow.replace(start..end, rep);
        let out = X::b(&cow[..]);
        if let Some(t) = &_keep_alive {
            if &t[..] != b"tail!" {
                // the neighbouring handle of the shared allocation must be untouched
                return X::L(vec![X::N(94)]);
            }
        }
        X::ok(out)
    })
}

enum Ev {
    Data(Vec<u8>),
    Fail(u128),
}
/// Scripted reader: a read returns min(|chunk|, room) bytes of the head chunk, empty chunks are
/// skipped, a `Fail` event makes that read return an error, no chunk left = 0 bytes = EOF.
struct Script {
    evs: std::collections::VecDeque<Ev>,
    consumed: usize,
    reads: usize,
}
impl AsyncRead for Script {
    fn poll_read(mut self: Pin<&mut Self>, _cx: &mut Context<'_>, buf: &mut ReadBuf<'_>) -> Poll<std::io::Result<()>> {
        self.reads += 1;
        loop {
            match self.evs.pop_front() {
                None => return Poll::Ready(Ok(())),
                Some(Ev::Data(d)) if d.is_empty() => continue,
                Some(Ev::Data(mut d)) => {
                    let n = d.len().min(buf.remaining());
                    buf.put_slice(&d[..n]);
                    self.consumed += n;
                    let rest = d.split_off(n);
                    self.evs.push_front(Ev::Data(rest));
                    return Poll::Ready(Ok(()));
                }
                Some(Ev::Fail(e)) => {
                    return Poll::Ready(Err(std::io::Error::new(std::io::ErrorKind::Other, e.to_string())));
                }
            }
        }
    }
}

fn runtime() -> tokio::runtime::Runtime {
    tokio::runtime::Builder::new_current_thread().enable_all().build().expect("runtime")
}

/// input: (L (B init) (N spare) (N max) (L ev...) junk)   ev = (B chunk) | (N error-code)
/// output: (L (N 0) (B buffer) (N consumed-from-reader))            Ok(())
///       | (L (N 1) (N code) (B buffer) (N consumed-from-reader))   Err(_)
///       | (L (N 2))                                                panic
pub fn read(x: &X) -> X {
    let l = match x.as_l() { Some(l) if l.len() == 5 => l, _ => return X::bad() };
    let (init, spare, max, evs) = match (l[0].as_b(), usize_of(&l[1]), l[2].as_n(), l[3].as_l()) {
        (Some(i), Some(s), Some(m), Some(e)) => (i, s, m, e),
        _ => return X::bad(),
    };
    let max = match usize::try_from(max) { Ok(m) => m, Err(_) => return X::L(vec![X::N(96)]) };
    let mut script = Script { evs: Default::default(), consumed: 0, reads: 0 };
    for e in evs {
        match e {
            X::B(d) => script.evs.push_back(Ev::Data(d.clone())),
            X::N(c) => script.evs.push_back(Ev::Fail(*c)),
            _ => return X::bad(),
        }
    }
    let mut buffer = bytes_mut(init, spare);
    crate::guarded(move || {
        let rt = runtime();
        let r = rt.block_on(kvarn_async::read_to_end_or_max(&mut buffer, &mut script, max));
        match r {
            Ok(()) => X::L(vec![X::N(0), X::b(&buffer[..]), X::n(script.consumed)]),
            Err(e) => {
                let code = e.to_string().parse::<u128>().unwrap_or(u128::MAX);
                X::L(vec![X::N(1), X::N(code), X::b(&buffer[..]), X::n(script.consumed)])
            }
        }
    })
}

/// input: (L (B content) junk): the content is written to a fresh file under <verif>/.run/ and read back with
/// the public `kvarn::read::file(path, None)` (= `read_file`), i.e. `read_to_end` into `BytesMut::with_capacity(4096)`.
/// output: Ok (B bytes) | (L (N 1) (N 0)) when the file could not be read
pub fn file(x: &X) -> X {
    use std::sync::atomic::{AtomicUsize, Ordering};
    static SEQ: AtomicUsize = AtomicUsize::new(0);
    let l = match x.as_l() { Some(l) if l.len() == 2 => l, _ => return X::bad() };
    let content = match l[0].as_b() { Some(c) => c, None => return X::bad() };
    let dir = std::path::Path::new(env!("CARGO_MANIFEST_DIR")).parent().expect("verif dir").join(".run").join(format!("c18-{}", std::process::id()));
    if std::fs::create_dir_all(&dir).is_err() {
        return X::L(vec![X::N(95)]);
    }
    let path = dir.join(format!("f{}", SEQ.fetch_add(1, Ordering::Relaxed)));
    if std::fs::write(&path, content).is_err() {
        return X::L(vec![X::N(95)]);
    }
    let p = path.to_string_lossy().to_string();
    let out = crate::guarded(|| {
        let rt = runtime();
        match rt.block_on(kvarn::read::file(&p, None)) {
            Some(b) => X::ok(X::b(&b[..])),
            None => X::err(0),
        }
    });
    let _ = std::fs::remove_file(&path);
    let _ = std::fs::remove_dir(&dir);
    out
}

pub fn dispatch(comp: &str, x: &X) -> Option<X> {
    Some(match comp {
        "buf.writeable" => writeable(x),
        "buf.replace" => replace(x),
        // "buf.read.legacy" is the same real function; only the model side differs (the code before the repair)
        "buf.read" | "buf.read.legacy" => read(x),
        "buf.file" => file(x),
        _ => return None,
    })
}
