//! C19 (`clear` sees the host and the path the operator typed): a real instance (`RunConfig::execute`) that serves a
//! port whose host collection has named hosts (any names: spaces, quotes, backslashes, Unicode), each with a file
//! cache and a response cache filled before the session, and a handler that counts its calls.
//!
//! `ctl.hosts`: `(L hosts requests)`
//!   hosts    = `(L (L (N default?) name (L file-key ...) (L (L path query?) ...)) ...)`, strings as lists of code points,
//!              `query?` = `(L)` | `(L query)`; a page whose path starts with `/q` is cached with its query
//!              (`ServerCachePreference::QueryMatters`), every other page without (`Full`)
//!   requests = `(L (B bytes) ...)`, sent through `kvarn_signal::unix::send_to`
//! Output: `(L (L reply snapshot) ... (L (N handler calls of host 0) ...))`; reply as in `ctl.session`; snapshot =
//! per host `(L (L file-key-present ...) (L page-present ...))` read from the caches after the request; the last
//! element: every page is requested once more after the session, the handler of a host runs exactly for the pages
//! that are no longer cached.
//! `(L (N 93))` no instance could be started; `(L (N 94) ..)` the fixture could not be set up; `(L (N 96))` out of domain.
use crate::c19::{d_str, d_strs, ood};
use crate::c19ctl::{runtime, Kind, Server};
use crate::xval::X;
use kvarn::prelude::*;
use std::sync::atomic::{AtomicU64, Ordering};
use std::sync::Arc;

struct HostSpec {
    default: bool,
    name: String,
    files: Vec<String>,
    pages: Vec<(String, Option<String>)>,
    calls: Arc<AtomicU64>,
}

fn parse_hosts(x: &X) -> Result<Vec<HostSpec>, X> {
    let mut out = Vec::new();
    for h in x.as_l().ok_or_else(X::bad)? {
        let h = match h.as_l() {
            Some(h) if h.len() == 4 => h,
            _ => return Err(X::bad()),
        };
        let default = h[0].as_bool().ok_or_else(X::bad)?;
        let name = d_str(&h[1]).ok_or_else(X::bad)?.map_err(|_| ood())?;
        let files = d_strs(&h[2]).ok_or_else(X::bad)?.map_err(|_| ood())?;
        let mut pages = Vec::new();
        for p in h[3].as_l().ok_or_else(X::bad)? {
            let p = match p.as_l() {
                Some(p) if p.len() == 2 => p,
                _ => return Err(X::bad()),
            };
            let path = d_str(&p[0]).ok_or_else(X::bad)?.map_err(|_| ood())?;
            let query = match p[1].as_opt().ok_or_else(X::bad)? {
                None => None,
                Some(q) => Some(d_str(q).ok_or_else(X::bad)?.map_err(|_| ood())?),
            };
            pages.push((path, query));
        }
        out.push(HostSpec { default, name, files, pages, calls: Arc::new(AtomicU64::new(0)) });
    }
    Ok(out)
}

fn target(path: &str, query: &Option<String>) -> String {
    match query {
        Some(q) => format!("{path}?{q}"),
        None => path.to_owned(),
    }
}
fn page_key(path: &str, query: &Option<String>) -> Option<UriKey> {
    let uri: Uri = target(path, query).parse().ok()?;
    Some(if path.starts_with("/q") { UriKey::path_and_query(&uri) } else { UriKey::Path(uri.path().to_compact_string()) })
}
fn get(path: &str, query: &Option<String>) -> Option<FatRequest> {
    Request::builder().method("GET").uri(target(path, query)).body(kvarn::application::Body::Bytes(Bytes::new().into())).ok()
}

fn snapshot(coll: &HostCollection, specs: &[HostSpec]) -> X {
    X::L(specs
        .iter()
        .map(|s| {
            let host = coll.get_host(&s.name);
            let files = s
                .files
                .iter()
                .map(|k| X::bool(host.and_then(|h| h.file_cache.as_ref()).map_or(false, |c| c.cache.contains_key(k.as_str()))))
                .collect();
            let pages = s
                .pages
                .iter()
                .map(|(p, q)| {
                    X::bool(match (host.and_then(|h| h.response_cache.as_ref()), page_key(p, q)) {
                        (Some(c), Some(k)) => c.cache.contains_key(&k),
                        _ => false,
                    })
                })
                .collect();
            X::L(vec![X::L(files), X::L(pages)])
        })
        .collect())
}

fn free_port() -> Option<u16> {
    // kvarn binds the unspecified address: look for a port that is free there
    let l = std::net::TcpListener::bind((std::net::Ipv4Addr::UNSPECIFIED, 0)).ok()?;
    l.local_addr().ok().map(|a| a.port())
}

fn hosts(x: &X) -> X {
    let l = match x.as_l() {
        Some(l) if l.len() == 2 => l,
        _ => return X::bad(),
    };
    let specs = match parse_hosts(&l[0]) {
        Ok(s) => s,
        Err(e) => return e,
    };
    let reqs: Vec<Vec<u8>> = match l[1].as_l().map(|l| l.iter().map(|r| r.as_b().map(<[u8]>::to_vec)).collect::<Option<Vec<_>>>()) {
        Some(Some(r)) => r,
        _ => return X::bad(),
    };
    // every page must be a request target http accepts (the generator only makes such pages)
    if specs.iter().any(|s| s.pages.iter().any(|(p, q)| page_key(p, q).is_none() || get(p, q).is_none())) {
        return ood();
    }
    let mut b = HostCollection::builder();
    for s in &specs {
        let mut ext = Extensions::empty();
        let calls = Arc::clone(&s.calls);
        ext.add_prepare_fn(
            Box::new(|_, _| true),
            prepare!(req, _host, _path, _addr, move |calls: Arc<AtomicU64>| {
                calls.fetch_add(1, Ordering::SeqCst);
                let r = Response::new(Bytes::from_static(b"page"));
                if req.uri().path().starts_with("/q") {
                    FatResponse::new(r, comprash::ServerCachePreference::QueryMatters)
                } else {
                    FatResponse::cache(r)
                }
            }),
            extensions::Id::new(0, "counting handler"),
        );
        let mut opts = host::Options::default();
        opts.disable_fs();
        let mut h = Host::unsecure(&s.name, "/nonexistent/kvh-c19", ext, opts);
        h.limiter.disable();
        for k in &s.files {
            h.file_cache.as_ref().unwrap().cache.insert(k.to_compact_string(), None);
        }
        b = if s.default { b.default(h) } else { b.insert(h) };
    }
    let coll = b.build();
    runtime().block_on(async move {
        // fill the response caches through the real request pipeline
        let addr: SocketAddr = "127.0.0.1:1".parse().unwrap();
        for s in &specs {
            let host = match coll.get_host(&s.name) {
                Some(h) => h,
                None => return X::L(vec![X::N(94), X::N(1)]),
            };
            for (p, q) in &s.pages {
                let mut req = get(p, q).unwrap();
                let _ = kvarn::handle_cache(&mut req, addr, host).await;
            }
        }
        let full = snapshot(&coll, &specs);
        let all_present = full.as_l().unwrap().iter().all(|h| h.as_l().unwrap().iter().all(|l| l.as_l().unwrap().iter().all(|b| *b == X::N(1))));
        if !all_present {
            return X::L(vec![X::N(94), X::N(2), full]);
        }
        let mut server = None;
        for attempt in 0..3u64 {
            let port = match free_port() {
                Some(p) => p,
                None => continue,
            };
            let desc = PortDescriptor::unsecure(port, Arc::clone(&coll)).ipv4_only();
            // kvarn panics ("Failed to bind") when the port was taken since `free_port` looked (other harness processes
            // run in parallel): that is trouble of the harness, not an outcome -- the attempt runs in a task of its own so
            // that its panic is an `Err` here, and is repeated with another port
            if let Ok(Some(s)) = tokio::spawn(async move { Server::start_once_with(Kind::Seq, Some(desc)).await }).await {
                server = Some(s);
                break;
            }
            tokio::time::sleep(std::time::Duration::from_millis(300 * (attempt + 1))).await;
        }
        let server = match server {
            Some(s) => s,
            None => return X::L(vec![X::N(93)]),
        };
        let mut out = Vec::with_capacity(reqs.len() + 1);
        for r in reqs {
            let reply = server.send(r).await;
            out.push(X::L(vec![reply, snapshot(&coll, &specs)]));
        }
        // the counting handler: what is no longer cached is produced again, what is cached is not
        let mut calls = Vec::new();
        for s in &specs {
            let before = s.calls.load(Ordering::SeqCst);
            if let Some(host) = coll.get_host(&s.name) {
                for (p, q) in &s.pages {
                    let mut req = get(p, q).unwrap();
                    let _ = kvarn::handle_cache(&mut req, addr, host).await;
                }
            }
            calls.push(X::n(s.calls.load(Ordering::SeqCst) - before));
        }
        out.push(X::L(calls));
        server.stop().await;
        X::L(out)
    })
}

/// `ctl.uri`: the argument parser of `clear response` alone: `Uri::builder().path_and_query(s).build()` and then
/// `(uri.path(), uri.query())`; `(L)` = `Err`.  Input bytes that are not UTF-8 are out of domain (the plugin gets a `&str`).
fn uri(x: &X) -> X {
    let b = match x.as_b() {
        Some(b) => b,
        None => return X::bad(),
    };
    let s = match std::str::from_utf8(b) {
        Ok(s) => s,
        Err(_) => return ood(),
    };
    X::opt(Uri::builder().path_and_query(s).build().ok().map(|u| X::L(vec![X::b(u.path()), X::opt(u.query().map(X::b))])))
}

pub fn dispatch(comp: &str, x: &X) -> Option<X> {
    Some(match comp {
        "ctl.hosts" => hosts(x),
        "ctl.uri" => uri(x),
        _ => return None,
    })
}
