//! C14: `RuleSet` (add/get), the CSP Package extension with `Rule::to_header_nonce`, the
//! `referrer-policy` / `server` Package extensions, and the `nonce` Present extension.
//!
//! * `ruleset.get`  – `kvarn::extensions::RuleSet::<u32>` directly.
//! * `csp.package`  – the Package extensions registered by `Extensions::new()` + `with_csp` +
//!                    `with_server_header`, called in list order exactly as `resolve_package` does
//!                    (`resolve_package` itself is `pub(crate)`; the loopback component goes through it).
//! * `nonce.page`   – `kvarn::handle_cache` in process, twice, on a host whose handler returns
//!                    `!> nonce\n` + body; then the package chain on the head of the first reply.
//! * `c14.conn`     – the same through `kvarn::handle_connection` over a loopback TCP pair.
use crate::xval::X;
use bytes::Bytes;
use kvarn::csp::{ComputedRule, Rule as CspRule, Value as CspValue, ValueSet};
use kvarn::extensions::RuleSet;
use kvarn::prelude::*;
use std::sync::atomic::{AtomicUsize, Ordering};

fn ood() -> X {
    X::L(vec![X::N(96)])
}

fn utf8(b: &[u8]) -> Option<&str> {
    std::str::from_utf8(b).ok()
}

// -------------------------------------------------------------------------------------------
// RuleSet
// -------------------------------------------------------------------------------------------
/// input: (L (L (L (B pattern) (N value)) ...) (L (B path) ...)); output: (L opt ...)
fn ruleset_get(x: &X) -> X {
    let l = match x.as_l() {
        Some(l) if l.len() == 2 => l,
        _ => return X::bad(),
    };
    let (adds, probes) = match (l[0].as_l(), l[1].as_l()) {
        (Some(a), Some(p)) => (a, p),
        _ => return X::bad(),
    };
    let mut rs: RuleSet<u32> = RuleSet::empty();
    for a in adds {
        let (p, v) = match a.as_l() {
            Some([p, v]) => match (p.as_b(), v.as_n()) {
                (Some(p), Some(v)) => (p, v),
                _ => return X::bad(),
            },
            _ => return X::bad(),
        };
        let p = match utf8(p) {
            Some(p) => p,
            None => return ood(),
        };
        rs.add_mut(p, v as u32);
    }
    let mut out = Vec::new();
    for p in probes {
        let p = match p.as_b().map(utf8) {
            Some(Some(p)) => p,
            Some(None) => return ood(),
            None => return X::bad(),
        };
        out.push(X::opt(rs.get(p).map(|v| X::n(*v))));
    }
    X::L(out)
}

// -------------------------------------------------------------------------------------------
// CSP rules from the interchange form
// -------------------------------------------------------------------------------------------
fn csp_value(s: &str) -> CspValue {
    match s {
        "'none'" => CspValue::None,
        "'self'" => CspValue::Same,
        "'unsafe-inline'" => CspValue::UnsafeInline,
        "'unsafe-eval'" => CspValue::UnsafeEval,
        "'wasm-unsafe-eval'" => CspValue::WasmUnsafeEval,
        "'strict-dynamic'" => CspValue::StrictDynamic,
        _ if s.len() >= 2 && s.starts_with('\'') && s.ends_with('\'') => CspValue::Raw(s.into()),
        _ if s.ends_with(':') => CspValue::Scheme(s.into()),
        _ => CspValue::Uri(s.into()),
    }
}

fn value_set(x: &X) -> Option<ValueSet> {
    let mut vs = ValueSet::empty();
    for v in x.as_l()? {
        vs = vs.push(csp_value(utf8(v.as_b()?)?));
    }
    Some(vs)
}

/// rule: (L (L (L (N directive) values) ...) (L (L (B name) values) ...))
/// directive = index in the order of declaration in src/csp.rs.
fn csp_rule(x: &X) -> Option<CspRule> {
    let l = x.as_l()?;
    if l.len() != 2 {
        return None;
    }
    let mut r = CspRule::empty();
    for d in l[0].as_l()? {
        let d = d.as_l()?;
        if d.len() != 2 {
            return None;
        }
        let vs = value_set(&d[1])?;
        r = match d[0].as_n()? {
            0 => r.child_src(vs),
            1 => r.connect_src(vs),
            2 => r.default_src(vs),
            3 => r.font_src(vs),
            4 => r.frame_src(vs),
            5 => r.img_src(vs),
            6 => r.manifest_src(vs),
            7 => r.media_src(vs),
            8 => r.object_src(vs),
            9 => r.prefetch_src(vs),
            10 => r.script_src(vs),
            11 => r.script_src_elem(vs),
            12 => r.script_src_attr(vs),
            13 => r.style_src(vs),
            14 => r.style_src_elem(vs),
            15 => r.style_src_attr(vs),
            16 => r.worker_src(vs),
            17 => r.base_uri(vs),
            18 => r.sandbox(vs),
            19 => r.form_action(vs),
            20 => r.frame_ancestors(vs),
            21 => r.navigate_to(vs),
            22 => r.report(vs),
            23 => r.require_sri_for(vs),
            24 => r.require_trusted_types_for(vs),
            25 => r.trusted_types(vs),
            26 => r.upgrade_insecure_requests(vs),
            _ => return None,
        };
    }
    for u in l[1].as_l()? {
        let u = u.as_l()?;
        if u.len() != 2 {
            return None;
        }
        r = r.string(utf8(u[0].as_b()?)?.to_owned(), value_set(&u[1])?);
    }
    Some(r)
}

/// adds: (L (L (B pattern) rule) ...) applied in order to `Csp::empty()`.
fn csp_set(x: &X) -> Option<RuleSet<ComputedRule>> {
    let mut rs: RuleSet<ComputedRule> = RuleSet::empty();
    for a in x.as_l()? {
        let a = a.as_l()?;
        if a.len() != 2 {
            return None;
        }
        rs.add_mut(utf8(a[0].as_b()?)?, csp_rule(&a[1])?);
    }
    Some(rs)
}

fn headers_x(h: &HeaderMap) -> X {
    let mut v: Vec<(Vec<u8>, Vec<u8>)> = h
        .iter()
        .map(|(k, v)| (k.as_str().as_bytes().to_vec(), v.as_bytes().to_vec()))
        .collect();
    v.sort();
    X::L(v.into_iter().map(|(k, v)| X::L(vec![X::B(k), X::B(v)])).collect())
}

/// Only the headers the property speaks about (the rest — content-type, cache-control, vary,
/// last-modified — belongs to other properties and is not modelled here).
fn security_headers_x(h: &HeaderMap) -> X {
    let mut m = HeaderMap::new();
    for (k, v) in h {
        if matches!(k.as_str(), "content-security-policy" | "csp-nonce" | "referrer-policy" | "server") {
            m.append(k.clone(), v.clone());
        }
    }
    headers_x(&m)
}

fn extensions_for(csp: RuleSet<ComputedRule>, server: &str) -> Extensions {
    let mut ext = Extensions::new();
    ext.with_csp(csp.arc());
    ext.with_server_header(server, false, true);
    ext
}

fn empty_request(path: &str) -> Option<FatRequest> {
    Request::builder()
        .method("GET")
        .uri(path)
        .body(kvarn::application::Body::Bytes(Bytes::new().into()))
        .ok()
}

fn runtime() -> tokio::runtime::Runtime {
    tokio::runtime::Builder::new_current_thread().enable_all().build().unwrap()
}

/// The body of `Extensions::resolve_package`: every Package extension in list order.
async fn run_package_chain(host: &Host, response: &mut Response<()>, request: &FatRequest) {
    let addr: SocketAddr = "127.0.0.1:1".parse().unwrap();
    for (_, extension) in host.extensions.get_package() {
        extension.call(response, request, host, addr).await;
    }
}

fn package_ids(host: &Host) -> X {
    X::L(host.extensions.get_package().iter().map(|(id, _)| X::z(id.priority() as i128)).collect())
}

/// input: (L adds (B path) (L (L (B name) (B value)) ...) (B server)); output: Ok (L priorities headers)
fn csp_package(x: &X) -> X {
    let l = match x.as_l() {
        Some(l) if l.len() == 4 => l,
        _ => return X::bad(),
    };
    let (path, hs, server) = match (l[1].as_b(), l[2].as_l(), l[3].as_b()) {
        (Some(p), Some(h), Some(s)) => (p, h, s),
        _ => return X::bad(),
    };
    let (path, server) = match (utf8(path), utf8(server)) {
        (Some(p), Some(s)) => (p, s),
        _ => return ood(),
    };
    let request = match empty_request(path) {
        Some(r) if r.uri().path() == path => r,
        _ => return ood(),
    };
    let mut response = Response::new(());
    for h in hs {
        let (n, v) = match h.as_l() {
            Some([n, v]) => match (n.as_b(), v.as_b()) {
                (Some(n), Some(v)) => (n, v),
                _ => return X::bad(),
            },
            _ => return X::bad(),
        };
        match (HeaderName::from_bytes(n), HeaderValue::from_bytes(v)) {
            (Ok(n), Ok(v)) if n.as_str().as_bytes() == n.as_str().to_ascii_lowercase().as_bytes() => {
                response.headers_mut().append(n, v);
            }
            _ => return ood(),
        }
    }
    if HeaderValue::from_str(server).is_err() {
        return ood();
    }
    crate::guarded(|| {
        let csp = match csp_set(&l[0]) {
            Some(c) => c,
            None => return X::bad(),
        };
        let mut opts = host::Options::default();
        opts.disable_fs();
        let host = Host::unsecure("localhost", "/nonexistent", extensions_for(csp, server), opts);
        let rt = runtime();
        rt.block_on(run_package_chain(&host, &mut response, &request));
        X::ok(X::L(vec![package_ids(&host), headers_x(response.headers())]))
    })
}

// -------------------------------------------------------------------------------------------
// nonce page through handle_cache
// -------------------------------------------------------------------------------------------
struct Page {
    body: Bytes,
    count: std::sync::Arc<AtomicUsize>,
    pref: u128,
}

fn page_host(csp: RuleSet<ComputedRule>, server: &str, page_path: &str, page: Page) -> Host {
    let mut ext = extensions_for(csp, server);
    let Page { body, count, pref } = page;
    ext.add_prepare_single(
        page_path,
        prepare!(_, _, _, _, move |body: Bytes, count: std::sync::Arc<AtomicUsize>, pref: u128| {
            count.fetch_add(1, Ordering::SeqCst);
            let r = Response::new(body.clone());
            match *pref {
                0 => FatResponse::no_cache(r),
                1 => FatResponse::cache(r),
                _ => FatResponse::new(r, comprash::ServerCachePreference::QueryMatters),
            }
        }),
    );
    let mut opts = host::Options::default();
    opts.disable_fs();
    let mut host = Host::unsecure("localhost", "/nonexistent", ext, opts);
    host.limiter.disable();
    host
}

fn reply_x(r: &kvarn::CacheReply) -> (Option<Vec<u8>>, X) {
    let nonces: Vec<Vec<u8>> = r.response.headers().get_all("csp-nonce").iter().map(|v| v.as_bytes().to_vec()).collect();
    let first = nonces.first().cloned();
    (
        first,
        X::L(vec![
            X::n(r.response.status().as_u16()),
            X::L(nonces.into_iter().map(X::B).collect()),
            X::b(r.response.body()),
            X::bool(r.identity_body == *r.response.body()),
        ]),
    )
}

/// input: (L (B body) (N ext_line) (N pref) adds (B server))
/// output: Ok (L reply1 reply2 (N handler_calls) (N nonces_differ) headers_after_package_chain)
///         reply = (L status (L csp-nonce values) body identity_equal)
fn nonce_page(x: &X) -> X {
    let l = match x.as_l() {
        Some(l) if l.len() == 5 => l,
        _ => return X::bad(),
    };
    let (body, line, pref, server) = match (l[0].as_b(), l[1].as_n(), l[2].as_n(), l[4].as_b()) {
        (Some(b), Some(li), Some(p), Some(s)) => (b, li, p, s),
        _ => return X::bad(),
    };
    let server = match utf8(server) {
        Some(s) if HeaderValue::from_str(s).is_ok() => s.to_owned(),
        _ => return ood(),
    };
    let mut data = Vec::new();
    if line == 1 {
        data.extend_from_slice(b"!> nonce\n");
    }
    data.extend_from_slice(body);
    let count = std::sync::Arc::new(AtomicUsize::new(0));
    crate::guarded(|| {
        let csp = match csp_set(&l[3]) {
            Some(c) => c,
            None => return X::bad(),
        };
        let host = page_host(csp, &server, "/p", Page { body: Bytes::from(data), count: count.clone(), pref });
        let addr: SocketAddr = "127.0.0.1:1".parse().unwrap();
        let rt = runtime();
        rt.block_on(async {
            let mut req1 = empty_request("/p").unwrap();
            let r1 = kvarn::handle_cache(&mut req1, addr, &host).await;
            let mut req2 = empty_request("/p").unwrap();
            let r2 = kvarn::handle_cache(&mut req2, addr, &host).await;
            let (n1, x1) = reply_x(&r1);
            let (n2, x2) = reply_x(&r2);
            let (mut head, _) = kvarn_utils::split_response(r1.response);
            run_package_chain(&host, &mut head, &req1).await;
            X::ok(X::L(vec![
                x1,
                x2,
                X::n(count.load(Ordering::SeqCst)),
                X::bool(n1.is_some() && n1 != n2),
                security_headers_x(head.headers()),
            ]))
        })
    })
}

pub fn dispatch(comp: &str, x: &X) -> Option<X> {
    Some(match comp {
        "ruleset.get" => ruleset_get(x),
        "csp.package" => csp_package(x),
        "nonce.page" => nonce_page(x),
        _ => return None,
    })
}
