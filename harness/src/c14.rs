//! C14: `RuleSet` (add/get), the CSP Package extension with `Rule::to_header_nonce`, the
//! `referrer-policy` / `server` Package extensions, and the `nonce` Present extension.
//!
//! * `ruleset.get`  – `kvarn::extensions::RuleSet::<u32>` directly.
//! * `csp.package`  – the Package extensions registered by `Extensions::new()` + `with_csp` +
//!                    `with_server_header`, called in list order exactly as `resolve_package` does
//!                    (`resolve_package` itself is `pub(crate)`; the loopback component goes through it).
//! * `nonce.page`   – `kvarn::handle_cache` in process, twice, on a host whose handler returns
//!                    `!> nonce\n` + body; then the package chain on the head of the first reply.
//! * `c14.conn`     – the same through `kvarn::handle_connection` over a loopback TCP pair.
use crate::xval::X;
use bytes::Bytes;
use kvarn::csp::{ComputedRule, Rule as CspRule, Value as CspValue, ValueSet};
use kvarn::extensions::RuleSet;
use kvarn::prelude::*;
use std::sync::atomic::{AtomicUsize, Ordering};
use std::sync::Arc;
use std::time::Duration;

fn ood() -> X {
    X::L(vec![X::N(96)])
}

fn utf8(b: &[u8]) -> Option<&str> {
    std::str::from_utf8(b).ok()
}

// -------------------------------------------------------------------------------------------
// RuleSet
// -------------------------------------------------------------------------------------------
/// input: (L (L (L (B pattern) (N value)) ...) (L (B path) ...)); output: (L opt ...)
fn ruleset_get(x: &X) -> X {
    let l = match x.as_l() {
        Some(l) if l.len() == 2 => l,
        _ => return X::bad(),
    };
    let (adds, probes) = match (l[0].as_l(), l[1].as_l()) {
        (Some(a), Some(p)) => (a, p),
        _ => return X::bad(),
    };
    let mut rs: RuleSet<u32> = RuleSet::empty();
    for a in adds {
        let (p, v) = match a.as_l() {
            Some([p, v]) => match (p.as_b(), v.as_n()) {
                (Some(p), Some(v)) => (p, v),
                _ => return X::bad(),
            },
            _ => return X::bad(),
        };
        let p = match utf8(p) {
            Some(p) => p,
            None => return ood(),
        };
        rs.add_mut(p, v as u32);
    }
    let mut out = Vec::new();
    for p in probes {
        let p = match p.as_b().map(utf8) {
            Some(Some(p)) => p,
            Some(None) => return ood(),
            None => return X::bad(),
        };
        out.push(X::opt(rs.get(p).map(|v| X::n(*v))));
    }
    X::L(out)
}

// -------------------------------------------------------------------------------------------
// CSP rules from the interchange form
// -------------------------------------------------------------------------------------------
fn csp_value(s: &str) -> CspValue {
    match s {
        "'none'" => CspValue::None,
        "'self'" => CspValue::Same,
        "'unsafe-inline'" => CspValue::UnsafeInline,
        "'unsafe-eval'" => CspValue::UnsafeEval,
        "'wasm-unsafe-eval'" => CspValue::WasmUnsafeEval,
        "'strict-dynamic'" => CspValue::StrictDynamic,
        _ if s.len() >= 2 && s.starts_with('\'') && s.ends_with('\'') => CspValue::Raw(s.into()),
        _ if s.ends_with(':') => CspValue::Scheme(s.into()),
        _ => CspValue::Uri(s.into()),
    }
}

fn value_set(x: &X) -> Option<ValueSet> {
    let mut vs = ValueSet::empty();
    for v in x.as_l()? {
        vs = vs.push(csp_value(utf8(v.as_b()?)?));
    }
    Some(vs)
}

/// rule: (L (L (L (N directive) values) ...) (L (L (B name) values) ...))
/// directive = index in the order of declaration in src/csp.rs.
fn csp_rule(x: &X) -> Option<CspRule> {
    let l = x.as_l()?;
    if l.len() != 2 {
        return None;
    }
    let mut r = CspRule::empty();
    for d in l[0].as_l()? {
        let d = d.as_l()?;
        if d.len() != 2 {
            return None;
        }
        let vs = value_set(&d[1])?;
        r = match d[0].as_n()? {
            0 => r.child_src(vs),
            1 => r.connect_src(vs),
            2 => r.default_src(vs),
            3 => r.font_src(vs),
            4 => r.frame_src(vs),
            5 => r.img_src(vs),
            6 => r.manifest_src(vs),
            7 => r.media_src(vs),
            8 => r.object_src(vs),
            9 => r.prefetch_src(vs),
            10 => r.script_src(vs),
            11 => r.script_src_elem(vs),
            12 => r.script_src_attr(vs),
            13 => r.style_src(vs),
            14 => r.style_src_elem(vs),
            15 => r.style_src_attr(vs),
            16 => r.worker_src(vs),
            17 => r.base_uri(vs),
            18 => r.sandbox(vs),
            19 => r.form_action(vs),
            20 => r.frame_ancestors(vs),
            21 => r.navigate_to(vs),
            22 => r.report(vs),
            23 => r.require_sri_for(vs),
            24 => r.require_trusted_types_for(vs),
            25 => r.trusted_types(vs),
            26 => r.upgrade_insecure_requests(vs),
            _ => return None,
        };
    }
    for u in l[1].as_l()? {
        let u = u.as_l()?;
        if u.len() != 2 {
            return None;
        }
        r = r.string(utf8(u[0].as_b()?)?.to_owned(), value_set(&u[1])?);
    }
    Some(r)
}

/// adds: (L (L (B pattern) rule) ...) applied in order to `Csp::empty()`.
fn csp_set(x: &X) -> Option<RuleSet<ComputedRule>> {
    let mut rs: RuleSet<ComputedRule> = RuleSet::empty();
    for a in x.as_l()? {
        let a = a.as_l()?;
        if a.len() != 2 {
            return None;
        }
        rs.add_mut(utf8(a[0].as_b()?)?, csp_rule(&a[1])?);
    }
    Some(rs)
}

fn headers_x(h: &HeaderMap) -> X {
    let mut v: Vec<(Vec<u8>, Vec<u8>)> = h
        .iter()
        .map(|(k, v)| (k.as_str().as_bytes().to_vec(), v.as_bytes().to_vec()))
        .collect();
    v.sort();
    X::L(v.into_iter().map(|(k, v)| X::L(vec![X::B(k), X::B(v)])).collect())
}

/// Only the headers the property speaks about (the rest — content-type, cache-control, vary,
/// last-modified — belongs to other properties and is not modelled here).
fn security_headers_x(h: &HeaderMap) -> X {
    let mut m = HeaderMap::new();
    for (k, v) in h {
        if matches!(k.as_str(), "content-security-policy" | "csp-nonce" | "referrer-policy" | "server") {
            m.append(k.clone(), v.clone());
        }
    }
    headers_x(&m)
}

/// Which `Extensions` the host gets.
///   base 0: `Extensions::new()` as it is (its own `server` header and default CSP; `adds`/`server` unused);
///   base 1: `Extensions::new()` + `with_csp(adds)` + `with_server_header(server, platform, override)`;
///   base 2: `Extensions::empty()` + the extensions selected by `flags`
///           (1 with_csp, 2 with_no_referrer, 4 with_server_header, 8 with_uri_redirect, 16 with_nonce).
/// `mount`: `kvarn_extensions::mount_all` on top (Present extensions `cache`, `allow-ips`, `hide`, `download`, ...).
#[derive(Clone, Copy)]
struct ExtCfg {
    base: u128,
    flags: u128,
    platform: bool,
    override_server: bool,
    mount: bool,
    /// `c14.conn` only: the requests go over TLS + HTTP/2 (one connection, one stream per request)
    h2: bool,
}
impl ExtCfg {
    const CLASSIC: ExtCfg = ExtCfg { base: 1, flags: 0, platform: false, override_server: true, mount: false, h2: false };
    /// (L (N base) (N flags) (N platform) (N override) (N mount) [(N h2)])
    fn parse(x: Option<&X>) -> Option<ExtCfg> {
        let x = match x {
            None => return Some(Self::CLASSIC),
            Some(x) => x,
        };
        match x.as_l()? {
            [b, f, p, o, m, rest @ ..] if rest.len() <= 1 => Some(ExtCfg {
                base: b.as_n()?,
                flags: f.as_n()?,
                platform: p.as_n()? == 1,
                override_server: o.as_n()? == 1,
                mount: m.as_n()? == 1,
                h2: match rest.first() {
                    Some(h) => h.as_n()? == 1,
                    None => false,
                },
            }),
            _ => None,
        }
    }
}

fn extensions_cfg(csp: RuleSet<ComputedRule>, server: &str, c: ExtCfg) -> Extensions {
    let mut ext = match c.base {
        0 => Extensions::new(),
        1 => {
            let mut ext = Extensions::new();
            ext.with_csp(csp.arc());
            ext.with_server_header(server, c.platform, c.override_server);
            ext
        }
        _ => {
            let mut ext = Extensions::empty();
            if c.flags & 8 != 0 {
                ext.with_uri_redirect();
            }
            if c.flags & 2 != 0 {
                ext.with_no_referrer();
            }
            if c.flags & 1 != 0 {
                ext.with_csp(csp.arc());
            }
            if c.flags & 4 != 0 {
                ext.with_server_header(server, c.platform, c.override_server);
            }
            if c.flags & 16 != 0 {
                ext.with_nonce();
            }
            ext
        }
    };
    if c.mount {
        kvarn_extensions::mount_all(&mut ext);
    }
    ext
}

fn extensions_for(csp: RuleSet<ComputedRule>, server: &str) -> Extensions {
    extensions_cfg(csp, server, ExtCfg::CLASSIC)
}

fn empty_request(path: &str) -> Option<FatRequest> {
    Request::builder()
        .method("GET")
        .uri(path)
        .body(kvarn::application::Body::Bytes(Bytes::new().into()))
        .ok()
}

fn runtime() -> tokio::runtime::Runtime {
    tokio::runtime::Builder::new_current_thread().enable_all().build().unwrap()
}

/// The body of `Extensions::resolve_package`: every Package extension in list order.
async fn run_package_chain(host: &Host, response: &mut Response<()>, request: &FatRequest) {
    let addr: SocketAddr = "127.0.0.1:1".parse().unwrap();
    for (_, extension) in host.extensions.get_package() {
        extension.call(response, request, host, addr).await;
    }
}

fn package_ids(host: &Host) -> X {
    X::L(host.extensions.get_package().iter().map(|(id, _)| X::z(id.priority() as i128)).collect())
}

/// input: (L adds (B path) (L (L (B name) (B value)) ...) (B server)); output: Ok (L priorities headers)
fn csp_package(x: &X) -> X {
    let l = match x.as_l() {
        Some(l) if l.len() == 4 || l.len() == 5 => l,
        _ => return X::bad(),
    };
    let cfg = match ExtCfg::parse(l.get(4)) {
        Some(c) => c,
        None => return X::bad(),
    };
    let (path, hs, server) = match (l[1].as_b(), l[2].as_l(), l[3].as_b()) {
        (Some(p), Some(h), Some(s)) => (p, h, s),
        _ => return X::bad(),
    };
    let (path, server) = match (utf8(path), utf8(server)) {
        (Some(p), Some(s)) => (p, s),
        _ => return ood(),
    };
    let request = match empty_request(path) {
        Some(r) if r.uri().path() == path => r,
        _ => return ood(),
    };
    let mut response = Response::new(());
    for h in hs {
        let (n, v) = match h.as_l() {
            Some([n, v]) => match (n.as_b(), v.as_b()) {
                (Some(n), Some(v)) => (n, v),
                _ => return X::bad(),
            },
            _ => return X::bad(),
        };
        match (HeaderName::from_bytes(n), HeaderValue::from_bytes(v)) {
            (Ok(n), Ok(v)) if n.as_str().as_bytes() == n.as_str().to_ascii_lowercase().as_bytes() => {
                response.headers_mut().append(n, v);
            }
            _ => return ood(),
        }
    }
    if HeaderValue::from_str(server).is_err() {
        return ood();
    }
    crate::guarded(|| {
        let csp = match csp_set(&l[0]) {
            Some(c) => c,
            None => return X::bad(),
        };
        let mut opts = host::Options::default();
        opts.disable_fs();
        let host = Host::unsecure("localhost", "/nonexistent", extensions_cfg(csp, server, cfg), opts);
        let rt = runtime();
        rt.block_on(run_package_chain(&host, &mut response, &request));
        X::ok(X::L(vec![package_ids(&host), headers_x(response.headers())]))
    })
}

// -------------------------------------------------------------------------------------------
// nonce page through handle_cache
// -------------------------------------------------------------------------------------------
struct Page {
    body: Bytes,
    count: std::sync::Arc<AtomicUsize>,
    pref: u128,
}

fn add_page(ext: &mut Extensions, page_path: &str, page: Page) {
    let Page { body, count, pref } = page;
    ext.add_prepare_single(
        page_path,
        prepare!(_, _, _, _, move |body: Bytes, count: std::sync::Arc<AtomicUsize>, pref: u128| {
            count.fetch_add(1, Ordering::SeqCst);
            let r = Response::new(body.clone());
            match *pref {
                0 => FatResponse::no_cache(r),
                1 => FatResponse::cache(r),
                2 => FatResponse::new(r, comprash::ServerCachePreference::QueryMatters),
                _ => FatResponse::new(r, comprash::ServerCachePreference::MaxAge(Duration::from_secs(3600))),
            }
        }),
    );
}

/// The CSP rule set of `Extensions::new()` (for the configurations that set one themselves).
fn csp_default_set() -> RuleSet<ComputedRule> {
    let mut rs: RuleSet<ComputedRule> = RuleSet::empty();
    rs.add_mut("/*", CspRule::default());
    rs
}

fn page_host(csp: RuleSet<ComputedRule>, server: &str, page_path: &str, page: Page) -> Host {
    let mut ext = extensions_for(csp, server);
    add_page(&mut ext, page_path, page);
    let mut opts = host::Options::default();
    opts.disable_fs();
    let mut host = Host::unsecure("localhost", "/nonexistent", ext, opts);
    host.limiter.disable();
    host
}

fn reply_x(r: &kvarn::CacheReply) -> (Option<Vec<u8>>, X) {
    let nonces: Vec<Vec<u8>> = r.response.headers().get_all("csp-nonce").iter().map(|v| v.as_bytes().to_vec()).collect();
    let first = nonces.first().cloned();
    (
        first,
        X::L(vec![
            X::n(r.response.status().as_u16()),
            X::L(nonces.into_iter().map(X::B).collect()),
            X::b(r.response.body()),
            X::bool(r.identity_body == *r.response.body()),
        ]),
    )
}

/// input: (L (B body) (N ext_line) (N pref) adds (B server))
/// output: Ok (L reply1 reply2 (N handler_calls) (N nonces_differ) headers_after_package_chain)
///         reply = (L status (L csp-nonce values) body identity_equal)
fn nonce_page(x: &X) -> X {
    let l = match x.as_l() {
        Some(l) if l.len() == 5 => l,
        _ => return X::bad(),
    };
    let (body, line, pref, server) = match (l[0].as_b(), l[1].as_n(), l[2].as_n(), l[4].as_b()) {
        (Some(b), Some(li), Some(p), Some(s)) => (b, li, p, s),
        _ => return X::bad(),
    };
    let server = match utf8(server) {
        Some(s) if HeaderValue::from_str(s).is_ok() => s.to_owned(),
        _ => return ood(),
    };
    let mut data = Vec::new();
    if line == 1 {
        data.extend_from_slice(b"!> nonce\n");
    }
    data.extend_from_slice(body);
    let count = std::sync::Arc::new(AtomicUsize::new(0));
    crate::guarded(|| {
        let csp = match csp_set(&l[3]) {
            Some(c) => c,
            None => return X::bad(),
        };
        let host = page_host(csp, &server, "/p", Page { body: Bytes::from(data), count: count.clone(), pref });
        let addr: SocketAddr = "127.0.0.1:1".parse().unwrap();
        let rt = runtime();
        rt.block_on(async {
            let mut req1 = empty_request("/p").unwrap();
            let r1 = kvarn::handle_cache(&mut req1, addr, &host).await;
            let mut req2 = empty_request("/p").unwrap();
            let r2 = kvarn::handle_cache(&mut req2, addr, &host).await;
            let (n1, x1) = reply_x(&r1);
            let (n2, x2) = reply_x(&r2);
            let (mut head, _) = kvarn_utils::split_response(r1.response);
            run_package_chain(&host, &mut head, &req1).await;
            X::ok(X::L(vec![
                x1,
                x2,
                X::n(count.load(Ordering::SeqCst)),
                X::bool(n1.is_some() && n1 != n2),
                security_headers_x(head.headers()),
            ]))
        })
    })
}

// -------------------------------------------------------------------------------------------
// a page with a line of Present directives (`!> nonce &> cache server:full`) through handle_cache
// -------------------------------------------------------------------------------------------
/// directives: (L (L (B name) (L (B arg) ...)) ...) -> `!> name arg &> name arg\n`; empty list -> no line
fn line_text(x: &X) -> Option<Vec<u8>> {
    let ds = x.as_l()?;
    let mut out = Vec::new();
    for (i, d) in ds.iter().enumerate() {
        let d = d.as_l()?;
        if d.len() != 2 {
            return None;
        }
        out.extend_from_slice(if i == 0 { b"!> " } else { b" &> " });
        out.extend_from_slice(d[0].as_b()?);
        for a in d[1].as_l()? {
            out.push(b' ');
            out.extend_from_slice(a.as_b()?);
        }
    }
    if !ds.is_empty() {
        out.push(b'\n');
    }
    Some(out)
}

/// `(N 0)` no line, `(N 1)` = `!> nonce`, or a list of directives
fn line_of(x: &X) -> Option<Vec<u8>> {
    match x {
        X::N(0) => Some(Vec::new()),
        X::N(1) => Some(b"!> nonce\n".to_vec()),
        X::L(_) => line_text(x),
        _ => None,
    }
}

/// input: (L (B body) directives (N pref) (N requests) cfg (B server))   [server: for the model only when cfg.base = 0]
/// output: Ok (L (L reply ...) (N handler_calls) headers_after_package_chain_of_reply_1)
///         reply = (L status (L csp-nonce values) body-of-a-200)
fn nonce_line(x: &X) -> X {
    let l = match x.as_l() {
        Some(l) if l.len() == 6 => l,
        _ => return X::bad(),
    };
    let (body, pref, nreq, server) = match (l[0].as_b(), l[2].as_n(), l[3].as_n(), l[5].as_b()) {
        (Some(b), Some(p), Some(n), Some(s)) => (b, p, n, s),
        _ => return X::bad(),
    };
    let cfg = match ExtCfg::parse(Some(&l[4])) {
        Some(c) => c,
        None => return X::bad(),
    };
    let server = match utf8(server) {
        Some(s) if HeaderValue::from_str(s).is_ok() => s.to_owned(),
        _ => return ood(),
    };
    let mut data = match line_text(&l[1]) {
        Some(d) => d,
        None => return X::bad(),
    };
    data.extend_from_slice(body);
    if nreq == 0 || nreq > 4096 {
        return ood();
    }
    let count = std::sync::Arc::new(AtomicUsize::new(0));
    crate::guarded(|| {
        let mut ext = extensions_cfg(csp_default_set(), &server, cfg);
        let page = Page { body: Bytes::from(data), count: count.clone(), pref };
        add_page(&mut ext, "/p", page);
        let mut opts = host::Options::default();
        opts.disable_fs();
        let mut host = Host::unsecure("localhost", "/nonexistent", ext, opts);
        host.limiter.disable();
        let addr: SocketAddr = "127.0.0.1:1".parse().unwrap();
        let rt = runtime();
        rt.block_on(async {
            let mut replies = Vec::new();
            let mut first = None;
            for _ in 0..nreq {
                let mut req = empty_request("/p").unwrap();
                let r = kvarn::handle_cache(&mut req, addr, &host).await;
                let nonces: Vec<X> = r.response.headers().get_all("csp-nonce").iter().map(|v| X::b(v.as_bytes())).collect();
                let status = r.response.status().as_u16();
                let body = if status == 200 { r.response.body().to_vec() } else { Vec::new() };
                replies.push(X::L(vec![X::n(status), X::L(nonces), X::B(body)]));
                if first.is_none() {
                    let (mut head, _) = kvarn_utils::split_response(r.response);
                    run_package_chain(&host, &mut head, &req).await;
                    first = Some(security_headers_x(head.headers()));
                }
            }
            X::ok(X::L(vec![X::L(replies), X::n(count.load(Ordering::SeqCst)), first.unwrap()]))
        })
    })
}

// -------------------------------------------------------------------------------------------
// the send path: kvarn::handle_connection over a loopback TCP pair
// -------------------------------------------------------------------------------------------
fn conn_rt() -> &'static tokio::runtime::Runtime {
    static RT: std::sync::OnceLock<tokio::runtime::Runtime> = std::sync::OnceLock::new();
    RT.get_or_init(|| {
        tokio::runtime::Builder::new_multi_thread()
            .worker_threads(2)
            .enable_all()
            .build()
            .expect("tokio runtime")
    })
}

struct ConnHandler {
    path: String,
    status: u16,
    headers: Vec<(HeaderName, HeaderValue)>,
    cache: bool,
    body: Bytes,
}

struct ConnReq {
    method: u128,
    path: Vec<u8>,
    range: u128,
    ims: bool,
    /// 0 none, 1 gzip, 2 br, 3 zstd (accept-encoding)
    enc: u128,
}

struct WireReply {
    status: u16,
    headers: Vec<(Vec<u8>, Vec<u8>)>,
    body: Vec<u8>,
}

struct Tls14 {
    key: Arc<rustls::sign::CertifiedKey>,
    client_h2: Arc<rustls::ClientConfig>,
}
fn tls14() -> &'static Tls14 {
    static TLS: std::sync::OnceLock<Tls14> = std::sync::OnceLock::new();
    TLS.get_or_init(|| {
        use rustls::pki_types::PrivateKeyDer;
        let provider = Arc::new(rustls::crypto::ring::default_provider());
        let ss = rcgen::generate_simple_self_signed(vec!["localhost".to_string()]).expect("self-signed certificate");
        let cert = ss.cert.der().clone();
        let pk = PrivateKeyDer::Pkcs8(ss.key_pair.serialized_der().to_vec().into());
        let pk = rustls::crypto::ring::sign::any_supported_type(&pk).expect("key type");
        let key = Arc::new(rustls::sign::CertifiedKey::new(vec![cert.clone()], pk));
        let mut roots = rustls::RootCertStore::empty();
        roots.add(cert).expect("root");
        let mut c = rustls::ClientConfig::builder_with_provider(provider)
            .with_safe_default_protocol_versions()
            .expect("versions")
            .with_root_certificates(roots)
            .with_no_client_auth();
        c.alpn_protocols = vec![b"h2".to_vec()];
        Tls14 { key, client_h2: Arc::new(c) }
    })
}

fn io_err(kind: std::io::ErrorKind, what: impl Into<String>) -> std::io::Error {
    std::io::Error::new(kind, what.into())
}

struct ConnClient {
    stream: Option<tokio::net::TcpStream>,
    desc: Arc<PortDescriptor>,
    h2: Option<h2::client::SendRequest<Bytes>>,
}
impl ConnClient {
    /// One TLS connection with ALPN h2 to `handle_connection`; every request is a stream of it.
    async fn open_h2(&mut self) -> std::io::Result<()> {
        use std::io::ErrorKind::{Other, TimedOut};
        let wait = Duration::from_secs(8);
        let listener = tokio::net::TcpListener::bind("127.0.0.1:0").await?;
        let addr = listener.local_addr()?;
        let client = tokio::net::TcpStream::connect(addr).await?;
        let (server_end, peer) = listener.accept().await?;
        let desc = self.desc.clone();
        tokio::spawn(async move {
            let _ = kvarn::handle_connection(kvarn::Incoming::Tcp(server_end), peer, desc, || true).await;
        });
        let name = rustls::pki_types::ServerName::try_from("localhost").unwrap();
        let tls = tokio::time::timeout(wait, tokio_rustls::TlsConnector::from(tls14().client_h2.clone()).connect(name, client))
            .await
            .map_err(|_| io_err(TimedOut, "TLS handshake"))??;
        if tls.get_ref().1.alpn_protocol() != Some(b"h2") {
            return Err(io_err(Other, "ALPN h2 not negotiated"));
        }
        let (send, conn) = tokio::time::timeout(wait, h2::client::Builder::new().handshake::<_, Bytes>(tls))
            .await
            .map_err(|_| io_err(TimedOut, "h2 handshake"))?
            .map_err(|e| io_err(Other, format!("h2 handshake: {e}")))?;
        tokio::spawn(async move {
            let _ = conn.await;
        });
        self.h2 = Some(send);
        Ok(())
    }
    async fn exchange_h2(&mut self, r: &ConnReq) -> std::io::Result<Option<WireReply>> {
        use std::io::ErrorKind::{InvalidInput, Other, TimedOut};
        let wait = Duration::from_secs(8);
        if self.h2.is_none() {
            self.open_h2().await?;
        }
        let mut uri = b"https://localhost:8443".to_vec();
        uri.extend_from_slice(&r.path);
        let method = match r.method {
            0 => Method::GET,
            1 => Method::HEAD,
            _ => Method::POST,
        };
        let mut b = Request::builder()
            .method(method)
            .uri(Uri::try_from(&uri[..]).map_err(|e| io_err(InvalidInput, e.to_string()))?);
        match r.range {
            0 => {}
            1 => b = b.header("range", "bytes=0-3"),
            _ => b = b.header("range", "bytes=2000-2999"),
        }
        if r.ims {
            b = b.header("if-modified-since", "Fri, 01 Jan 2100 00:00:00 GMT");
        }
        match r.enc {
            0 => {}
            1 => b = b.header("accept-encoding", "gzip"),
            2 => b = b.header("accept-encoding", "br"),
            _ => b = b.header("accept-encoding", "zstd"),
        }
        let req = b.body(()).map_err(|e| io_err(InvalidInput, e.to_string()))?;
        let send = self.h2.clone().unwrap();
        let mut send = tokio::time::timeout(wait, send.ready())
            .await
            .map_err(|_| io_err(TimedOut, "h2 ready"))?
            .map_err(|e| io_err(Other, format!("h2 ready: {e}")))?;
        let (resp, _stream) = send.send_request(req, true).map_err(|e| io_err(Other, format!("h2 send_request: {e}")))?;
        let resp = match tokio::time::timeout(wait, resp).await {
            Err(_) => return Err(io_err(TimedOut, "no h2 response head")),
            // the stream was reset / the connection went away without an answer: what a panic in the pipeline looks like
            Ok(Err(e)) if e.is_reset() || e.is_go_away() || e.is_io() => return Ok(None),
            Ok(Err(e)) => return Err(io_err(Other, format!("h2 response: {e}"))),
            Ok(Ok(resp)) => resp,
        };
        let (parts, mut body) = resp.into_parts();
        let mut data = Vec::new();
        loop {
            match tokio::time::timeout(wait, body.data()).await {
                Err(_) => return Err(io_err(TimedOut, "no h2 response body")),
                Ok(None) => break,
                Ok(Some(Err(e))) => return Err(io_err(Other, format!("h2 body: {e}"))),
                Ok(Some(Ok(chunk))) => {
                    let _ = body.flow_control().release_capacity(chunk.len());
                    data.extend_from_slice(&chunk);
                }
            }
        }
        let headers: Vec<(Vec<u8>, Vec<u8>)> =
            parts.headers.iter().map(|(n, v)| (n.as_str().as_bytes().to_vec(), v.as_bytes().to_vec())).collect();
        let enc = headers.iter().find(|(k, _)| k == b"content-encoding").map(|(_, v)| v.clone());
        let body = match enc {
            Some(enc) if !data.is_empty() => match crate::c00pipe::decode_body(Some(&enc[..]), &data) {
                (b, true) => b,
                (_, false) => b"<body does not decode with its content-encoding>".to_vec(),
            },
            _ => data,
        };
        Ok(Some(WireReply { status: parts.status.as_u16(), headers, body }))
    }

    async fn connect(&mut self) -> std::io::Result<()> {
        let listener = tokio::net::TcpListener::bind("127.0.0.1:0").await?;
        let addr = listener.local_addr()?;
        let client = tokio::net::TcpStream::connect(addr).await?;
        let (server_end, peer) = listener.accept().await?;
        let desc = self.desc.clone();
        tokio::spawn(async move {
            let _ = kvarn::handle_connection(kvarn::Incoming::Tcp(server_end), peer, desc, || true).await;
        });
        self.stream = Some(client);
        Ok(())
    }
    /// Sends one request; reads one framed response.  None = closed without an answer.
    async fn exchange(&mut self, r: &ConnReq) -> std::io::Result<Option<WireReply>> {
        use tokio::io::{AsyncReadExt, AsyncWriteExt};
        let wait = Duration::from_secs(8);
        if self.stream.is_none() {
            self.connect().await?;
        }
        let s = self.stream.as_mut().unwrap();
        let method: &[u8] = match r.method {
            0 => b"GET",
            1 => b"HEAD",
            _ => b"POST",
        };
        let mut req = Vec::new();
        req.extend_from_slice(method);
        req.push(b' ');
        req.extend_from_slice(&r.path);
        req.extend_from_slice(b" HTTP/1.1\r\nHost: localhost\r\n");
        match r.range {
            0 => {}
            1 => req.extend_from_slice(b"Range: bytes=0-3\r\n"),
            _ => req.extend_from_slice(b"Range: bytes=2000-2999\r\n"),
        }
        if r.ims {
            req.extend_from_slice(b"If-Modified-Since: Fri, 01 Jan 2100 00:00:00 GMT\r\n");
        }
        match r.enc {
            0 => {}
            1 => req.extend_from_slice(b"Accept-Encoding: gzip\r\n"),
            2 => req.extend_from_slice(b"Accept-Encoding: br\r\n"),
            _ => req.extend_from_slice(b"Accept-Encoding: zstd\r\n"),
        }
        if r.method >= 2 {
            req.extend_from_slice(b"Content-Length: 0\r\n");
        }
        req.extend_from_slice(b"\r\n");
        s.write_all(&req).await?;
        let mut buf = Vec::new();
        let mut tmp = [0u8; 4096];
        let head_end;
        loop {
            if let Some(p) = buf.windows(4).position(|w| w == b"\r\n\r\n") {
                head_end = p + 4;
                break;
            }
            let n = match tokio::time::timeout(wait, s.read(&mut tmp)).await {
                Ok(Ok(n)) => n,
                Ok(Err(e)) if e.kind() == std::io::ErrorKind::ConnectionReset => 0,
                Ok(Err(e)) => return Err(e),
                Err(_) => return Err(std::io::Error::new(std::io::ErrorKind::TimedOut, "no response head")),
            };
            if n == 0 {
                self.stream = None;
                return if buf.is_empty() {
                    Ok(None)
                } else {
                    Err(std::io::Error::new(std::io::ErrorKind::UnexpectedEof, "partial head"))
                };
            }
            buf.extend_from_slice(&tmp[..n]);
        }
        let head = buf[..head_end - 4].to_vec();
        let mut lines = head.split(|b| *b == b'\n').map(|l| l.strip_suffix(b"\r").unwrap_or(l));
        let status_line = lines.next().unwrap_or(b"");
        let status: u16 = std::str::from_utf8(status_line)
            .ok()
            .and_then(|l| l.split(' ').nth(1))
            .and_then(|s| s.parse().ok())
            .unwrap_or(0);
        let mut headers = Vec::new();
        for l in lines {
            if let Some(c) = l.iter().position(|b| *b == b':') {
                let name = l[..c].to_ascii_lowercase();
                let mut v = &l[c + 1..];
                while v.first() == Some(&b' ') {
                    v = &v[1..];
                }
                headers.push((name, v.to_vec()));
            }
        }
        let get = |n: &[u8]| headers.iter().find(|(k, _)| k == n).map(|(_, v)| v.clone());
        let len: usize = get(b"content-length")
            .and_then(|v| String::from_utf8(v).ok())
            .and_then(|v| v.trim().parse().ok())
            .unwrap_or(0);
        let close = get(b"connection").map_or(false, |v| v.to_ascii_lowercase().windows(5).any(|w| w == b"close"));
        let has_body = r.method != 1 && status != 304 && !(100..200).contains(&status) && status != 204;
        let want = if has_body { len } else { 0 };
        while buf.len() < head_end + want {
            let n = match tokio::time::timeout(wait, s.read(&mut tmp)).await {
                Ok(Ok(n)) => n,
                Ok(Err(e)) => return Err(e),
                Err(_) => return Err(std::io::Error::new(std::io::ErrorKind::TimedOut, "no response body")),
            };
            if n == 0 {
                return Err(std::io::Error::new(std::io::ErrorKind::UnexpectedEof, "partial body"));
            }
            buf.extend_from_slice(&tmp[..n]);
        }
        let body = buf[head_end..head_end + want].to_vec();
        let body = match get(b"content-encoding") {
            Some(enc) if has_body && !body.is_empty() => match crate::c00pipe::decode_body(Some(&enc[..]), &body) {
                (b, true) => b,
                (_, false) => b"<body does not decode with its content-encoding>".to_vec(),
            },
            _ => body,
        };
        if close || buf.len() > head_end + want {
            // start the next request on a fresh connection
            self.stream = None;
        }
        Ok(Some(WireReply { status, headers, body }))
    }
}

/// input: (L adds (B server) (L handler ...) (L request ...))
///   handler = (L (B path) (N status) (L (L (B name) (B value)) ...) (N cache) (N nonce) (B body))
///   request = (L (N method) (B path) (N range) (N ims))
/// output: Ok (L (L (N status) security-headers body-of-a-200/206-GET) ...)
fn conn(x: &X) -> X {
    let l = match x.as_l() {
        Some(l) if l.len() == 4 || l.len() == 5 => l,
        _ => return X::bad(),
    };
    let cfg = match ExtCfg::parse(l.get(4)) {
        Some(c) if c.base <= 1 => c,
        _ => return X::bad(),
    };
    let server = match l[1].as_b().map(utf8) {
        Some(Some(s)) if HeaderValue::from_str(s).is_ok() => s.to_owned(),
        Some(_) => return ood(),
        None => return X::bad(),
    };
    let mut handlers = Vec::new();
    let mut files: Vec<(String, Vec<u8>)> = Vec::new();
    for h in match l[2].as_l() { Some(h) => h, None => return X::bad() } {
        let h = match h.as_l() {
            Some(h) if h.len() == 6 || h.len() == 7 => h,
            _ => return X::bad(),
        };
        let (path, status, hs, cache, line, body) =
            match (h[0].as_b(), h[1].as_n(), h[2].as_l(), h[3].as_n(), line_of(&h[4]), h[5].as_b()) {
                (Some(p), Some(st), Some(hs), Some(c), Some(n), Some(b)) => (p, st, hs, c, n, b),
                _ => return X::bad(),
            };
        let fs = match h.get(6).map(X::as_n) {
            None => false,
            Some(Some(f)) => f == 1,
            Some(None) => return X::bad(),
        };
        let path = match utf8(path) {
            Some(p) => p.to_owned(),
            None => return ood(),
        };
        if StatusCode::from_u16(status as u16).is_err() {
            return ood();
        }
        let mut headers = Vec::new();
        for e in hs {
            match e.as_l() {
                Some([n, v]) => match (n.as_b(), v.as_b()) {
                    (Some(n), Some(v)) => match (HeaderName::from_bytes(n), HeaderValue::from_bytes(v)) {
                        (Ok(n), Ok(v)) => headers.push((n, v)),
                        _ => return ood(),
                    },
                    _ => return X::bad(),
                },
                _ => return X::bad(),
            }
        }
        let mut data = line;
        data.extend_from_slice(body);
        if fs {
            // a file `public/<path>`: plain relative paths only
            if !path.starts_with('/') || path.ends_with('/') || path.contains("..") || path.contains("//") || path.contains('\0') {
                return ood();
            }
            files.push((path, data));
        } else {
            handlers.push(ConnHandler { path, status: status as u16, headers, cache: cache == 1, body: Bytes::from(data) });
        }
    }
    let mut reqs = Vec::new();
    for r in match l[3].as_l() { Some(r) => r, None => return X::bad() } {
        match r.as_l() {
            Some([m, p, rg, i, rest @ ..]) if rest.len() <= 1 => match (m.as_n(), p.as_b(), rg.as_n(), i.as_n()) {
                (Some(m), Some(p), Some(rg), Some(i)) => {
                    if !p.starts_with(b"/") || p.iter().any(|c| !c.is_ascii_graphic()) {
                        return ood();
                    }
                    let enc = match rest.first().map(X::as_n) {
                        None => 0,
                        Some(Some(e)) => e,
                        Some(None) => return X::bad(),
                    };
                    reqs.push(ConnReq { method: m, path: p.to_vec(), range: rg, ims: i == 1, enc })
                }
                _ => return X::bad(),
            },
            _ => return X::bad(),
        }
    }
    // fixture directory (only when the case has files): unique per process and case
    let dir = if files.is_empty() {
        None
    } else {
        static N: AtomicUsize = AtomicUsize::new(0);
        let d = std::path::PathBuf::from(format!(
            "{}/.run/c14-{}-{}",
            env!("CARGO_MANIFEST_DIR").trim_end_matches("/harness"),
            std::process::id(),
            N.fetch_add(1, Ordering::SeqCst)
        ));
        for (rel, data) in &files {
            let full = d.join("public").join(rel.trim_start_matches('/'));
            let ok = full.parent().map_or(false, |p| std::fs::create_dir_all(p).is_ok()) && std::fs::write(&full, data).is_ok();
            if !ok {
                let _ = std::fs::remove_dir_all(&d);
                return X::L(vec![X::N(93), X::b("fixture directory")]);
            }
        }
        Some(d)
    };
    let built = crate::guarded(|| {
        let csp = match csp_set(&l[0]) {
            Some(c) => c,
            None => return X::bad(),
        };
        let mut ext = extensions_cfg(csp, &server, cfg);
        for h in handlers {
            let path = h.path.clone();
            let h = Arc::new(h);
            ext.add_prepare_single(
                path,
                prepare!(_, _, _, _, move |h: Arc<ConnHandler>| {
                    let mut r = Response::new(h.body.clone());
                    *r.status_mut() = StatusCode::from_u16(h.status).unwrap();
                    for (n, v) in &h.headers {
                        r.headers_mut().append(n.clone(), v.clone());
                    }
                    if h.cache {
                        FatResponse::cache(r)
                    } else {
                        FatResponse::no_cache(r)
                    }
                }),
            );
        }
        let mut opts = host::Options::default();
        let host_path = match &dir {
            Some(d) => d.to_string_lossy().into_owned(),
            None => {
                opts.disable_fs();
                "/nonexistent".to_owned()
            }
        };
        let mut host = Host::unsecure("localhost", host_path, ext, opts);
        host.limiter.disable();
        if cfg.h2 {
            *host.certificate.write().unwrap() = Some(tls14().key.clone());
        }
        CONN_COLL.with(|c| *c.borrow_mut() = Some(HostCollection::builder().insert(host).build()));
        X::N(0)
    });
    if built != X::N(0) {
        if let Some(d) = &dir {
            let _ = std::fs::remove_dir_all(d);
        }
        return built;
    }
    let coll = CONN_COLL.with(|c| c.borrow_mut().take().unwrap());
    let desc = Arc::new(if cfg.h2 { PortDescriptor::new(8443, coll) } else { PortDescriptor::unsecure(8080, coll) });
    let out = conn_rt().block_on(async move {
        let mut client = ConnClient { stream: None, desc, h2: None };
        let mut out = Vec::new();
        for r in &reqs {
            let answer = if cfg.h2 { client.exchange_h2(r).await } else { client.exchange(r).await };
            match answer {
                Err(e) => return Err(X::L(vec![X::N(93), X::b(format!("{:?}", e.kind()))])),
                // the connection was closed without an answer: what a panic in the pipeline looks like
                Ok(None) => return Err(X::panic()),
                Ok(Some(w)) => {
                    let mut hs: Vec<(Vec<u8>, Vec<u8>)> = w
                        .headers
                        .into_iter()
                        .filter(|(k, _)| {
                            matches!(&k[..], b"content-security-policy" | b"csp-nonce" | b"referrer-policy" | b"server")
                        })
                        .collect();
                    hs.sort();
                    let body = if r.method == 0 && (w.status == 200 || w.status == 206) { w.body } else { Vec::new() };
                    out.push(X::L(vec![
                        X::n(w.status),
                        X::L(hs.into_iter().map(|(k, v)| X::L(vec![X::B(k), X::B(v)])).collect()),
                        X::B(body),
                    ]));
                }
            }
        }
        Ok(out)
    });
    if let Some(d) = &dir {
        let _ = std::fs::remove_dir_all(d);
    }
    match out {
        Ok(v) => X::ok(X::L(v)),
        Err(e) => e,
    }
}
thread_local! {
    static CONN_COLL: std::cell::RefCell<Option<Arc<HostCollection>>> = std::cell::RefCell::new(None);
}

pub fn dispatch(comp: &str, x: &X) -> Option<X> {
    Some(match comp {
        "ruleset.get" => ruleset_get(x),
        "csp.package" => csp_package(x),
        "nonce.page" => nonce_page(x),
        "nonce.line" => nonce_line(x),
        "c14.conn" => conn(x),
        _ => return None,
    })
}
