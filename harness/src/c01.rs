//! C01: path sanitisation (`sanitize_request`, `percent_decode`, `make_path`) called directly.
//! The request pipeline (`kvarn::handle_cache` on a `Host` over a fixture tree with sentinel files
//! outside the public directory) is in `c01pipe.rs`.
use crate::xval::X;
use kvarn_utils::parse::{sanitize_request, SanitizeError};

fn ood() -> X {
    X::L(vec![X::N(96)])
}

fn request(target: &[u8]) -> Option<http::Request<()>> {
    http::Request::builder().method("GET").uri(target).body(()).ok()
}

/// What `get_response` does with the URI path when the sanitize result is `Ok` (src/lib.rs).
fn fs_path(path: &str) -> X {
    crate::guarded(|| {
        let p = if let Ok(decoded) = percent_encoding_decode_utf8(path) {
            Some(kvarn_utils::make_path("h", "public", kvarn_utils::parse::uri(&decoded).unwrap(), None))
        } else {
            None
        };
        X::ok(X::opt(p.map(|p| X::b(p.as_bytes()))))
    })
}

/// `percent_encoding::percent_decode_str(s).decode_utf8()`.  The harness crate has no direct
/// dependency on `percent_encoding` (kvarn does not re-export it), so the strict decoding is
/// recomputed here by the crate's rule (`%` + two hex digits of either case, `char::to_digit(16)`)
/// and cross-checked on EVERY input against the real `kvarn_utils::percent_decode`
/// (= `percent_decode_str(s).decode_utf8().unwrap_or(s)`): a disagreement makes the component
/// answer `(L (N 94))`, which no model output equals.  The real `decode_utf8()` call of
/// `get_response` itself is exercised by the pipeline component.
fn raw_decode(s: &[u8]) -> Vec<u8> {
    let mut out = Vec::with_capacity(s.len());
    let mut i = 0;
    while i < s.len() {
        if s[i] == b'%' && i + 2 < s.len() {
            let h = (s[i + 1] as char).to_digit(16);
            let l = (s[i + 2] as char).to_digit(16);
            if let (Some(h), Some(l)) = (h, l) {
                out.push((h * 16 + l) as u8);
                i += 3;
                continue;
            }
        }
        out.push(s[i]);
        i += 1;
    }
    out
}
fn decode_utf8(s: &str) -> Option<String> {
    String::from_utf8(raw_decode(s.as_bytes())).ok()
}
fn percent_encoding_decode_utf8(path: &str) -> Result<String, ()> {
    decode_utf8(path).ok_or(())
}
/// consistency of `raw_decode` with the real crate
fn decode_consistent(s: &str) -> bool {
    let real = kvarn_utils::percent_decode(s);
    match decode_utf8(s) {
        Some(d) => real == d,
        None => real == s,
    }
}

fn sanitize_code<T>(req: &http::Request<T>) -> X {
    match sanitize_request(req) {
        Ok(_) => X::N(0),
        Err(SanitizeError::UnsafePath) => X::N(400),
        Err(SanitizeError::RangeNotSatisfiable) => X::N(416),
    }
}

fn direct(x: &X) -> X {
    let t = match x.as_b() { Some(t) => t, None => return X::bad() };
    let req = match request(t) { Some(r) => r, None => return ood() };
    let path = req.uri().path().to_string();
    if !decode_consistent(&path) {
        return X::L(vec![X::N(94)]);
    }
    let san = sanitize_code(&req);
    let fs = if san == X::N(0) { fs_path(&path) } else { X::L(vec![]) };
    X::L(vec![
        X::b(path.as_bytes()),
        X::b(kvarn_utils::percent_decode(&path).as_bytes()),
        san,
        X::opt(decode_utf8(&path).map(|d| X::b(d.as_bytes()))),
        fs,
    ])
}

fn enum_targets(toks: &[&[u8]], n: usize, prefix: &mut Vec<u8>, f: &mut impl FnMut(&[u8])) {
    if n == 0 {
        f(prefix);
        return;
    }
    for t in toks {
        let len = prefix.len();
        prefix.extend_from_slice(t);
        enum_targets(toks, n - 1, prefix, f);
        prefix.truncate(len);
    }
}

fn batch(x: &X) -> X {
    let l = match x.as_l() { Some(l) if l.len() == 3 => l, _ => return X::bad() };
    let (toks, prefix, n) = match (l[0].as_l(), l[1].as_b(), l[2].as_n()) {
        (Some(t), Some(p), Some(n)) if n <= 6 => (t, p, n as usize),
        _ => return X::bad(),
    };
    let toks: Vec<&[u8]> = match toks.iter().map(X::as_b).collect::<Option<Vec<_>>>() { Some(t) => t, None => return X::bad() };
    let mut out = Vec::new();
    let mut pre = prefix.to_vec();
    enum_targets(&toks, n, &mut pre, &mut |t| {
        let code = match request(t) {
            None => 255u8,
            Some(req) => {
                if !decode_consistent(req.uri().path()) {
                    254
                } else {
                    let ok = sanitize_request(&req).is_ok() as u8;
                    let utf8 = decode_utf8(req.uri().path()).is_some() as u8;
                    ok + 2 * utf8
                }
            }
        };
        out.push(code);
    });
    X::B(out)
}

fn make_path(x: &X) -> X {
    let l = match x.as_l() { Some(l) if l.len() == 4 => l, _ => return X::bad() };
    let s = |x: &X| x.as_b().and_then(|b| std::str::from_utf8(b).ok().map(str::to_string));
    let (base, dir, file) = match (s(&l[0]), s(&l[1]), s(&l[2])) {
        (Some(a), Some(b), Some(c)) => (a, b, c),
        _ => return ood(),
    };
    let ext = match l[3].as_opt() {
        Some(None) => None,
        Some(Some(e)) => match s(e) { Some(e) => Some(e), None => return ood() },
        None => return X::bad(),
    };
    X::b(kvarn_utils::make_path(base, dir, file, ext.as_deref()).as_bytes())
}

fn decode(x: &X) -> X {
    let s = match x.as_b().map(std::str::from_utf8) { Some(Ok(s)) => s, Some(Err(_)) => return ood(), None => return X::bad() };
    if !decode_consistent(s) {
        return X::L(vec![X::N(94)]);
    }
    X::L(vec![
        X::b(kvarn_utils::percent_decode(s).as_bytes()),
        X::b(String::from_utf8_lossy(&raw_decode(s.as_bytes())).as_bytes()),
    ])
}

fn utf8(x: &X) -> X {
    let s = match x.as_b() { Some(s) => s, None => return X::bad() };
    X::L(vec![X::bool(std::str::from_utf8(s).is_ok()), X::b(String::from_utf8_lossy(s).as_bytes())])
}

pub fn dispatch(comp: &str, x: &X) -> Option<X> {
    Some(match comp {
        "pathsan.direct" => direct(x),
        "pathsan.batch" => batch(x),
        "pathsan.make_path" => make_path(x),
        "pathsan.decode" => decode(x),
        "pathsan.utf8" => utf8(x),
        _ => return None,
    })
}
