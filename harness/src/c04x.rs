//! C03 / C04 — extended in-process pipeline harness (model: Model/CacheX.v, component `pipex.run`).
//! Same scenario language as c00pipe.rs plus
//!   cfg `xhandlers` = (L (L path sel (L (L value hspec pad stream) ...)) ...)
//!        a handler that picks one of several behaviours by the raw value of request header `sel`
//!        (absent header = empty value; no behaviour matches = the first one). `hspec` is the 10-field
//!        handler of c00pipe.rs, `pad` a number of 0x00 filler bytes put before the body (so that a
//!        4 MiB body never travels through the interchange), `stream` 0 = no future, 1 = a
//!        ResponsePipeFuture without length, 2 = with length Some(body length).
//!   cfg `sfilter`   = 0 default status filter, 1 cache every status, 2 cache only 200
//!   cfg `ovprime`   = (L header internal-path): a Prime extension that overrides the URI with the
//!        internal path ("/./...") when the request carries `header`
//!   cfg `slack`     = ms; every request must start and end within `slack` ms of its nominal time
//!        (sum of the waits before it), otherwise the scenario is run again (3 attempts), then
//!        reported as (L (N 93) (N overshoot-ms)) = could not be executed under the timing constraints
//!   cfg `allhdr`    = report every response header (sorted by name; `last-modified`, `date` by presence)
//!   op (L (N 1) target (B designation)) = Collection::clear_page(designation, target) — "" / "default" name the
//!        collection's default host (cfg `default_host`), anything else is looked up by name;
//!   op (L (N 2) (L [name])) = Collection::clear_response_caches(filter)   (component `pipex.rund`, Model/CacheClear.v)
//! result per request: (L status headers body decode_ok identity log (N stream))
//!   body / identity: a leading run of n >= 1 zero bytes is written "PAD<n>:".
//! Component `cc.parse`: kvarn_utils::parse::CacheControl called directly.
use crate::c00pipe::{self, Built, HSpec, Shared};
use crate::xval::X;
use bytes::Bytes;
use kvarn::prelude::*;
use std::sync::Arc;

fn kv_get<'a>(kv: &'a [(String, X)], k: &str) -> Option<&'a X> {
    kv.iter().find(|(n, _)| n == k).map(|(_, v)| v)
}

struct Behaviour {
    value: Vec<u8>,
    spec: HSpec,
    pad: usize,
    stream: u128,
}
struct XHandler {
    sel: Vec<u8>,
    behaviours: Vec<Behaviour>,
}

fn parse_xhandler(idx: usize, x: &X) -> Option<(Vec<u8>, XHandler)> {
    let l = x.as_l()?;
    if l.len() != 3 {
        return None;
    }
    let mut behaviours = Vec::new();
    for b in l[2].as_l()? {
        let p = b.as_l()?;
        if p.len() != 4 {
            return None;
        }
        let (_, spec) = c00pipe::parse_handler(idx, &p[1])?;
        behaviours.push(Behaviour { value: p[0].as_b()?.to_vec(), spec, pad: p[2].as_n()? as usize, stream: p[3].as_n()? });
    }
    if behaviours.is_empty() {
        return None;
    }
    Some((l[0].as_b()?.to_vec(), XHandler { sel: l[1].as_b()?.to_vec(), behaviours }))
}

fn xhandler_response(h: &XHandler, shared: &Shared, req: &FatRequest) -> FatResponse {
    let v: Vec<u8> = if h.sel.is_empty() {
        Vec::new()
    } else {
        req.headers().get(c00pipe::leak(&h.sel)).map(|v| v.as_bytes().to_vec()).unwrap_or_default()
    };
    let b = h.behaviours.iter().find(|b| b.value == v).unwrap_or(&h.behaviours[0]);
    let base = c00pipe::handler_response(&b.spec, shared, req);
    if b.pad == 0 && b.stream == 0 {
        return base;
    }
    let (resp, client, server, compress, _) = base.into_parts();
    let (parts, body) = resp.into_parts();
    let mut nb = vec![0u8; b.pad];
    nb.extend_from_slice(&body);
    let len = nb.len() as u64;
    let resp = Response::from_parts(parts, Bytes::from(nb));
    let mut fat = FatResponse::new(resp, server).with_client_cache(client).with_compress(compress);
    if b.stream != 0 {
        let fut = response_pipe_fut!(_pipe, _host, {});
        fat = fat.with_future_and_maybe_len((fut, if b.stream == 2 { Some(len) } else { None }));
    }
    fat
}

fn filter_all(_: StatusCode) -> host::CacheAction {
    host::CacheAction::Cache
}
fn filter_only_200(s: StatusCode) -> host::CacheAction {
    if s.as_u16() == 200 {
        host::CacheAction::Cache
    } else {
        host::CacheAction::Drop
    }
}

fn customize(kv: &[(String, X)], host: &mut Host, shared: &Arc<Shared>) {
    let n_handlers = kv_get(kv, "handlers").and_then(X::as_l).map_or(0, |l| l.len());
    if let Some(xs) = kv_get(kv, "xhandlers").and_then(X::as_l) {
        for (i, x) in xs.iter().enumerate().take(8) {
            if let Some((path, h)) = parse_xhandler(n_handlers + i, x) {
                let sh = Arc::clone(shared);
                let h = Arc::new(h);
                host.extensions.add_prepare_single(
                    c00pipe::leak(&path),
                    prepare!(req, _host, _path, _addr, move |h: Arc<XHandler>, sh: Arc<Shared>| { xhandler_response(h, sh, req) }),
                );
            }
        }
    }
    match kv_get(kv, "sfilter").and_then(X::as_n) {
        Some(1) => host.options.status_code_cache_filter = filter_all,
        Some(2) => host.options.status_code_cache_filter = filter_only_200,
        _ => {}
    }
    if let Some([name, path]) = kv_get(kv, "ovprime").and_then(X::as_l) {
        if let (Some(name), Some(path)) = (name.as_b(), path.as_b()) {
            let name: &'static str = c00pipe::leak(name);
            let path: &'static str = c00pipe::leak(path);
            if path.starts_with("/./") {
                host.extensions.add_prime(
                    prime!(req, _host, _addr, move |name: &'static str, path: &'static str| {
                        if req.headers().contains_key(*name) {
                            Uri::try_from(*path).ok()
                        } else {
                            None
                        }
                    }),
                    extensions::Id::new(-1000, "verif: override prime"),
                );
            }
        }
    }
}

fn canon_pad(b: &[u8]) -> Vec<u8> {
    let n = b.iter().take_while(|c| **c == 0).count();
    if n == 0 {
        return c00pipe::canon_body(b);
    }
    let mut out = format!("PAD{n}:").into_bytes();
    out.extend_from_slice(&c00pipe::canon_body(&b[n..]));
    out
}

fn all_headers(h: &HeaderMap) -> X {
    let mut v: Vec<(String, Vec<u8>)> = Vec::new();
    for (n, val) in h {
        let n = n.as_str().to_string();
        let val = if n == "last-modified" || n == "date" { Vec::new() } else { val.as_bytes().to_vec() };
        v.push((n, val));
    }
    v.sort();
    X::L(v.into_iter().map(|(n, val)| X::L(vec![X::b(n), X::b(val)])).collect())
}

/// Err(overshoot ms) when a request started or ended later than nominal + slack.
async fn run_ops(b: &Built, ops: &[X], slack: Option<u64>, allhdr: bool) -> Option<Result<Vec<X>, u64>> {
    let host = b.hosts.get_host(&b.host_name)?;
    let mut out = Vec::new();
    let now = || std::time::SystemTime::now().duration_since(std::time::UNIX_EPOCH).unwrap();
    if let Some(phase) = b.align {
        let frac = now().subsec_millis() as u64;
        tokio::time::sleep(Duration::from_millis((phase + 1000 - frac) % 1000)).await;
    }
    let wall0 = now();
    let t0 = wall0.as_secs();
    if let (Some(phase), Some(slack)) = (b.align, slack) {
        // the alignment itself overslept
        let frac = wall0.subsec_millis() as u64;
        if frac < phase || frac > phase + slack {
            return Some(Err((frac + 1000 - phase) % 1000));
        }
    }
    let start = std::time::Instant::now();
    let mut nominal: u64 = 0;
    let mut worst: u64 = 0;
    for op in ops {
        let l = op.as_l()?;
        match l[0].as_n()? {
            0 => {
                let addr = c00pipe::sockaddr(l[1].as_n()?);
                let hdrs: Vec<X> = l[4]
                    .as_l()?
                    .iter()
                    .map(|h| match h.as_l() {
                        Some([n, v]) if n.as_b() == Some(b"if-modified-since") => {
                            X::L(vec![n.clone(), X::b(c00pipe::subst_ims(v.as_b().unwrap_or(b""), t0))])
                        }
                        _ => h.clone(),
                    })
                    .collect();
                let mut req = match c00pipe::make_request(&b.host_name, l[2].as_b()?, l[3].as_b()?, &hdrs, l[5].as_b()?) {
                    Some(r) => r,
                    None => {
                        out.push(X::L(vec![X::N(96)]));
                        continue;
                    }
                };
                b.shared.log.lock().unwrap().clear();
                let before = start.elapsed().as_millis() as u64;
                let reply = kvarn::handle_cache(&mut req, addr, host).await;
                let after = start.elapsed().as_millis() as u64;
                worst = worst.max(before.saturating_sub(nominal)).max(after.saturating_sub(nominal));
                let log: Vec<X> = b.shared.log.lock().unwrap().iter().map(X::b).collect();
                let enc = reply.response.headers().get("content-encoding").map(|v| v.as_bytes().to_vec());
                let (decoded, ok) = c00pipe::decode_body(enc.as_deref(), reply.response.body());
                let stream = match &reply.future {
                    None => 0u8,
                    Some((_, None)) => 1,
                    Some((_, Some(_))) => 2,
                };
                out.push(X::L(vec![
                    X::n(reply.response.status().as_u16()),
                    if allhdr { all_headers(reply.response.headers()) } else { c00pipe::report_headers(reply.response.headers(), &b.report) },
                    X::b(canon_pad(&decoded)),
                    X::bool(ok),
                    X::b(canon_pad(&reply.identity_body)),
                    X::L(log),
                    X::n(stream),
                ]));
            }
            1 => {
                // (L (N 1) target) clears by the host's own name; (L (N 1) target (B designation)) by the name given
                // ("" / "default" = the collection's default host, any other text = get_host)
                let uri = Uri::try_from(l[1].as_b()?).ok()?;
                let designation = match l.get(2) {
                    Some(d) => String::from_utf8(d.as_b()?.to_vec()).ok()?,
                    None => b.host_name.clone(),
                };
                let (found, cleared) = b.hosts.clear_page(&designation, &uri);
                out.push(X::L(vec![X::bool(found), X::bool(cleared)]));
            }
            2 => {
                // (L (N 2)) = clear_response_caches(None); (L (N 2) (L)) the same; (L (N 2) (L (B name))) = Some(name)
                let filter = match l.get(1) {
                    Some(f) => match f.as_l()? {
                        [] => None,
                        [n] => Some(String::from_utf8(n.as_b()?.to_vec()).ok()?),
                        _ => return None,
                    },
                    None => None,
                };
                b.hosts.clear_response_caches(filter.as_deref()).await;
                out.push(X::L(vec![]));
            }
            3 => {
                let ms = l[1].as_n()? as u64;
                nominal += ms;
                // sleep until the nominal time, so that overshoots do not accumulate
                let target = Duration::from_millis(nominal);
                let el = start.elapsed();
                if target > el {
                    tokio::time::sleep(target - el).await;
                }
                out.push(X::L(vec![]));
            }
            _ => return None,
        }
    }
    match slack {
        Some(s) if worst > s => Some(Err(worst)),
        _ => Some(Ok(out)),
    }
}

fn run_scenario(x: &X) -> X {
    let l = match x.as_l() {
        Some(l) if l.len() == 2 => l,
        _ => return X::bad(),
    };
    let ops = match l[1].as_l() {
        Some(o) => o,
        None => return X::bad(),
    };
    let (slack, allhdr) = match l[0].as_l() {
        Some(c) => {
            let find = |k: &[u8]| c.iter().find_map(|e| match e.as_l() {
                Some([n, v]) if n.as_b() == Some(k) => Some(v.clone()),
                _ => None,
            });
            (find(b"slack").and_then(|v| v.as_n()).map(|n| n as u64), find(b"allhdr").and_then(|v| v.as_bool()).unwrap_or(false))
        }
        None => return X::bad(),
    };
    let mut last = 0;
    for _attempt in 0..3 {
        let built = match c00pipe::build_host(&l[0], Some(&customize)) {
            Some(b) => b,
            None => return X::bad(),
        };
        let res = c00pipe::block_on(run_ops(&built, ops, slack, allhdr));
        if let Some(d) = &built.dir {
            let _ = std::fs::remove_dir_all(d);
        }
        match res {
            Some(Ok(v)) => return X::L(v),
            Some(Err(over)) => last = over,
            None => return X::bad(),
        }
    }
    X::L(vec![X::N(93), X::n(last)])
}

/// (L (N which) arg): which 0 = from_cache_control(B), 1 = from_kvarn_cache_control(B),
/// 2 = from_headers((L (L name value) ...)).  -> outcome (L (L [max_age]) no_store store (L [freshness]))
fn cc_parse(x: &X) -> X {
    use utils::parse::CacheControl;
    let l = match x.as_l() {
        Some(l) if l.len() == 2 => l,
        _ => return X::bad(),
    };
    let ood = || X::L(vec![X::N(96)]);
    let text = |v: &[u8]| v.iter().all(|c| (32..127).contains(c) || *c == 9);
    let which = match l[0].as_n() {
        Some(w) => w,
        None => return X::bad(),
    };
    let res = match which {
        0 | 1 => {
            let v = match l[1].as_b() {
                Some(b) => b.to_vec(),
                None => return X::bad(),
            };
            if !text(&v) {
                return ood();
            }
            let s = String::from_utf8(v).expect("ascii");
            match std::panic::catch_unwind(move || if which == 0 { CacheControl::from_cache_control(&s) } else { CacheControl::from_kvarn_cache_control(&s) }) {
                Ok(r) => r,
                Err(_) => return X::panic(),
            }
        }
        2 => {
            let mut map = HeaderMap::new();
            for h in match l[1].as_l() {
                Some(h) => h,
                None => return X::bad(),
            } {
                let (n, v) = match h.as_l() {
                    Some([n, v]) => (n.as_b(), v.as_b()),
                    _ => return X::bad(),
                };
                let (n, v) = match (n, v) {
                    (Some(n), Some(v)) => (n, v),
                    _ => return X::bad(),
                };
                match (HeaderName::from_bytes(n), HeaderValue::from_bytes(v)) {
                    // first value of a name wins in `HeaderMap::get`
                    (Ok(n), Ok(v)) => {
                        map.append(n, v);
                    }
                    _ => return ood(),
                }
            }
            match std::panic::catch_unwind(move || CacheControl::from_headers(&map)) {
                Ok(r) => r,
                Err(_) => return X::panic(),
            }
        }
        _ => return X::bad(),
    };
    match res {
        Ok(cc) => {
            // the fields are private: take them from the derived Debug text
            let d = format!("{cc:?}");
            let max_age = d.split("max_age: ").nth(1).and_then(|r| {
                r.strip_prefix("Some(").and_then(|r| r.split(')').next()).and_then(|n| n.parse::<u128>().ok())
            });
            let no_store = d.contains("no_store: true");
            X::ok(X::L(vec![
                X::opt(max_age.map(X::N)),
                X::bool(no_store),
                X::bool(cc.store()),
                X::opt(cc.as_freshness().map(|n| X::n(n))),
            ]))
        }
        Err(e) => {
            use utils::parse::CacheControlError::*;
            X::err(match e {
                MultipleMaxAge => 1,
                InvalidInteger => 2,
                InvalidUnit => 3,
                InvalidKeyword => 4,
                InvalidBytes => 5,
            })
        }
    }
}

/// Real-vs-real oracle of C03: the same scenario on two hosts built from the same configuration, one with and one
/// without the response cache; result = the operations whose replies differ on status, any header except
/// `last-modified`, decoded body, identity body or stream: (L (L (N index) (B what)) ...). The model predicts (L).
fn run_pair(x: &X) -> X {
    let l = match x.as_l() {
        Some(l) if l.len() == 2 => l,
        _ => return X::bad(),
    };
    let cfg = match l[0].as_l() {
        Some(c) => c,
        None => return X::bad(),
    };
    let with = |cache: bool| -> X {
        let mut c: Vec<X> = cfg
            .iter()
            .filter(|e| !matches!(e.as_l(), Some([n, _]) if matches!(n.as_b(), Some(b"cache") | Some(b"allhdr"))))
            .cloned()
            .collect();
        c.push(X::L(vec![X::b("cache"), X::bool(cache)]));
        c.push(X::L(vec![X::b("allhdr"), X::bool(true)]));
        run_scenario(&X::L(vec![X::L(c), l[1].clone()]))
    };
    let (a, b) = (with(true), with(false));
    let (la, lb) = match (a.as_l(), b.as_l()) {
        (Some(la), Some(lb)) if la.len() == lb.len() && !matches!(la.first(), Some(X::N(_))) && !matches!(lb.first(), Some(X::N(_))) => (la, lb),
        // harness trouble (timing) on either side
        _ => return if matches!(a.as_l(), Some([X::N(93), ..])) { a } else { b },
    };
    let mut out = Vec::new();
    for (i, (ra, rb)) in la.iter().zip(lb.iter()).enumerate() {
        let (fa, fb) = match (ra.as_l(), rb.as_l()) {
            (Some(fa), Some(fb)) if fa.len() == 7 && fb.len() == 7 => (fa, fb),
            _ => continue,
        };
        let strip = |h: &X| -> Vec<X> {
            h.as_l().map(|l| l.iter().filter(|p| !matches!(p.as_l(), Some([n, _]) if n.as_b() == Some(b"last-modified"))).cloned().collect()).unwrap_or_default()
        };
        let mut what = Vec::new();
        if fa[0] != fb[0] {
            what.push("status");
        }
        if strip(&fa[1]) != strip(&fb[1]) {
            what.push("headers");
        }
        if fa[2] != fb[2] || fa[3] != fb[3] {
            what.push("body");
        }
        if fa[4] != fb[4] {
            what.push("identity");
        }
        if fa[6] != fb[6] {
            what.push("stream");
        }
        if !what.is_empty() {
            out.push(X::L(vec![X::n(i), X::b(what.join(",")), ra.clone(), rb.clone()]));
        }
    }
    X::L(out)
}

pub fn dispatch(comp: &str, x: &X) -> Option<X> {
    Some(match comp {
        // pipex.rund: the same harness; the model side (Model/CacheClear.v) also reads the cfg keys `host` / `default_host`
        // and the designated forms of the clear operations
        "pipex.run" | "pipex.rund" => run_scenario(x),
        "pipex.pair" => run_pair(x),
        "cc.parse" => cc_parse(x),
        _ => return None,
    })
}
