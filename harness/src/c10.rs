//! C10: graceful shutdown.
//! `shutdown.methods` – whole-method operations on a real `shutdown::Manager`.
//! `shutdown.replay`  – a schedule of the Coq transition system replayed on a real server
//!                      (`RunConfig::execute` on loopback ports) through the hook points of the
//!                      cargo feature `verif-hooks` (harness feature `hooks`).
use crate::xval::X;
use kvarn::prelude::*;
use std::future::Future;
use std::pin::Pin;
use std::task::{Context, Poll, RawWaker, RawWakerVTable, Waker};

fn noop_waker() -> Waker {
    fn clone(_: *const ()) -> RawWaker {
        RawWaker::new(std::ptr::null(), &VTABLE)
    }
    fn noop(_: *const ()) {}
    static VTABLE: RawWakerVTable = RawWakerVTable::new(clone, noop, noop, noop);
    unsafe { Waker::from_raw(RawWaker::new(std::ptr::null(), &VTABLE)) }
}

/// Has the shutdown-complete signal been delivered?  A fresh `wait()` future resolves at its
/// first poll exactly when the finished channel has been sent.
fn finished_now(m: &shutdown::Manager) -> bool {
    let w = noop_waker();
    let mut cx = Context::from_waker(&w);
    let mut f = Box::pin(m.wait());
    matches!(f.as_mut().poll(&mut cx), Poll::Ready(()))
}

// ------------------------------------------------------------------------------------------
// method level
// ------------------------------------------------------------------------------------------
type HookFut = Pin<Box<dyn Future<Output = tokio::sync::mpsc::UnboundedSender<()>>>>;
enum HookSt {
    Waiting(HookFut),
    Signalled(tokio::sync::mpsc::UnboundedSender<()>),
    Acked,
}

pub fn methods(x: &X) -> X {
    let ops = match x.as_l() { Some(l) if l.len() <= 400 => l, _ => return X::bad() };
    let mut parsed = Vec::new();
    for o in ops {
        match o.as_l() {
            Some([X::N(c), X::N(a)]) if *c <= 5 => parsed.push((*c as u8, *a as usize)),
            _ => return X::bad(),
        }
    }
    let rt = tokio::runtime::Builder::new_current_thread().enable_all().build().expect("rt");
    rt.block_on(async move {
        // SAFETY: no listener is ever added
        let m: &'static shutdown::Manager = Box::leak(Box::new(unsafe { shutdown::Manager::new(1) }));
        let init_watch = m.get_initate_shutdown_watcher();
        let mut hooks: Vec<HookSt> = Vec::new();
        let mut out = Vec::new();
        let w = noop_waker();
        for (c, a) in parsed {
            match c {
                0 => m.add_connection(),
                1 => m.remove_connection(),
                2 => m.shutdown(),
                3 => hooks.push(HookSt::Waiting(Box::pin(m.wait_for_pre_shutdown()))),
                4 => {
                    if let Some(h) = hooks.get_mut(a) {
                        if let HookSt::Waiting(f) = h {
                            let mut cx = Context::from_waker(&w);
                            if let Poll::Ready(s) = f.as_mut().poll(&mut cx) {
                                *h = HookSt::Signalled(s);
                            }
                        }
                        if let HookSt::Signalled(s) = h {
                            let _ = s.send(());
                            *h = HookSt::Acked;
                        }
                    }
                }
                _ => {}
            }
            // let the completion task run as far as it can
            for _ in 0..(8 + 2 * hooks.len()) {
                tokio::task::yield_now().await;
            }
            let mut hs = Vec::new();
            for h in hooks.iter_mut() {
                if let HookSt::Waiting(f) = h {
                    let mut cx = Context::from_waker(&w);
                    if let Poll::Ready(s) = f.as_mut().poll(&mut cx) {
                        *h = HookSt::Signalled(s);
                    }
                }
                hs.push(X::N(match h { HookSt::Waiting(_) => 0, HookSt::Signalled(_) => 1, HookSt::Acked => 2 }));
            }
            out.push(X::L(vec![
                X::z(m.get_connecions() as i128),
                X::bool(m.get_shutdown(std::sync::atomic::Ordering::SeqCst)),
                X::bool(finished_now(m)),
                X::L(hs),
                X::bool(init_watch.has_changed().unwrap_or(false)),
            ]));
        }
        X::L(out)
    })
}

// ------------------------------------------------------------------------------------------
// schedule replay
// ------------------------------------------------------------------------------------------
#[cfg(feature = "hooks")]
mod replay {
    use super::*;
    use std::collections::HashMap;
    use std::io::{Read, Write};
    use std::net::{IpAddr, Ipv4Addr, SocketAddr, TcpStream as StdStream};
    use std::sync::atomic::{AtomicBool, AtomicU32, Ordering};
    use std::sync::{Arc, Condvar, Mutex};
    use std::time::{Duration, Instant};

    /// How long the controller waits for an arrival the schedule expects. Nothing on the unchanged tree comes
    /// near it; once a process has reported several stalls (the code under test does something else than the
    /// model, the verdict is a mismatch already) the wait is shortened so that the report does not take minutes.
    static STALLS_REPORTED: AtomicU32 = AtomicU32::new(0);
    static STALLS_RETRIED: AtomicU32 = AtomicU32::new(0);
    const STALL_RETRY_BUDGET: u32 = 3;
    fn step_timeout() -> Duration {
        if STALLS_REPORTED.load(Ordering::Relaxed) >= 4 { Duration::from_millis(1500) } else { Duration::from_secs(4) }
    }
    /// re-runs of a schedule whose select! step polled the other ready branch first (probability about 1/2 each)
    const ATTEMPTS: usize = 20;

    #[derive(Clone, Copy, PartialEq, Eq, Hash, Debug)]
    enum Tid {
        Task(u64),
        Os(u64),
    }
    fn debug() -> bool {
        static D: std::sync::OnceLock<bool> = std::sync::OnceLock::new();
        *D.get_or_init(|| std::env::var("KVH_C10_DEBUG").is_ok())
    }
    fn hash_id<T: std::hash::Hash>(t: &T) -> u64 {
        use std::hash::Hasher;
        let mut h = std::collections::hash_map::DefaultHasher::new();
        t.hash(&mut h);
        h.finish()
    }
    fn current_tid() -> Tid {
        match tokio::task::try_id() {
            Some(id) => Tid::Task(hash_id(&id)),
            None => Tid::Os(hash_id(&std::thread::current().id())),
        }
    }

    #[derive(Clone, Copy, PartialEq, Eq, Hash, Debug)]
    pub enum Role {
        Listener(u16), // by port
        Conn(u16),     // by peer port
        Caller(usize),
        Comp,
        Exec, // the thread running `RunConfig::execute` (start-up replay only)
    }

    #[derive(Default)]
    struct Th {
        at: Option<(&'static str, i64)>, // blocked at this point
        last: Option<(&'static str, i64)>, // last point passed or blocked at (also in free run)
        seq: u64,
        go: bool,
    }
    #[derive(Default)]
    struct Inner {
        threads: HashMap<Tid, Th>,
        roles: HashMap<Role, Tid>,
        has_role: std::collections::HashSet<Tid>,
        unscheduled: u64, // arrivals of threads that are none of the model's threads
        free: bool,
        caller_reg: HashMap<u64, usize>, // os thread -> caller index
        exec_os: Option<u64>,            // os thread running `execute()` in a start-up replay
        verdict_panic: HashMap<u16, bool>, // peer port -> panic?
    }
    pub struct Ctl {
        inner: Mutex<Inner>,
        cv: Condvar,
        /// name of every thread of this run (runtime workers, blocking pool, callers)
        thread_name: String,
    }
    static RUN_COUNTER: AtomicU32 = AtomicU32::new(0);
    const THREAD_PREFIX: &str = "kvh-c10-";
    impl Ctl {
        fn new() -> Arc<Self> {
            let n = RUN_COUNTER.fetch_add(1, Ordering::Relaxed);
            Arc::new(Ctl { inner: Mutex::new(Inner::default()), cv: Condvar::new(), thread_name: format!("{THREAD_PREFIX}{n}") })
        }
        /// called from the instrumented code (and from the handler)
        fn arrive(&self, name: &'static str, val: i64) {
            // hook points of other properties (C11: "ex.*", "ctl.*") are not steps of this model: pass through.
            // "hd.run" is this harness' own point inside the request handler.
            // The points of the start-up program ("ex.bind", "ex.bound") are steps only in a start-up replay, for the
            // thread registered as running `execute()` (see below).
            let prefix = name.split('.').next();
            let is_ex = prefix == Some("ex");
            if !is_ex && !matches!(prefix, Some("al" | "ap" | "co" | "ct" | "rm" | "sh" | "hd")) {
                return;
            }
            // The hook is process-wide: a thread left over from an earlier run of this process (its runtime is
            // shut down with a timeout, blocked threads outlive it) is not part of this run.
            if let Some(n) = std::thread::current().name() {
                if n.starts_with(THREAD_PREFIX) && n != self.thread_name {
                    return;
                }
            }
            let tid = current_tid();
            if debug() { eprintln!("arrive {name} {val} {tid:?}"); }
            let mut g = self.inner.lock().unwrap();
            if is_ex && !matches!(tid, Tid::Os(o) if g.exec_os == Some(o)) {
                return;
            }
            // role assignment by the first point a thread reaches
            let role = match name {
                "ex.bind" => Some(Role::Exec),
                "al.top" => Some(Role::Listener(val as u16)),
                "co.start" => Some(Role::Conn(val as u16)),
                "ct.start" => Some(Role::Comp),
                "sh.enter" => match tid {
                    Tid::Os(o) => g.caller_reg.get(&o).map(|k| Role::Caller(*k)),
                    _ => None,
                },
                _ => None,
            };
            if let Some(r) = role {
                if !g.roles.contains_key(&r) && !g.has_role.contains(&tid) {
                    g.roles.insert(r, tid);
                    g.has_role.insert(tid);
                }
            }
            // A thread that is none of the model's threads (e.g. `RunConfig::execute` itself touching the
            // count) is not scheduled: nobody would ever release it. It passes; what it did to the shared
            // state shows in the next observation.
            if !g.has_role.contains(&tid) {
                if !g.free {
                    g.unscheduled += 1;
                    if debug() { eprintln!("STRAY {name} {val} {tid:?}"); }
                }
                return;
            }
            let free = g.free;
            let th = g.threads.entry(tid).or_default();
            th.last = Some((name, val));
            th.seq += 1;
            if free {
                self.cv.notify_all();
                return;
            }
            th.at = Some((name, val));
            th.go = false;
            self.cv.notify_all();
            let wait = |mut g: std::sync::MutexGuard<'_, Inner>| {
                loop {
                    if g.free {
                        break;
                    }
                    if g.threads.get(&tid).map(|t| t.go).unwrap_or(true) {
                        break;
                    }
                    g = self.cv.wait(g).unwrap();
                }
                if let Some(t) = g.threads.get_mut(&tid) {
                    t.go = false;
                    t.at = None;
                }
            };
            let in_worker = matches!(tid, Tid::Task(_));
            if in_worker {
                tokio::task::block_in_place(move || wait(g));
            } else {
                wait(g);
            }
        }
        fn release(&self, role: Role) -> bool {
            let mut g = self.inner.lock().unwrap();
            let tid = match g.roles.get(&role) { Some(t) => *t, None => return false };
            match g.threads.get_mut(&tid) {
                Some(t) if t.at.is_some() => {
                    t.go = true;
                    t.at = None;
                    self.cv.notify_all();
                    true
                }
                _ => false,
            }
        }
        /// the point `role` is blocked at, waiting for it to get there
        fn at(&self, role: Role, timeout: Duration) -> Option<(&'static str, i64)> {
            let deadline = Instant::now() + timeout;
            let mut g = self.inner.lock().unwrap();
            loop {
                if let Some(tid) = g.roles.get(&role) {
                    if let Some(p) = g.threads.get(tid).and_then(|t| t.at) {
                        return Some(p);
                    }
                }
                let now = Instant::now();
                if now >= deadline {
                    return None;
                }
                let (g2, _) = self.cv.wait_timeout(g, deadline - now).unwrap();
                g = g2;
            }
        }
        fn peek(&self, role: Role) -> Option<(&'static str, i64)> {
            let g = self.inner.lock().unwrap();
            g.roles.get(&role).and_then(|tid| g.threads.get(tid)).and_then(|t| t.at)
        }
        fn last(&self, role: Role) -> Option<(&'static str, i64)> {
            let g = self.inner.lock().unwrap();
            g.roles.get(&role).and_then(|tid| g.threads.get(tid)).and_then(|t| t.last)
        }
        fn known(&self, role: Role) -> bool {
            self.inner.lock().unwrap().roles.contains_key(&role)
        }
        fn unscheduled(&self) -> u64 {
            self.inner.lock().unwrap().unscheduled
        }
        fn set_free(&self) {
            self.inner.lock().unwrap().free = true;
            self.cv.notify_all();
        }
    }

    static PORT_COUNTER: AtomicU32 = AtomicU32::new(0);
    fn next_port() -> u16 {
        let n = PORT_COUNTER.fetch_add(1, Ordering::Relaxed);
        (12_000 + (std::process::id() % 150) * 100 + n % 100) as u16
    }
    fn port_is_free(port: u16) -> bool {
        match StdStream::connect_timeout(&SocketAddr::new(IpAddr::V4(Ipv4Addr::LOCALHOST), port), Duration::from_secs(2)) {
            Err(e) => e.kind() == std::io::ErrorKind::ConnectionRefused,
            Ok(_) => false,
        }
    }

    #[derive(Debug)]
    pub enum Fail {
        Diverged,      // the select! of the accept future chose the other ready branch: repeat the run
        Stalled(usize), // an expected arrival did not happen at this step
        Bad,           // the schedule asks for something that cannot be done (label not enabled)
    }

    #[derive(Clone, Copy, PartialEq)]
    enum LSt {
        Running,
        Parked,
    }
    struct Client {
        stream: Option<StdStream>,
        port: u16, // local port = peer port seen by the server
        listener: usize,
        accepted: bool,
        index: Option<usize>, // index among the model's connections
        panicked: bool,
        closed: bool,
    }

    pub struct Params {
        pub fix_a: bool,
        pub fix_a2: bool,
        pub fix_b: bool,
        pub fix_c: bool,
        pub nl: usize,
        pub nc: usize,
        pub nh: usize,
        pub nw: usize,
    }

    enum HSt {
        New,
        Reg(std::sync::mpsc::Receiver<tokio::sync::mpsc::UnboundedSender<()>>),
        Sig(tokio::sync::mpsc::UnboundedSender<()>),
        Acked,
    }

    struct Run {
        p: Params,
        ctl: Arc<Ctl>,
        rt: tokio::runtime::Runtime,
        mgr: Option<Arc<shutdown::Manager>>, // None while `execute()` has not returned (start-up replay)
        boot_rx: Option<std::sync::mpsc::Receiver<Arc<shutdown::Manager>>>,
        bk: usize,  // start-up: listeners started
        bph: u8,    // start-up: what execute() does next for listener bk (0 count, 1 bind + listen, 2 spawn)
        boot_shape: bool, // start-up: execute() reached the first point of the start-up program
        ports: Vec<u16>,
        lst: Vec<LSt>,
        clients: Vec<Client>,
        queues: Vec<Vec<usize>>, // per listener: clients connected and not yet accepted
        conn_order: Vec<usize>,  // model connection index -> client
        hooks: Vec<HSt>,
        waiters: Vec<Arc<AtomicBool>>,
        w_seen: Vec<bool>,
        caller_threads: Vec<std::thread::JoinHandle<()>>,
    }

    fn lpc_of(name: &str, fix_a: bool) -> u128 {
        match name {
            "al.top" | "ap.poll" => 0,
            "ap.flag" => 1,
            "ap.waker" => 2,
            "ap.checked" => 3,
            "al.got" => 5,
            "al.counted" => 6,
            "al.shut" => 7,
            "al.exit" => if fix_a { 8 } else { 11 },
            "rm.enter" => 8,
            "rm.dec" => 9,
            "rm.flag" => 10,
            "rm.exit" => 11,
            _ => 99,
        }
    }
    fn cpc_of(name: &str) -> u128 {
        match name {
            "co.start" => 0,
            "co.counted" | "hd.run" => 1,
            "rm.enter" => 3,
            "rm.dec" => 4,
            "rm.flag" => 5,
            "rm.exit" => 6,
            _ => 99,
        }
    }
    fn spc_of(name: &str) -> u128 {
        match name {
            "sh.enter" => 0,
            "sh.set" => 1,
            "sh.init" => 2,
            "sh.swap" => 3,
            "sh.notify" => 4,
            "sh.exit" => 5,
            _ => 99,
        }
    }
    fn kpc_of(name: &str) -> u128 {
        match name {
            "ct.start" => 1,
            "ct.sent" => 2,
            "ct.loop" => 3,
            "ct.exit" => 4,
            _ => 99,
        }
    }

    impl Run {
        fn prepare(nl: usize) -> Option<(Arc<Ctl>, tokio::runtime::Runtime, Vec<u16>)> {
            let ctl = Ctl::new();
            let rt = tokio::runtime::Builder::new_multi_thread().worker_threads(4).max_blocking_threads(64).thread_name(ctl.thread_name.clone()).enable_all().build().ok()?;
            let mut ports = Vec::new();
            for _ in 0..nl {
                let mut port = next_port();
                let mut tries = 0;
                while !port_is_free(port) || ports.contains(&port) {
                    port = next_port();
                    tries += 1;
                    if tries > 60 {
                        return None;
                    }
                }
                ports.push(port);
            }
            let c2 = Arc::clone(&ctl);
            kvarn::verif::set_hook(Some(Arc::new(move |name, val| c2.arrive(name, val))));
            Some((ctl, rt, ports))
        }
        /// the server under test: one host whose every request is answered by the scheduled handler
        async fn serve(c3: Arc<Ctl>, ports2: Vec<u16>) -> Arc<shutdown::Manager> {
            {
                let mut ext = Extensions::empty();
                let c4 = Arc::clone(&c3);
                ext.add_prepare_fn(
                    Box::new(|_, _| true),
                    prepare!(_req, _host, _path, addr, move |c4: Arc<Ctl>| {
                        let port = addr.port();
                        c4.arrive("hd.run", i64::from(port));
                        let panic = c4.inner.lock().unwrap().verdict_panic.get(&port).copied().unwrap_or(false);
                        if panic {
                            panic!("handler panics (scheduled)");
                        }
                        FatResponse::no_cache(Response::new(Bytes::from_static(b"served")))
                    }),
                    extensions::Id::new(0, "c10 handler"),
                );
                let mut host = Host::unsecure("localhost", "/nonexistent/kvh-c10", ext, host::Options::default());
                host.disable_fs_cache().disable_response_cache();
                host.limiter.disable();
                let data = HostCollection::builder().insert(host).build();
                let mut rc = RunConfig::new();
                for port in &ports2 {
                    rc = rc.bind(PortDescriptor::unsecure(*port, Arc::clone(&data)).ipv4_only());
                }
                rc.disable_ctl().execute().await
            }
        }
        fn start(p: Params) -> Option<Run> {
            let (ctl, rt, ports) = Self::prepare(p.nl)?;
            let mgr = rt.block_on(Self::serve(Arc::clone(&ctl), ports.clone()));
            let mut run = Run {
                lst: vec![LSt::Running; p.nl],
                queues: vec![Vec::new(); p.nl],
                hooks: (0..p.nh).map(|_| HSt::New).collect(),
                waiters: Vec::new(),
                w_seen: vec![false; p.nw],
                caller_threads: Vec::new(),
                clients: Vec::new(),
                conn_order: Vec::new(),
                p,
                ctl,
                rt,
                mgr: Some(mgr),
                boot_rx: None,
                bk: 0,
                bph: 0,
                boot_shape: true,
                ports,
            };
            run.bk = run.p.nl;
            // listeners reach the top of their loop
            for port in run.ports.clone() {
                run.ctl.at(Role::Listener(port), step_timeout())?;
            }
            run.after_boot()?;
            Some(run)
        }
        /// `execute()` runs on a thread of its own that stops at the points of the start-up program; it has passed the
        /// first listener's count (there is no point before it) and waits before creating the first socket
        fn start_boot(p: Params) -> Option<Run> {
            let (ctl, rt, ports) = Self::prepare(p.nl)?;
            let (tx, rx) = std::sync::mpsc::channel();
            let (c3, ports2, handle) = (Arc::clone(&ctl), ports.clone(), rt.handle().clone());
            std::thread::Builder::new().name(ctl.thread_name.clone()).spawn(move || {
                let me = hash_id(&std::thread::current().id());
                c3.inner.lock().unwrap().exec_os = Some(me);
                let mgr = handle.block_on(Self::serve(Arc::clone(&c3), ports2));
                let _ = tx.send(mgr);
            }).ok()?;
            let mut run = Run {
                lst: vec![LSt::Running; p.nl],
                queues: vec![Vec::new(); p.nl],
                hooks: (0..p.nh).map(|_| HSt::New).collect(),
                waiters: Vec::new(),
                w_seen: vec![false; p.nw],
                caller_threads: Vec::new(),
                clients: Vec::new(),
                conn_order: Vec::new(),
                p,
                ctl,
                rt,
                mgr: None,
                boot_rx: Some(rx),
                bk: 0,
                bph: 0,
                boot_shape: true,
                ports,
            };
            let ok = if run.p.nl == 0 {
                run.boot_returned(0).is_ok()
            } else {
                matches!(run.ctl.at(Role::Exec, step_timeout()), Some(("ex.bind", v)) if v == i64::from(run.ports[0]))
            };
            if !ok {
                // execute() does not come to the first point of the start-up program: not the program of the model
                run.boot_shape = false;
            }
            Some(run)
        }
        fn boot_returned(&mut self, step: usize) -> Result<(), Fail> {
            let rx = self.boot_rx.take().ok_or(Fail::Bad)?;
            match rx.recv_timeout(step_timeout()) {
                Ok(m) => {
                    self.mgr = Some(m);
                    Ok(())
                }
                Err(_) => Err(Fail::Stalled(step)),
            }
        }
        fn booting(&self) -> bool {
            self.mgr.is_none()
        }
        /// one action of `execute()` (see Model/ShutdownBoot.v)
        fn boot_exec(&mut self, step: usize) -> Result<(), Fail> {
            if self.bk >= self.p.nl {
                return Err(Fail::Bad);
            }
            let port = i64::from(self.ports[self.bk]);
            match self.bph {
                0 => {
                    // the count is taken on the way to the point before the socket is created: nothing to release
                    match self.ctl.at(Role::Exec, step_timeout()) {
                        Some(("ex.bind", v)) if v == port => {
                            self.bph = 1;
                            Ok(())
                        }
                        _ => Err(Fail::Stalled(step)),
                    }
                }
                1 => match self.advance(Role::Exec, step)? {
                    ("ex.bound", v) if v == port => {
                        self.bph = 2;
                        Ok(())
                    }
                    _ => Err(Fail::Stalled(step)),
                },
                _ => {
                    if !self.ctl.release(Role::Exec) {
                        return Err(Fail::Bad);
                    }
                    // the accept task appears at the top of its loop ...
                    self.ctl.at(Role::Listener(self.ports[self.bk]), step_timeout()).ok_or(Fail::Stalled(step))?;
                    self.bk += 1;
                    self.bph = 0;
                    // ... and execute() goes on to the next listener (taking its count on the way) or returns
                    if self.bk < self.p.nl {
                        match self.ctl.at(Role::Exec, step_timeout()) {
                            Some(("ex.bind", v)) if v == i64::from(self.ports[self.bk]) => Ok(()),
                            _ => Err(Fail::Stalled(step)),
                        }
                    } else {
                        self.boot_returned(step)
                    }
                }
            }
        }
        fn bexec(&mut self, lb: (u8, usize), step: usize) -> Result<(), Fail> {
            match lb.0 {
                9 => self.boot_exec(step),
                10 => {
                    if self.bk >= self.p.nl || self.bph != 2 {
                        return Err(Fail::Bad);
                    }
                    self.env_conn(self.bk, step)
                }
                0..=2 => {
                    if lb.1 >= self.bk {
                        return Err(Fail::Bad);
                    }
                    self.exec(lb, step)
                }
                3 | 4 => self.exec(lb, step),
                _ => Err(Fail::Bad),
            }
        }
        /// what can be seen while execute() has not returned: no handle on the manager yet
        fn bobs(&self) -> X {
            let (l, c) = self.pcs(self.bk);
            X::L(vec![X::N(u128::from(self.bph)), X::N(self.bk as u128), X::L(l), X::L(c)])
        }
        /// the threads that get the manager when execute() has returned
        fn after_boot(&mut self) -> Option<()> {
            let run = self;
            let mgr0 = Arc::clone(run.mgr.as_ref()?);
            // callers block before their first access
            for k in 0..run.p.nc {
                let ctl = Arc::clone(&run.ctl);
                let mgr = Arc::clone(&mgr0);
                let handle = run.rt.handle().clone();
                let (tx, rx) = std::sync::mpsc::channel();
                let name = run.ctl.thread_name.clone();
                run.caller_threads.push(std::thread::Builder::new().name(name).spawn(move || {
                    let _enter = handle.enter();
                    let me = hash_id(&std::thread::current().id());
                    ctl.inner.lock().unwrap().caller_reg.insert(me, k);
                    let _ = tx.send(());
                    mgr.shutdown();
                }).ok()?);
                let _ = rx.recv_timeout(step_timeout());
                run.ctl.at(Role::Caller(k), step_timeout())?;
            }
            for _ in 0..run.p.nw {
                let flag = Arc::new(AtomicBool::new(false));
                let f2 = Arc::clone(&flag);
                let mgr = Arc::clone(&mgr0);
                run.rt.spawn(async move {
                    mgr.wait().await;
                    f2.store(true, Ordering::SeqCst);
                });
                run.waiters.push(flag);
            }
            Some(())
        }

        fn flag(&self) -> bool {
            self.mgr.as_ref().map(|m| m.get_shutdown(std::sync::atomic::Ordering::SeqCst)).unwrap_or(false)
        }

        /// program counters of the first `nl` accept loops and of the connection tasks
        fn pcs(&self, nl: usize) -> (Vec<X>, Vec<X>) {
            let mut l = Vec::new();
            for (i, port) in self.ports.iter().enumerate().take(nl) {
                let pc = if self.lst[i] == LSt::Parked {
                    4
                } else {
                    match self.ctl.peek(Role::Listener(*port)).or(self.ctl.last(Role::Listener(*port))) {
                        Some((n, _)) => lpc_of(n, self.p.fix_a),
                        None => 98,
                    }
                };
                l.push(X::N(pc));
            }
            let mut c = Vec::new();
            for ci in &self.conn_order {
                let cl = &self.clients[*ci];
                let pc = if cl.panicked && !self.p.fix_b {
                    2
                } else {
                    match self.ctl.peek(Role::Conn(cl.port)).or(self.ctl.last(Role::Conn(cl.port))) {
                        Some((n, _)) => cpc_of(n),
                        None => 98,
                    }
                };
                c.push(X::N(pc));
            }
            (l, c)
        }
        fn obs(&self) -> X {
            let (l, c) = self.pcs(self.ports.len());
            let mgr = match self.mgr.as_ref() { Some(m) => m, None => return X::L(vec![X::N(97)]) };
            let mut s = Vec::new();
            for k in 0..self.p.nc {
                s.push(X::N(match self.ctl.peek(Role::Caller(k)).or(self.ctl.last(Role::Caller(k))) {
                    Some((n, _)) => spc_of(n),
                    None => 98,
                }));
            }
            let k = if self.ctl.known(Role::Comp) {
                match self.ctl.peek(Role::Comp).or(self.ctl.last(Role::Comp)) { Some((n, _)) => kpc_of(n), None => 98 }
            } else {
                0
            };
            let h = self.hooks.iter().map(|h| X::N(match h { HSt::New => 0, HSt::Reg(_) => 1, HSt::Sig(_) => 2, HSt::Acked => 3 })).collect();
            let w = self.w_seen.iter().map(|w| X::bool(*w)).collect();
            X::L(vec![
                X::bool(self.flag()),
                X::z(mgr.get_connecions() as i128),
                X::bool(finished_now(mgr)),
                X::L(l),
                X::L(c),
                X::L(s),
                X::N(k),
                X::L(h),
                X::L(w),
            ])
        }

        /// release `role` and wait for its next arrival
        fn advance(&self, role: Role, step: usize) -> Result<(&'static str, i64), Fail> {
            if !self.ctl.release(role) {
                return Err(Fail::Bad);
            }
            self.ctl.at(role, step_timeout()).ok_or(Fail::Stalled(step))
        }
        fn comp_appears(&self, step: usize) -> Result<(), Fail> {
            if !self.ctl.known(Role::Comp) {
                // the first swap spawns the completion task
                self.ctl.at(Role::Comp, step_timeout()).ok_or(Fail::Stalled(step))?;
            }
            Ok(())
        }
        /// the remover part shared by listeners (repaired) and connection tasks
        fn remover_step(&self, role: Role, at: &str, step: usize) -> Result<(), Fail> {
            self.advance(role, step)?;
            if at == "rm.flag" {
                self.comp_appears(step)?;
            }
            Ok(())
        }

        /// the listener holds a stream: which client is it?
        fn note_accepted(&mut self, i: usize, peer: i64) {
            if let Some(pos) = self.queues[i].iter().position(|c| i64::from(self.clients[*c].port) == peer) {
                let c = self.queues[i].remove(pos);
                self.clients[c].accepted = true;
            }
        }
        fn held_client(&self, i: usize) -> Option<usize> {
            let port = self.ports[i];
            let peer = match self.ctl.peek(Role::Listener(port)).or(self.ctl.last(Role::Listener(port))) {
                Some(("al.got", v)) | Some(("al.counted", v)) => v,
                _ => return None,
            };
            self.clients.iter().position(|c| i64::from(c.port) == peer)
        }

        fn listener_take(&mut self, i: usize, step: usize) -> Result<(), Fail> {
            let role = Role::Listener(self.ports[i]);
            if self.queues[i].is_empty() {
                return Err(Fail::Bad);
            }
            let mut cur = if self.lst[i] == LSt::Parked { None } else { self.ctl.peek(role) };
            if self.lst[i] == LSt::Parked {
                return Err(Fail::Bad);
            }
            match cur {
                Some(("al.top", _)) | Some(("ap.poll", _)) | Some(("ap.checked", _)) => {}
                Some(("ap.waker", _)) if !self.p.fix_c => {}
                _ => return Err(Fail::Bad),
            }
            if self.flag() {
                // Both branches of the select! will be ready. The accept branch is only ready once the reactor has
                // delivered the readiness of the listening socket: give it a moment (a failed guess costs a re-run).
                std::thread::sleep(Duration::from_millis(15));
            }
            let mut guard = 0;
            loop {
                guard += 1;
                if guard > 12 {
                    return Err(Fail::Stalled(step));
                }
                match cur {
                    Some(("al.got", peer)) => {
                        self.note_accepted(i, peer);
                        return Ok(());
                    }
                    Some(("ap.poll", _)) | Some(("ap.flag", _)) if guard > 1 && self.flag() => return Err(Fail::Diverged),
                    Some(("al.shut", _)) => return Err(Fail::Diverged),
                    Some(_) => {
                        cur = Some(self.advance(role, step)?);
                    }
                    None => {
                        // in flight (re-polled after a wake): wait for it
                        cur = Some(self.ctl.at(role, step_timeout()).ok_or(Fail::Stalled(step))?);
                    }
                }
            }
        }

        fn listener_step(&mut self, i: usize, step: usize) -> Result<(), Fail> {
            let port = self.ports[i];
            let role = Role::Listener(port);
            if self.lst[i] == LSt::Parked {
                // wake-up: by notify or by a queued connection
                let a = self.ctl.at(role, step_timeout()).ok_or(Fail::Stalled(step))?;
                self.lst[i] = LSt::Running;
                return match a.0 {
                    "ap.poll" => Ok(()),
                    // woken by the reactor and the accept branch was polled first
                    "al.got" => Err(Fail::Diverged),
                    _ => Err(Fail::Stalled(step)),
                };
            }
            let at = self.ctl.peek(role).ok_or(Fail::Bad)?;
            match at.0 {
                "al.top" => {
                    let a = self.advance(role, step)?;
                    match a.0 {
                        "ap.poll" => {
                            let b = self.advance(role, step)?;
                            match b.0 { "ap.flag" | "al.shut" => Ok(()), _ => Err(Fail::Stalled(step)) }
                        }
                        "al.got" => Err(Fail::Diverged),
                        _ => Err(Fail::Stalled(step)),
                    }
                }
                "ap.poll" => {
                    let b = self.advance(role, step)?;
                    match b.0 { "ap.flag" | "al.shut" => Ok(()), "al.got" => Err(Fail::Diverged), _ => Err(Fail::Stalled(step)) }
                }
                "ap.flag" => self.advance(role, step).map(|_| ()),
                "ap.waker" if self.p.fix_c => {
                    let b = self.advance(role, step)?;
                    match b.0 { "ap.checked" | "al.shut" => Ok(()), _ => Err(Fail::Stalled(step)) }
                }
                "ap.waker" | "ap.checked" => {
                    // park: both branches Pending
                    if !self.queues[i].is_empty() {
                        return Err(Fail::Bad);
                    }
                    if !self.ctl.release(role) {
                        return Err(Fail::Bad);
                    }
                    self.lst[i] = LSt::Parked;
                    std::thread::sleep(Duration::from_millis(3));
                    Ok(())
                }
                "al.got" => {
                    let held = self.held_client(i);
                    let a = self.advance(role, step)?;
                    if self.p.fix_a2 {
                        if a.0 != "al.counted" { return Err(Fail::Stalled(step)); }
                        Ok(())
                    } else {
                        if a.0 == "al.counted" {
                            // a point without effect in this code shape
                            self.advance(role, step)?;
                        }
                        self.spawned(held, step)
                    }
                }
                "al.counted" => {
                    let held = self.held_client(i);
                    self.advance(role, step)?;
                    self.spawned(held, step)
                }
                "al.shut" => {
                    let a = self.advance(role, step)?;
                    if self.p.fix_a && a.0 == "al.exit" {
                        self.advance(role, step)?;
                    }
                    Ok(())
                }
                "rm.enter" | "rm.dec" | "rm.flag" => self.remover_step(role, at.0, step),
                _ => Err(Fail::Bad),
            }
        }
        /// the accept loop has spawned the task of `held`: it becomes the model's next connection
        fn spawned(&mut self, held: Option<usize>, step: usize) -> Result<(), Fail> {
            let c = held.ok_or(Fail::Stalled(step))?;
            self.clients[c].index = Some(self.conn_order.len());
            self.conn_order.push(c);
            let role = Role::Conn(self.clients[c].port);
            let a = self.ctl.at(role, step_timeout()).ok_or(Fail::Stalled(step))?;
            if self.p.fix_a2 && a.0 == "co.start" {
                // repaired shape: the task is counted already; run it up to the handler
                self.to_handler(c, step)?;
            }
            Ok(())
        }
        fn to_handler(&mut self, c: usize, step: usize) -> Result<(), Fail> {
            let role = Role::Conn(self.clients[c].port);
            for _ in 0..4 {
                match self.ctl.at(role, step_timeout()).ok_or(Fail::Stalled(step))?.0 {
                    "hd.run" => return Ok(()),
                    "co.start" | "co.counted" => {
                        self.ctl.release(role);
                        // wait until it has left the point
                        let t0 = Instant::now();
                        while self.ctl.peek(role).map(|p| p.0 == "co.start" || p.0 == "co.counted").unwrap_or(false) && t0.elapsed() < Duration::from_millis(50) {
                            std::thread::yield_now();
                        }
                    }
                    _ => return Err(Fail::Stalled(step)),
                }
            }
            Err(Fail::Stalled(step))
        }
        fn read_response(stream: &mut StdStream) -> bool {
            let _ = stream.set_read_timeout(Some(Duration::from_secs(5)));
            let mut buf = Vec::new();
            let mut tmp = [0u8; 2048];
            loop {
                if let Some(p) = buf.windows(4).position(|w| w == b"\r\n\r\n") {
                    let head = String::from_utf8_lossy(&buf[..p]).to_ascii_lowercase();
                    let len: usize = head.lines().find_map(|l| l.strip_prefix("content-length:").map(|v| v.trim().parse().unwrap_or(0))).unwrap_or(0);
                    if buf.len() >= p + 4 + len {
                        return true;
                    }
                }
                match stream.read(&mut tmp) {
                    Ok(0) | Err(_) => return false,
                    Ok(n) => buf.extend_from_slice(&tmp[..n]),
                }
            }
        }
        fn conn_step(&mut self, ci: usize, panic: bool, step: usize) -> Result<(), Fail> {
            let c = *self.conn_order.get(ci).ok_or(Fail::Bad)?;
            let port = self.clients[c].port;
            let role = Role::Conn(port);
            let at = self.ctl.at(role, step_timeout()).ok_or(Fail::Stalled(step))?;
            match at.0 {
                "co.start" if !panic => {
                    // today's shape: add_connection inside the task
                    let a = self.advance(role, step)?;
                    if a.0 == "co.counted" {
                        self.to_handler(c, step)?;
                    }
                    Ok(())
                }
                "co.counted" | "hd.run" => {
                    self.to_handler(c, step)?;
                    self.ctl.inner.lock().unwrap().verdict_panic.insert(port, panic);
                    if !self.ctl.release(role) {
                        return Err(Fail::Bad);
                    }
                    let mut stream = self.clients[c].stream.take();
                    if panic {
                        self.clients[c].panicked = true;
                        if let Some(s) = stream.as_mut() {
                            let _ = Self::read_response(s); // ends with EOF / reset when the task has unwound
                        }
                        self.clients[c].closed = true;
                        drop(stream);
                        if self.p.fix_b {
                            self.ctl.at(role, step_timeout()).ok_or(Fail::Stalled(step))?;
                        } else {
                            std::thread::sleep(Duration::from_millis(5));
                        }
                        Ok(())
                    } else {
                        let ok = stream.as_mut().map(Self::read_response).unwrap_or(false);
                        self.clients[c].closed = true;
                        drop(stream); // the keep-alive loop of handle_connection ends
                        if !ok {
                            return Err(Fail::Stalled(step));
                        }
                        let a = self.ctl.at(role, step_timeout()).ok_or(Fail::Stalled(step))?;
                        if a.0 != "rm.enter" { return Err(Fail::Stalled(step)); }
                        Ok(())
                    }
                }
                "rm.enter" | "rm.dec" | "rm.flag" if !panic => self.remover_step(role, at.0, step),
                _ => Err(Fail::Bad),
            }
        }
        fn caller_step(&mut self, k: usize, step: usize) -> Result<(), Fail> {
            let role = Role::Caller(k);
            let at = self.ctl.peek(role).ok_or(Fail::Bad)?;
            if at.0 == "sh.exit" {
                return Err(Fail::Bad);
            }
            self.advance(role, step)?;
            if at.0 == "sh.swap" {
                self.comp_appears(step)?;
            }
            Ok(())
        }
        fn comp_step(&mut self, step: usize) -> Result<(), Fail> {
            let role = Role::Comp;
            let at = self.ctl.peek(role).ok_or(Fail::Bad)?;
            if at.0 == "ct.exit" {
                return Err(Fail::Bad);
            }
            self.advance(role, step).map(|_| ())
        }
        fn hook_step(&mut self, h: usize, step: usize) -> Result<(), Fail> {
            let st = std::mem::replace(self.hooks.get_mut(h).ok_or(Fail::Bad)?, HSt::Acked);
            let (new, r) = match st {
                HSt::New => {
                    let mgr0 = match self.mgr.as_ref() { Some(m) => Arc::clone(m), None => { self.hooks[h] = HSt::New; return Err(Fail::Bad) } };
                    let mgr_ref: &'static shutdown::Manager = unsafe { &*Arc::as_ptr(&mgr0) }; // kept alive by the Arc moved into the task
                    let fut = mgr_ref.wait_for_pre_shutdown(); // registers synchronously
                    let (tx, rx) = std::sync::mpsc::channel();
                    // SAFETY of the borrow: the manager lives in an Arc kept by the task
                    let mgr = mgr0;
                    let fut: Pin<Box<dyn Future<Output = tokio::sync::mpsc::UnboundedSender<()>> + Send + 'static>> = Box::pin(fut);
                    self.rt.spawn(async move {
                        let s = fut.await;
                        let _ = tx.send(s);
                        drop(mgr);
                    });
                    (HSt::Reg(rx), Ok(()))
                }
                HSt::Reg(rx) => match rx.recv_timeout(step_timeout()) {
                    Ok(s) => (HSt::Sig(s), Ok(())),
                    Err(_) => (HSt::Reg(rx), Err(Fail::Stalled(step))),
                },
                HSt::Sig(s) => {
                    let _ = s.send(());
                    (HSt::Acked, Ok(()))
                }
                HSt::Acked => (HSt::Acked, Err(Fail::Bad)),
            };
            self.hooks[h] = new;
            r
        }
        fn waiter_step(&mut self, w: usize, step: usize) -> Result<(), Fail> {
            let f = self.waiters.get(w).ok_or(Fail::Bad)?;
            let t0 = Instant::now();
            while !f.load(Ordering::SeqCst) {
                if t0.elapsed() > step_timeout() {
                    return Err(Fail::Stalled(step));
                }
                std::thread::sleep(Duration::from_micros(200));
            }
            if self.w_seen[w] {
                return Err(Fail::Bad);
            }
            self.w_seen[w] = true;
            Ok(())
        }
        fn env_conn(&mut self, i: usize, step: usize) -> Result<(), Fail> {
            let port = *self.ports.get(i).ok_or(Fail::Bad)?;
            let addr = SocketAddr::new(IpAddr::V4(Ipv4Addr::LOCALHOST), port);
            let mut s = StdStream::connect_timeout(&addr, Duration::from_secs(3)).map_err(|_| Fail::Stalled(step))?;
            let _ = s.set_nodelay(true);
            s.write_all(b"GET /c HTTP/1.1\r\nhost: localhost\r\n\r\n").map_err(|_| Fail::Stalled(step))?;
            let lp = s.local_addr().map(|a| a.port()).unwrap_or(0);
            self.clients.push(Client { stream: Some(s), port: lp, listener: i, accepted: false, index: None, panicked: false, closed: false });
            self.queues[i].push(self.clients.len() - 1);
            Ok(())
        }

        fn exec(&mut self, lb: (u8, usize), step: usize) -> Result<(), Fail> {
            match lb.0 {
                0 => { if lb.1 >= self.p.nl { return Err(Fail::Bad); } self.listener_step(lb.1, step) }
                1 => { if lb.1 >= self.p.nl { return Err(Fail::Bad); } self.listener_take(lb.1, step) }
                2 => self.env_conn(lb.1, step),
                3 => self.conn_step(lb.1, false, step),
                4 => self.conn_step(lb.1, true, step),
                5 => { if lb.1 >= self.p.nc { return Err(Fail::Bad); } self.caller_step(lb.1, step) }
                6 => self.comp_step(step),
                7 => self.hook_step(lb.1, step),
                8 => self.waiter_step(lb.1, step),
                _ => Err(Fail::Bad),
            }
        }

        /// every thread runs on freely; what is the outcome?
        fn finish(mut self) -> X {
            self.ctl.set_free();
            let requested_soon = self.p.nc > 0; // every caller thread runs shutdown() to its end now
            // clients: read the answer (if any) and close
            let mut handles = Vec::new();
            for c in self.clients.iter_mut() {
                if let Some(mut s) = c.stream.take() {
                    handles.push(std::thread::spawn(move || {
                        let _ = Run::read_response(&mut s);
                    }));
                }
            }
            // hooks: register what is new, acknowledge every signal
            for h in 0..self.hooks.len() {
                if matches!(self.hooks[h], HSt::New) {
                    let _ = self.hook_step(h, 0);
                }
            }
            let deadline = Instant::now() + if requested_soon { Duration::from_secs(5) } else { Duration::from_millis(300) };
            loop {
                let mut all = true;
                for h in 0..self.hooks.len() {
                    let st = std::mem::replace(&mut self.hooks[h], HSt::Acked);
                    self.hooks[h] = match st {
                        HSt::Reg(rx) => match rx.try_recv() {
                            Ok(s) => { let _ = s.send(()); HSt::Acked }
                            Err(_) => { all = false; HSt::Reg(rx) }
                        },
                        HSt::Sig(s) => { let _ = s.send(()); HSt::Acked }
                        o => o,
                    };
                }
                let fin = self.mgr.as_ref().map(|m| finished_now(m)).unwrap_or(false);
                let waiters = self.waiters.iter().all(|w| w.load(Ordering::SeqCst));
                let conns = self.conns_over();
                if (all && fin && waiters && conns) || Instant::now() > deadline {
                    break;
                }
                std::thread::sleep(Duration::from_millis(2));
            }
            for h in handles {
                let _ = h.join();
            }
            // listeners that stop pass "al.exit" (recorded also in free run); the probe itself is a
            // connection, so every port is probed exactly once, after the listeners had their time
            let t0 = Instant::now();
            let limit = if requested_soon { Duration::from_secs(3) } else { Duration::from_millis(50) };
            loop {
                let exited = self.ports.iter().all(|p| {
                    matches!(self.ctl.last(Role::Listener(*p)), Some(("al.exit", _)) | Some(("rm.enter", _)) | Some(("rm.dec", _)) | Some(("rm.flag", _)) | Some(("rm.exit", _)))
                });
                if exited || t0.elapsed() > limit {
                    break;
                }
                std::thread::sleep(Duration::from_millis(2));
            }
            let closed = self.ports.iter().map(|p| port_is_free(*p)).fold(true, |a, b| a && b);
            let fin = self.mgr.as_ref().map(|m| finished_now(m)).unwrap_or(false);
            let out = X::L(vec![
                X::bool(fin),
                X::bool(closed),
                X::bool(self.conns_over()),
                X::bool(self.hooks.iter().all(|h| matches!(h, HSt::Acked))),
                X::bool(self.waiters.iter().all(|w| w.load(Ordering::SeqCst))),
            ]);
            kvarn::verif::set_hook(None);
            for t in self.caller_threads.drain(..) {
                let _ = t.join();
            }
            self.rt.shutdown_timeout(Duration::from_millis(200));
            out
        }
        fn conns_over(&self) -> bool {
            self.conn_order.iter().all(|c| {
                let cl = &self.clients[*c];
                cl.panicked && !self.p.fix_b || matches!(self.ctl.last(Role::Conn(cl.port)), Some(("rm.exit", _)))
            })
        }
        fn abort(self) {
            self.ctl.set_free();
            kvarn::verif::set_hook(None);
            drop(self.clients);
            self.rt.shutdown_timeout(Duration::from_millis(200));
        }
    }

    /// `boot`: None = the schedule starts when `execute()` has returned (the model's `init`);
    /// Some(labels) = a start-up schedule first (Model/ShutdownBoot.v), the output then has the start-up observations in front
    pub fn replay(p: impl Fn() -> Params, boot: Option<&[(u8, usize)]>, sched: &[(u8, usize)]) -> X {
        let mut stalled_before = false;
        let retry_stall = |stalled_before: &mut bool, at: usize| -> bool {
            // An expected arrival did not happen in time. If the code really does something else it
            // will do so again; a machine that is overloaded for seconds will (hopefully) not: run once more.
            if !*stalled_before && STALLS_RETRIED.fetch_add(1, Ordering::Relaxed) < STALL_RETRY_BUDGET {
                if debug() { eprintln!("stalled at {at}: once more"); }
                *stalled_before = true;
                true
            } else {
                STALLS_REPORTED.fetch_add(1, Ordering::Relaxed);
                false
            }
        };
        'attempt: for _attempt in 0..ATTEMPTS {
            let started = if boot.is_some() { Run::start_boot(p()) } else { Run::start(p()) };
            let mut run = match started { Some(r) => r, None => { if debug() { eprintln!("start failed"); } continue } };
            let mut out = Vec::new();
            if let Some(bsched) = boot {
                let mut bobs = Vec::new();
                let mut fail = if run.boot_shape { None } else { Some(Fail::Stalled(0)) };
                for (n, lb) in bsched.iter().enumerate() {
                    if fail.is_some() {
                        break;
                    }
                    match run.bexec(*lb, n) {
                        Ok(()) => bobs.push(run.bobs()),
                        Err(f) => {
                            fail = Some(f);
                            break;
                        }
                    }
                }
                if run.ctl.unscheduled() > 0 {
                    bobs.push(X::L(vec![X::N(79)]));
                }
                let marker = match fail {
                    None => None,
                    Some(Fail::Diverged) => {
                        if debug() { eprintln!("diverged in start-up at {}", bobs.len()); }
                        run.abort();
                        continue 'attempt;
                    }
                    Some(Fail::Bad) => Some(77),
                    Some(Fail::Stalled(_)) => {
                        if retry_stall(&mut stalled_before, bobs.len()) {
                            run.abort();
                            continue 'attempt;
                        }
                        Some(78)
                    }
                };
                if let Some(m) = marker {
                    bobs.push(X::L(vec![X::N(m)]));
                }
                if marker.is_some() || run.booting() {
                    // not a start-up that ends with execute() returning the manager: nothing follows
                    run.abort();
                    return X::L(vec![X::L(bobs), X::L(vec![]), X::L(vec![])]);
                }
                if run.after_boot().is_none() {
                    run.abort();
                    continue 'attempt;
                }
                out.push(X::L(bobs));
            }
            let mut obs = Vec::new();
            let mut fail = None;
            for (n, lb) in sched.iter().enumerate() {
                match run.exec(*lb, n) {
                    Ok(()) => obs.push(run.obs()),
                    Err(f) => {
                        fail = Some(f);
                        break;
                    }
                }
            }
            // accesses to the manager by a thread that is none of the model's threads: not a run of the model
            let stray = run.ctl.unscheduled();
            if stray > 0 {
                if debug() { eprintln!("{stray} unscheduled arrivals"); }
                obs.push(X::L(vec![X::N(79)]));
            }
            match fail {
                None => {
                    let fin = run.finish();
                    out.push(X::L(obs));
                    out.push(fin);
                    return X::L(out);
                }
                Some(Fail::Diverged) => {
                    if debug() { eprintln!("diverged at {}", obs.len()); }
                    run.abort();
                    continue;
                }
                Some(Fail::Bad) => {
                    obs.push(X::L(vec![X::N(77)]));
                    run.abort();
                    out.push(X::L(obs));
                    out.push(X::L(vec![]));
                    return X::L(out);
                }
                Some(Fail::Stalled(_)) => {
                    if retry_stall(&mut stalled_before, obs.len()) {
                        run.abort();
                        continue;
                    }
                    // the code did not do what the schedule expects of it: report what was seen and the outcome
                    obs.push(X::L(vec![X::N(78)]));
                    let fin = run.finish();
                    out.push(X::L(obs));
                    out.push(fin);
                    return X::L(out);
                }
            }
        }
        X::L(vec![X::N(96), X::N(1)])
    }
}

#[cfg(feature = "hooks")]
fn parse_sched(x: &X, max_kind: u128) -> Option<Vec<(u8, usize)>> {
    let mut sched = Vec::new();
    for e in x.as_l()? {
        match e.as_l() {
            Some([X::N(c), X::N(a)]) if *c <= max_kind => sched.push((*c as u8, *a as usize)),
            _ => return None,
        }
    }
    Some(sched)
}
#[cfg(feature = "hooks")]
fn parse_counts(x: &X) -> Option<(usize, usize, usize, usize)> {
    match x.as_l() {
        Some([X::N(a), X::N(b), X::N(c), X::N(d)]) if *a <= 16 && *b <= 16 && *c <= 16 && *d <= 16 => Some((*a as usize, *b as usize, *c as usize, *d as usize)),
        _ => None,
    }
}
#[cfg(feature = "hooks")]
pub fn replay(x: &X) -> X {
    let l = match x.as_l() { Some(l) if l.len() == 3 => l, _ => return X::bad() };
    // (fixA fixB fixC) or (fixA fixB fixC count-before-spawn): the fourth flag splits fixA for the directed search
    let v = match l[0].as_l() {
        Some([a, b, c]) => match (a.as_bool(), b.as_bool(), c.as_bool()) { (Some(a), Some(b), Some(c)) => (a, b, c, a), _ => return X::bad() },
        Some([a, b, c, d]) => match (a.as_bool(), b.as_bool(), c.as_bool(), d.as_bool()) { (Some(a), Some(b), Some(c), Some(d)) => (a, b, c, d), _ => return X::bad() },
        _ => return X::bad(),
    };
    let n = match parse_counts(&l[1]) { Some(n) => n, None => return X::bad() };
    let sched = match parse_sched(&l[2], 8) { Some(s) => s, None => return X::bad() };
    replay::replay(|| replay::Params { fix_a: v.0, fix_a2: v.3, fix_b: v.1, fix_c: v.2, nl: n.0, nc: n.1, nh: n.2, nw: n.3 }, None, &sched)
}
/// input (L (L nl nc nh nw) (L start-up label ...) (L label ...)); start-up labels: (9 0) execute's next action,
/// (10 0) a client connects to the bound, not yet spawned listener, (0..4 i) a thread that exists already
#[cfg(feature = "hooks")]
pub fn bootreplay(x: &X) -> X {
    let l = match x.as_l() { Some(l) if l.len() == 3 => l, _ => return X::bad() };
    let n = match parse_counts(&l[0]) { Some(n) => n, None => return X::bad() };
    let bsched = match parse_sched(&l[1], 10) { Some(s) if s.iter().all(|(k, _)| *k <= 4 || *k >= 9) => s, _ => return X::bad() };
    let sched = match parse_sched(&l[2], 8) { Some(s) => s, None => return X::bad() };
    replay::replay(|| replay::Params { fix_a: true, fix_a2: true, fix_b: true, fix_c: true, nl: n.0, nc: n.1, nh: n.2, nw: n.3 }, Some(&bsched), &sched)
}
#[cfg(not(feature = "hooks"))]
pub fn replay(_x: &X) -> X {
    X::L(vec![X::N(96), X::N(2)])
}
#[cfg(not(feature = "hooks"))]
pub fn bootreplay(_x: &X) -> X {
    X::L(vec![X::N(96), X::N(2)])
}

pub fn dispatch(comp: &str, x: &X) -> Option<X> {
    Some(match comp {
        "shutdown.methods" => methods(x),
        "shutdown.replay" => replay(x),
        "shutdown.bootreplay" => bootreplay(x),
        _ => return None,
    })
}
