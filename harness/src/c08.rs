//! C08: response framing on persistent connections.
//!
//! `h1w.conn`: a history of requests on ONE loopback connection handled by the public
//! `kvarn::handle_connection` (or, with cfg key `server`, by a `RunConfig::execute` server on a loopback
//! port).  A raw HTTP/1.1 client sends each request after the previous response was read (the client's own
//! lenient framing only paces the requests); **every byte received** is returned, to be parsed by the
//! extracted Coq `parse_responses`.
//! `h1w.print`: `kvarn_async::write::response` called directly.
//!
//! scenario = (L cfg (L req...)); cfg as in c00pipe::build_host plus
//!   files   (L (L "public/<name>" content)...)   readers (L (L path (N limit))...)   limit (N max_requests)
//!   server  (N 0|1)                                wait_close (N ms)
//!   streams (L (L path (N kind) (N announced) (L chunk...))...)   handlers whose reply carries a future:
//!            kind 0 = `kvarn::extensions::stream_body()` (the file public/<path>), kind 1 = `with_future` (no
//!            length; the future writes the chunks), kind 2 = `with_future_and_len(.., announced)`, kind 3 = `with_future`
//!            and a `content-length: announced` header set by the handler itself
//!   sndbuf  (N bytes) send buffer of the server's end of the connection (0 = the kernel's choice)
//!   retry   (N 0|1)   run the scenario again (fresh host, up to 3 attempts) when the client ran into a time-out
//! req      = (L method target (L (L name value)...) body (N early) (N flags))     flags bit 0: unknown Host,
//!            bit 1: shut down the client's write side after this request's bytes, bit 2: request line says
//!            HTTP/1.0, bits 8..23: write the head in pieces of that many bytes (0 = one write),
//!            bits 24..31: write the last k bytes of the head in a write of their own
//! result   = (L (B all bytes) (N final: 0 open, 1 closed) (N sent) (N answered) (N confused)
//!               (L (L (N ok) (B decoded body))...) (N attempts) (N timed out: the client's wait ran out))
use crate::c00pipe;
use crate::xval::X;
use kvarn::prelude::*;
use std::sync::{Arc, OnceLock};
use std::time::Duration;
use tokio::io::{AsyncReadExt, AsyncWriteExt};

fn rt() -> &'static tokio::runtime::Runtime {
    static RT: OnceLock<tokio::runtime::Runtime> = OnceLock::new();
    RT.get_or_init(|| {
        tokio::runtime::Builder::new_multi_thread()
            .worker_threads(2)
            .enable_all()
            .build()
            .expect("tokio runtime")
    })
}

fn kv_get<'a>(kv: &'a [(String, X)], k: &str) -> Option<&'a X> {
    kv.iter().find(|(n, _)| n == k).map(|(_, v)| v)
}

/// Handlers that read the request body, and the limiter.
fn customize(kv: &[(String, X)], host: &mut Host, shared: &Arc<c00pipe::Shared>) {
    let handlers: Vec<(Vec<u8>, c00pipe::HSpec)> = kv_get(kv, "handlers")
        .and_then(X::as_l)
        .map(|hs| hs.iter().enumerate().filter_map(|(i, h)| c00pipe::parse_handler(i, h)).collect())
        .unwrap_or_default();
    if let Some(rs) = kv_get(kv, "readers").and_then(X::as_l) {
        for r in rs {
            let (path, limit) = match r.as_l() {
                Some([X::B(p), X::N(l)]) => (p.clone(), *l as usize),
                _ => continue,
            };
            // the last handler registered for the path is the one c00pipe left in place
            let spec = match handlers.iter().rev().find(|(p, _)| *p == path) {
                Some((_, s)) => Arc::new(s.clone()),
                None => continue,
            };
            let sh = Arc::clone(shared);
            host.extensions.add_prepare_single(
                c00pipe::leak(&path),
                prepare!(req, _host, _path, _addr, move |spec: Arc<c00pipe::HSpec>, sh: Arc<c00pipe::Shared>, limit: usize| {
                    let _ = req.body_mut().read_to_bytes(*limit).await;
                    c00pipe::handler_response(spec, sh, req)
                }),
            );
        }
    }
    if let Some(ss) = kv_get(kv, "streams").and_then(X::as_l) {
        for s in ss {
            let (path, kind, announced, chunks) = match s.as_l() {
                Some([X::B(p), X::N(k), X::N(a), X::L(cs)]) => (
                    p.clone(),
                    *k,
                    *a as u64,
                    cs.iter().filter_map(|c| c.as_b().map(Bytes::copy_from_slice)).collect::<Vec<Bytes>>(),
                ),
                _ => continue,
            };
            if kind == 0 {
                host.extensions.add_prepare_single(c00pipe::leak(&path), kvarn::extensions::stream_body());
                continue;
            }
            let chunks = Arc::new(chunks);
            host.extensions.add_prepare_single(
                c00pipe::leak(&path),
                prepare!(_req, _host, _path, _addr, move |chunks: Arc<Vec<Bytes>>, kind: u128, announced: u64| {
                    let chunks = Arc::clone(chunks);
                    let fut = response_pipe_fut!(pipe, _host, move |chunks: Arc<Vec<Bytes>>| {
                        for c in chunks.iter() {
                            if pipe.send(c.clone()).await.is_err() {
                                break;
                            }
                        }
                    });
                    let mut resp = Response::builder()
                        .header("content-type", "text/plain")
                        .header("x-tag", "S")
                        .body(Bytes::new())
                        .unwrap();
                    if *kind == 3 {
                        // the handler frames its stream itself
                        utils::set_content_length(resp.headers_mut(), *announced);
                    }
                    let fat = FatResponse::new(resp, comprash::ServerCachePreference::None)
                        .with_compress(comprash::CompressPreference::None);
                    if *kind == 2 {
                        fat.with_future_and_len(fut, *announced)
                    } else {
                        fat.with_future(fut)
                    }
                }),
            );
        }
    }
    if let Some(max) = kv_get(kv, "limit").and_then(X::as_n) {
        if max > 0 {
            host.limiter = kvarn::limiting::Manager::new(max as usize, 1, 1.0e9);
        }
    }
}

struct Req {
    method: Vec<u8>,
    target: Vec<u8>,
    headers: Vec<(Vec<u8>, Vec<u8>)>,
    body: Vec<u8>,
    early: usize,
    flags: u128,
}

fn parse_req(x: &X) -> Option<Req> {
    let l = x.as_l()?;
    if l.len() != 6 {
        return None;
    }
    let mut headers = Vec::new();
    for h in l[2].as_l()? {
        let p = h.as_l()?;
        headers.push((p.first()?.as_b()?.to_vec(), p.get(1)?.as_b()?.to_vec()));
    }
    Some(Req {
        method: l[0].as_b()?.to_vec(),
        target: l[1].as_b()?.to_vec(),
        headers,
        body: l[3].as_b()?.to_vec(),
        early: l[4].as_n()? as usize,
        flags: l[5].as_n()?,
    })
}

enum Got {
    /// `to_end`: the response announces no length: its body is everything up to the end of the stream
    Frame { enc: Option<Vec<u8>>, body: (usize, usize), to_end: bool },
    Closed,
    Confused,
}

/// How long the client waits for the bytes of a response.  kvarn gives up on a request head after 5 s: a
/// request the server does not recognise is seen here as "closed without an answer", not as a time-out.
const WAIT: Duration = Duration::from_secs(8);

struct Client {
    stream: tokio::net::TcpStream,
    all: Vec<u8>,
    pos: usize,
    /// a wait ran into its time-out, or the server took seconds to close: the machine may just be busy
    slow: bool,
}
impl Client {
    /// false = end of stream (or reset)
    async fn more(&mut self, wait: Duration) -> Result<bool, ()> {
        let mut tmp = [0u8; 65536];
        match tokio::time::timeout(wait, self.stream.read(&mut tmp)).await {
            Ok(Ok(0)) => Ok(false),
            Ok(Ok(n)) => {
                self.all.extend_from_slice(&tmp[..n]);
                Ok(true)
            }
            Ok(Err(_)) => Ok(false),
            Err(_) => Err(()),
        }
    }
    /// The client's own framing, used only to know when to send the next request.
    async fn response(&mut self, is_head: bool) -> Got {
        let t0 = std::time::Instant::now();
        let head_end = loop {
            if let Some(p) = self.all[self.pos..].windows(4).position(|w| w == b"\r\n\r\n") {
                break self.pos + p + 4;
            }
            match self.more(WAIT).await {
                Ok(true) => {}
                Ok(false) => {
                    self.slow |= t0.elapsed() >= Duration::from_secs(3);
                    return if self.all.len() == self.pos { Got::Closed } else { Got::Confused };
                }
                Err(()) => {
                    self.slow = true;
                    return Got::Confused;
                }
            }
        };
        let head = String::from_utf8_lossy(&self.all[self.pos..head_end]).to_ascii_lowercase();
        let status: Option<u16> = head.split(' ').nth(1).and_then(|s| s.parse().ok());
        let status = match status {
            Some(s) if head.starts_with("http/1.") => s,
            _ => return Got::Confused,
        };
        let field = |name: &str| head.lines().find_map(|l| l.strip_prefix(name).map(|v| v.trim().to_string()));
        let enc = field("content-encoding:").map(String::into_bytes);
        let bodyless = is_head || (100..200).contains(&status) || status == 204 || status == 304;
        let len = if bodyless {
            0
        } else {
            match field("content-length:") {
                Some(v) => match v.parse::<usize>() {
                    Ok(n) => n,
                    Err(_) => return Got::Confused,
                },
                None => {
                    // no announced length: the body ends where the stream ends
                    loop {
                        match self.more(WAIT).await {
                            Ok(true) => {}
                            Ok(false) => break,
                            Err(()) => {
                                // still open: nothing tells this client where the response ends
                                return Got::Confused;
                            }
                        }
                    }
                    self.pos = self.all.len();
                    return Got::Frame { enc, body: (head_end, self.all.len()), to_end: true };
                }
            }
        };
        while self.all.len() < head_end + len {
            match self.more(WAIT).await {
                Ok(true) => {}
                Ok(false) => return Got::Confused,
                Err(()) => {
                    self.slow = true;
                    return Got::Confused;
                }
            }
        }
        self.pos = head_end + len;
        Got::Frame { enc, body: (head_end, head_end + len), to_end: false }
    }
}

/// Ports for the `RunConfig::execute` servers.  kvarn sets SO_REUSEPORT, so two servers may share a port and
/// answer each other's clients: a port is taken from the kernel (`bind(.., 0)`: nobody holds it, and the
/// kernel never hands out a port that is in use) and claimed among the harness processes of this check by an
/// exclusively created lock file before the probing listener is dropped.  The other checks use 10000..32000.
struct PortClaim {
    port: u16,
    lock: std::path::PathBuf,
}
impl Drop for PortClaim {
    fn drop(&mut self) {
        let _ = std::fs::remove_file(&self.lock);
    }
}
fn claim_port() -> Option<PortClaim> {
    let dir = std::env::temp_dir().join("kvh-c08-ports");
    let _ = std::fs::create_dir_all(&dir);
    // lock files of processes that were killed
    if let Ok(rd) = std::fs::read_dir(&dir) {
        for e in rd.flatten() {
            let old = e.metadata().ok().and_then(|m| m.modified().ok()).and_then(|t| t.elapsed().ok());
            if old.map_or(false, |d| d > Duration::from_secs(1800)) {
                let _ = std::fs::remove_file(e.path());
            }
        }
    }
    for _ in 0..64 {
        let probe = std::net::TcpListener::bind(("0.0.0.0", 0)).ok()?;
        let port = probe.local_addr().ok()?.port();
        let lock = dir.join(port.to_string());
        if std::fs::OpenOptions::new().write(true).create_new(true).open(&lock).is_ok() {
            drop(probe);
            return Some(PortClaim { port, lock });
        }
    }
    None
}

/// One listening socket per process and send-buffer size: every case takes one more ephemeral port (its client's), not two.
/// `sndbuf` > 0: the server's end of the connection gets a send buffer of that size (inherited from the listening
/// socket, and no longer tuned by the kernel), so that a body of some ten kilobytes does not fit a single `write`.
fn listener(sndbuf: u32) -> std::io::Result<&'static tokio::net::TcpListener> {
    static PLAIN: OnceLock<tokio::net::TcpListener> = OnceLock::new();
    static SMALL: OnceLock<tokio::net::TcpListener> = OnceLock::new();
    let cell = if sndbuf > 0 { &SMALL } else { &PLAIN };
    if let Some(l) = cell.get() {
        return Ok(l);
    }
    let mut last = std::io::Error::from(std::io::ErrorKind::Other);
    for _ in 0..50 {
        let made = (|| {
            let socket = tokio::net::TcpSocket::new_v4()?;
            socket.set_reuseaddr(true)?;
            if sndbuf > 0 {
                socket.set_send_buffer_size(sndbuf)?;
            }
            socket.bind(std::net::SocketAddr::from(([127, 0, 0, 1], 0)))?;
            socket.listen(16)
        })();
        match made {
            Ok(l) => return Ok(cell.get_or_init(|| l)),
            Err(e) => {
                last = e;
                std::thread::sleep(Duration::from_millis(100));
            }
        }
    }
    Err(last)
}

async fn open_direct(hosts: Arc<HostCollection>, sndbuf: u32) -> std::io::Result<tokio::net::TcpStream> {
    let listener = listener(sndbuf)?;
    let addr = listener.local_addr()?;
    // the machine is shared: when it runs out of ephemeral ports for a moment, wait
    let mut client = None;
    let mut last = std::io::Error::from(std::io::ErrorKind::Other);
    for _ in 0..50 {
        match tokio::net::TcpStream::connect(addr).await {
            Ok(c) => {
                client = Some(c);
                break;
            }
            Err(e) => {
                last = e;
                tokio::time::sleep(Duration::from_millis(100)).await;
            }
        }
    }
    let client = match client {
        Some(c) => c,
        None => return Err(last),
    };
    let me = client.local_addr()?;
    let (server_end, peer) = loop {
        let (s, peer) = tokio::time::timeout(Duration::from_secs(10), listener.accept())
            .await
            .map_err(|_| std::io::Error::from(std::io::ErrorKind::TimedOut))??;
        if peer == me {
            break (s, peer);
        }
    };
    let desc = Arc::new(PortDescriptor::unsecure(8080, hosts));
    tokio::spawn(async move {
        let _ = kvarn::handle_connection(kvarn::Incoming::Tcp(server_end), peer, desc, || true).await;
    });
    Ok(client)
}

async fn open_server(hosts: Arc<HostCollection>) -> Option<(tokio::net::TcpStream, Arc<kvarn::shutdown::Manager>, PortClaim)> {
    let claim = claim_port()?;
    let port = claim.port;
    let manager = RunConfig::new().bind(PortDescriptor::unsecure(port, hosts).ipv4_only()).disable_ctl().execute().await;
    let t0 = std::time::Instant::now();
    loop {
        match tokio::time::timeout(Duration::from_secs(3), tokio::net::TcpStream::connect(("127.0.0.1", port))).await {
            Ok(Ok(s)) => return Some((s, manager, claim)),
            _ if t0.elapsed() < Duration::from_secs(10) => tokio::time::sleep(Duration::from_millis(10)).await,
            _ => {
                manager.shutdown();
                return None;
            }
        }
    }
}

struct Ran {
    out: Vec<X>,
    slow: bool,
}

async fn run(built: &c00pipe::Built, reqs: &[Req], server: bool, wait_close: u64, late_ms: u64, sndbuf: u32) -> Option<Ran> {
    let mut manager = None;
    let mut _claim = None;
    let stream = if server {
        let (s, m, c) = open_server(Arc::clone(&built.hosts)).await?;
        manager = Some(m);
        _claim = Some(c);
        s
    } else {
        open_direct(Arc::clone(&built.hosts), sndbuf).await.ok()?
    };
    let _ = stream.set_nodelay(true);
    let t0 = std::time::SystemTime::now().duration_since(std::time::UNIX_EPOCH).unwrap().as_secs();
    let mut c = Client { stream, all: Vec::new(), pos: 0, slow: false };
    let (mut sent, mut answered, mut confused, mut closed) = (0u32, 0u32, false, false);
    let mut frames = Vec::new();
    for r in reqs {
        let mut head = Vec::new();
        head.extend_from_slice(&r.method);
        head.push(b' ');
        head.extend_from_slice(&r.target);
        head.extend_from_slice(if r.flags & 4 == 4 { b" HTTP/1.0\r\nhost: " } else { b" HTTP/1.1\r\nhost: " });
        head.extend_from_slice(if r.flags & 1 == 1 { b"nohost.test" } else { built.host_name.as_bytes() });
        head.extend_from_slice(b"\r\n");
        for (n, v) in &r.headers {
            head.extend_from_slice(n);
            head.extend_from_slice(b": ");
            head.extend_from_slice(&if n == b"if-modified-since" { c00pipe::subst_ims(v, t0) } else { v.clone() });
            head.extend_from_slice(b"\r\n");
        }
        head.extend_from_slice(b"\r\n");
        let head_len = head.len();
        let early = r.early.min(r.body.len());
        head.extend_from_slice(&r.body[..early]);
        // the segments in which the head (and the early part of the body) leaves the client
        let piece = ((r.flags >> 8) & 0xffff) as usize;
        let tail = (((r.flags >> 24) & 0xff) as usize).min(head_len.saturating_sub(1));
        let mut cuts: Vec<usize> = Vec::new();
        if piece > 0 {
            let mut p = piece;
            while p < head_len {
                cuts.push(p);
                p += piece;
            }
        }
        if tail > 0 && !cuts.contains(&(head_len - tail)) {
            cuts.push(head_len - tail);
            cuts.sort_unstable();
        }
        let mut from = 0;
        let mut ok = true;
        for cut in cuts.into_iter().chain(std::iter::once(head.len())) {
            if cut <= from {
                continue;
            }
            if from > 0 {
                // let the server read what was written before the next segment follows
                tokio::time::sleep(Duration::from_millis(if piece > 0 && piece < 8 { 1 } else { 15 })).await;
            }
            if c.stream.write_all(&head[from..cut]).await.is_err() {
                ok = false;
                break;
            }
            from = cut;
        }
        if !ok {
            closed = true;
            break;
        }
        sent += 1;
        if early < r.body.len() {
            // the rest of the body arrives after the head was read (and, for a handler that does not read
            // it, after the response was written)
            tokio::time::sleep(Duration::from_millis(late_ms)).await;
            let _ = c.stream.write_all(&r.body[early..]).await;
        }
        if r.flags & 2 == 2 {
            let _ = c.stream.shutdown().await;
        }
        match c.response(r.method == b"HEAD").await {
            Got::Frame { enc, body, to_end } => {
                answered += 1;
                let (decoded, ok) = c00pipe::decode_body(enc.as_deref(), &c.all[body.0..body.1]);
                frames.push(X::L(vec![X::bool(ok), X::b(c00pipe::canon_body(&decoded))]));
                if to_end {
                    closed = true;
                    break;
                }
            }
            Got::Closed => {
                closed = true;
                break;
            }
            Got::Confused => {
                confused = true;
                break;
            }
        }
    }
    // what else arrives: stray bytes, or the end of the stream
    if !closed {
        let mut wait = Duration::from_millis(if confused { 300 } else { wait_close.max(60) });
        loop {
            match c.more(wait).await {
                Ok(true) => wait = Duration::from_millis(100),
                Ok(false) => {
                    closed = true;
                    break;
                }
                Err(()) => break,
            }
        }
    }
    drop(c.stream);
    if let Some(m) = manager {
        m.shutdown();
        let _ = tokio::time::timeout(Duration::from_secs(3), m.wait()).await;
    }
    Some(Ran {
        out: vec![
            X::b(&c.all),
            X::N(u128::from(closed)),
            X::n(sent),
            X::n(answered),
            X::bool(confused),
            X::L(frames),
        ],
        slow: c.slow,
    })
}

fn conn(x: &X, late_ms: u64) -> X {
    let l = match x.as_l() {
        Some(l) if l.len() == 2 => l,
        _ => return X::bad(),
    };
    let reqs: Vec<Req> = match l[1].as_l().map(|rs| rs.iter().map(parse_req).collect::<Option<Vec<_>>>()) {
        Some(Some(r)) => r,
        _ => return X::bad(),
    };
    let flagn = |k: &str| {
        l[0].as_l()
            .and_then(|kv| kv.iter().find_map(|e| match e.as_l() {
                Some([X::B(n), X::N(v)]) if n == k.as_bytes() => Some(*v),
                _ => None,
            }))
            .unwrap_or(0)
    };
    let server = flagn("server") == 1;
    let retry = flagn("retry") == 1;
    let wait_close = flagn("wait_close") as u64;
    let sndbuf = flagn("sndbuf") as u32;
    let mut res = None;
    let mut attempts = 0u32;
    for _ in 0..3 {
        // a fresh host (caches, counters, limiter) for every attempt
        let built = match c00pipe::build_host(&l[0], Some(&customize)) {
            Some(b) => b,
            None => return X::bad(),
        };
        attempts += 1;
        let r = rt().block_on(run(&built, &reqs, server, wait_close, late_ms, sndbuf));
        if let Some(d) = &built.dir {
            let _ = std::fs::remove_dir_all(d);
        }
        match r {
            // the server did not come up
            None if server => continue,
            None => break,
            Some(r) => {
                // a time-out of the client may be the machine's doing: only what happens again and again counts
                let again = retry && r.slow;
                res = Some(r);
                if !again {
                    break;
                }
            }
        }
    }
    match res {
        Some(r) => {
            let mut out = r.out;
            out.push(X::n(attempts));
            out.push(X::bool(r.slow));
            X::L(out)
        }
        None => X::L(vec![X::N(95)]),
    }
}

/// (L version status (L (L name value)...) body) -> bytes written by `write::response`
fn print(x: &X) -> X {
    let l = match x.as_l() {
        Some(l) if l.len() == 4 => l,
        _ => return X::bad(),
    };
    let (v, st, hs, body) = match (l[0].as_n(), l[1].as_n(), l[2].as_l(), l[3].as_b()) {
        (Some(v), Some(st), Some(hs), Some(b)) => (v, st, hs, b),
        _ => return X::bad(),
    };
    let version = match v {
        9 => Version::HTTP_09,
        10 => Version::HTTP_10,
        11 => Version::HTTP_11,
        20 => Version::HTTP_2,
        30 => Version::HTTP_3,
        _ => return X::L(vec![X::N(96)]),
    };
    let status = match u16::try_from(st).ok().and_then(|s| StatusCode::from_u16(s).ok()) {
        Some(s) => s,
        None => return X::L(vec![X::N(96)]),
    };
    let mut resp = Response::new(());
    *resp.version_mut() = version;
    *resp.status_mut() = status;
    for h in hs {
        let (n, val) = match h.as_l() {
            Some([X::B(n), X::B(v)]) => (n, v),
            _ => return X::bad(),
        };
        match (HeaderName::from_bytes(n), HeaderValue::from_bytes(val)) {
            (Ok(n), Ok(v)) => {
                resp.headers_mut().append(n, v);
            }
            _ => return X::L(vec![X::N(96)]),
        }
    }
    let mut out: Vec<u8> = Vec::new();
    match c00pipe::block_on(kvarn_async::write::response(&resp, body, &mut out)) {
        Ok(()) => X::b(out),
        Err(_) => X::err(1),
    }
}

pub fn dispatch(comp: &str, x: &X) -> Option<X> {
    Some(match comp {
        "h1w.conn" => conn(x, 40),
        "h1w.conn_v0" => conn(x, 250),
        "h1w.print" => print(x),
        _ => return None,
    })
}
