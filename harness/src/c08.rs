//! C08: response framing on persistent connections.
//!
//! `h1w.conn`: a history of requests on ONE loopback connection handled by the public
//! `kvarn::handle_connection` (or, with cfg key `server`, by a `RunConfig::execute` server on a loopback
//! port).  A raw HTTP/1.1 client sends each request after the previous response was read (the client's own
//! lenient framing only paces the requests); **every byte received** is returned, to be parsed by the
//! extracted Coq `parse_responses`.
//! `h1w.print`: `kvarn_async::write::response` called directly.
//!
//! scenario = (L cfg (L req...)); cfg as in c00pipe::build_host plus
//!   files   (L (L "public/<name>" content)...)   readers (L (L path (N limit))...)   limit (N max_requests)
//!   server  (N 0|1)                                wait_close (N ms)
//! req      = (L method target (L (L name value)...) body (N early) (N flags))     flags bit 0: unknown Host,
//!            bit 1: shut down the client's write side after this request's bytes
//! result   = (L (B all bytes) (N final: 0 open, 1 closed) (N sent) (N answered) (N confused)
//!               (L (L (N ok) (B decoded body))...))
use crate::c00pipe;
use crate::xval::X;
use kvarn::prelude::*;
use std::sync::atomic::{AtomicU32, Ordering};
use std::sync::{Arc, OnceLock};
use std::time::Duration;
use tokio::io::{AsyncReadExt, AsyncWriteExt};

fn rt() -> &'static tokio::runtime::Runtime {
    static RT: OnceLock<tokio::runtime::Runtime> = OnceLock::new();
    RT.get_or_init(|| {
        tokio::runtime::Builder::new_multi_thread()
            .worker_threads(2)
            .enable_all()
            .build()
            .expect("tokio runtime")
    })
}

fn kv_get<'a>(kv: &'a [(String, X)], k: &str) -> Option<&'a X> {
    kv.iter().find(|(n, _)| n == k).map(|(_, v)| v)
}

/// Handlers that read the request body, and the limiter.
fn customize(kv: &[(String, X)], host: &mut Host, shared: &Arc<c00pipe::Shared>) {
    let handlers: Vec<(Vec<u8>, c00pipe::HSpec)> = kv_get(kv, "handlers")
        .and_then(X::as_l)
        .map(|hs| hs.iter().enumerate().filter_map(|(i, h)| c00pipe::parse_handler(i, h)).collect())
        .unwrap_or_default();
    if let Some(rs) = kv_get(kv, "readers").and_then(X::as_l) {
        for r in rs {
            let (path, limit) = match r.as_l() {
                Some([X::B(p), X::N(l)]) => (p.clone(), *l as usize),
                _ => continue,
            };
            // the last handler registered for the path is the one c00pipe left in place
            let spec = match handlers.iter().rev().find(|(p, _)| *p == path) {
                Some((_, s)) => Arc::new(s.clone()),
                None => continue,
            };
            let sh = Arc::clone(shared);
            host.extensions.add_prepare_single(
                c00pipe::leak(&path),
                prepare!(req, _host, _path, _addr, move |spec: Arc<c00pipe::HSpec>, sh: Arc<c00pipe::Shared>, limit: usize| {
                    let _ = req.body_mut().read_to_bytes(*limit).await;
                    c00pipe::handler_response(spec, sh, req)
                }),
            );
        }
    }
    if let Some(max) = kv_get(kv, "limit").and_then(X::as_n) {
        if max > 0 {
            host.limiter = kvarn::limiting::Manager::new(max as usize, 1, 1.0e9);
        }
    }
}

struct Req {
    method: Vec<u8>,
    target: Vec<u8>,
    headers: Vec<(Vec<u8>, Vec<u8>)>,
    body: Vec<u8>,
    early: usize,
    flags: u128,
}

fn parse_req(x: &X) -> Option<Req> {
    let l = x.as_l()?;
    if l.len() != 6 {
        return None;
    }
    let mut headers = Vec::new();
    for h in l[2].as_l()? {
        let p = h.as_l()?;
        headers.push((p.first()?.as_b()?.to_vec(), p.get(1)?.as_b()?.to_vec()));
    }
    Some(Req {
        method: l[0].as_b()?.to_vec(),
        target: l[1].as_b()?.to_vec(),
        headers,
        body: l[3].as_b()?.to_vec(),
        early: l[4].as_n()? as usize,
        flags: l[5].as_n()?,
    })
}

enum Got {
    Frame { enc: Option<Vec<u8>>, body: (usize, usize) },
    Closed,
    Confused,
}

struct Client {
    stream: tokio::net::TcpStream,
    all: Vec<u8>,
    pos: usize,
}
impl Client {
    /// false = end of stream (or reset)
    async fn more(&mut self, wait: Duration) -> Result<bool, ()> {
        let mut tmp = [0u8; 16384];
        match tokio::time::timeout(wait, self.stream.read(&mut tmp)).await {
            Ok(Ok(0)) => Ok(false),
            Ok(Ok(n)) => {
                self.all.extend_from_slice(&tmp[..n]);
                Ok(true)
            }
            Ok(Err(_)) => Ok(false),
            Err(_) => Err(()),
        }
    }
    /// The client's own framing, used only to know when to send the next request.
    async fn response(&mut self, is_head: bool) -> Got {
        let wait = Duration::from_secs(5);
        let head_end = loop {
            if let Some(p) = self.all[self.pos..].windows(4).position(|w| w == b"\r\n\r\n") {
                break self.pos + p + 4;
            }
            match self.more(wait).await {
                Ok(true) => {}
                Ok(false) => return if self.all.len() == self.pos { Got::Closed } else { Got::Confused },
                Err(()) => return Got::Confused,
            }
        };
        let head = String::from_utf8_lossy(&self.all[self.pos..head_end]).to_ascii_lowercase();
        let status: Option<u16> = head.split(' ').nth(1).and_then(|s| s.parse().ok());
        let status = match status {
            Some(s) if head.starts_with("http/1.") => s,
            _ => return Got::Confused,
        };
        let field = |name: &str| head.lines().find_map(|l| l.strip_prefix(name).map(|v| v.trim().to_string()));
        let bodyless = is_head || (100..200).contains(&status) || status == 204 || status == 304;
        let len = if bodyless {
            0
        } else {
            match field("content-length:").and_then(|v| v.parse::<usize>().ok()) {
                Some(n) => n,
                None => return Got::Confused,
            }
        };
        while self.all.len() < head_end + len {
            match self.more(wait).await {
                Ok(true) => {}
                _ => return Got::Confused,
            }
        }
        self.pos = head_end + len;
        Got::Frame { enc: field("content-encoding:").map(String::into_bytes), body: (head_end, head_end + len) }
    }
}

static PORT_COUNTER: AtomicU32 = AtomicU32::new(0);
fn next_port() -> u16 {
    let n = PORT_COUNTER.fetch_add(1, Ordering::Relaxed);
    (10_000 + (std::process::id() % 220) * 100 + 50 + n % 50) as u16
}
async fn port_is_free(port: u16) -> bool {
    matches!(
        tokio::time::timeout(Duration::from_secs(2), tokio::net::TcpStream::connect(("127.0.0.1", port))).await,
        Ok(Err(e)) if e.kind() == std::io::ErrorKind::ConnectionRefused
    )
}

async fn open_direct(hosts: Arc<HostCollection>) -> std::io::Result<tokio::net::TcpStream> {
    let listener = tokio::net::TcpListener::bind("127.0.0.1:0").await?;
    let addr = listener.local_addr()?;
    let client = tokio::net::TcpStream::connect(addr).await?;
    let (server_end, peer) = listener.accept().await?;
    let desc = Arc::new(PortDescriptor::unsecure(8080, hosts));
    tokio::spawn(async move {
        let _ = kvarn::handle_connection(kvarn::Incoming::Tcp(server_end), peer, desc, || true).await;
    });
    Ok(client)
}

async fn open_server(hosts: Arc<HostCollection>) -> Option<(tokio::net::TcpStream, Arc<kvarn::shutdown::Manager>)> {
    let mut port = next_port();
    let mut tries = 0;
    while !port_is_free(port).await {
        port = next_port();
        tries += 1;
        if tries > 60 {
            return None;
        }
    }
    let manager = RunConfig::new().bind(PortDescriptor::unsecure(port, hosts).ipv4_only()).disable_ctl().execute().await;
    let t0 = std::time::Instant::now();
    loop {
        match tokio::time::timeout(Duration::from_secs(3), tokio::net::TcpStream::connect(("127.0.0.1", port))).await {
            Ok(Ok(s)) => return Some((s, manager)),
            _ if t0.elapsed() < Duration::from_secs(5) => tokio::time::sleep(Duration::from_millis(10)).await,
            _ => {
                manager.shutdown();
                return None;
            }
        }
    }
}

async fn run(built: &c00pipe::Built, reqs: &[Req], server: bool, wait_close: u64, late_ms: u64) -> Option<X> {
    let mut manager = None;
    let stream = if server {
        let (s, m) = open_server(Arc::clone(&built.hosts)).await?;
        manager = Some(m);
        s
    } else {
        open_direct(Arc::clone(&built.hosts)).await.ok()?
    };
    let _ = stream.set_nodelay(true);
    let t0 = std::time::SystemTime::now().duration_since(std::time::UNIX_EPOCH).unwrap().as_secs();
    let mut c = Client { stream, all: Vec::new(), pos: 0 };
    let (mut sent, mut answered, mut confused, mut closed) = (0u32, 0u32, false, false);
    let mut frames = Vec::new();
    for r in reqs {
        let mut head = Vec::new();
        head.extend_from_slice(&r.method);
        head.push(b' ');
        head.extend_from_slice(&r.target);
        head.extend_from_slice(b" HTTP/1.1\r\nhost: ");
        head.extend_from_slice(if r.flags & 1 == 1 { b"nohost.test" } else { built.host_name.as_bytes() });
        head.extend_from_slice(b"\r\n");
        for (n, v) in &r.headers {
            head.extend_from_slice(n);
            head.extend_from_slice(b": ");
            head.extend_from_slice(&if n == b"if-modified-since" { c00pipe::subst_ims(v, t0) } else { v.clone() });
            head.extend_from_slice(b"\r\n");
        }
        head.extend_from_slice(b"\r\n");
        let early = r.early.min(r.body.len());
        head.extend_from_slice(&r.body[..early]);
        if c.stream.write_all(&head).await.is_err() {
            closed = true;
            break;
        }
        sent += 1;
        if early < r.body.len() {
            // the rest of the body arrives after the head was read (and, for a handler that does not read
            // it, after the response was written)
            tokio::time::sleep(Duration::from_millis(late_ms)).await;
            let _ = c.stream.write_all(&r.body[early..]).await;
        }
        if r.flags & 2 == 2 {
            let _ = c.stream.shutdown().await;
        }
        match c.response(r.method == b"HEAD").await {
            Got::Frame { enc, body } => {
                answered += 1;
                let (decoded, ok) = c00pipe::decode_body(enc.as_deref(), &c.all[body.0..body.1]);
                frames.push(X::L(vec![X::bool(ok), X::b(c00pipe::canon_body(&decoded))]));
            }
            Got::Closed => {
                closed = true;
                break;
            }
            Got::Confused => {
                confused = true;
                break;
            }
        }
    }
    // what else arrives: stray bytes, or the end of the stream
    if !closed {
        let mut wait = Duration::from_millis(if confused { 300 } else { wait_close.max(60) });
        loop {
            match c.more(wait).await {
                Ok(true) => wait = Duration::from_millis(100),
                Ok(false) => {
                    closed = true;
                    break;
                }
                Err(()) => break,
            }
        }
    }
    drop(c.stream);
    if let Some(m) = manager {
        m.shutdown();
        let _ = tokio::time::timeout(Duration::from_secs(3), m.wait()).await;
    }
    Some(X::L(vec![
        X::b(&c.all),
        X::N(u128::from(closed)),
        X::n(sent),
        X::n(answered),
        X::bool(confused),
        X::L(frames),
    ]))
}

fn conn(x: &X, late_ms: u64) -> X {
    let l = match x.as_l() {
        Some(l) if l.len() == 2 => l,
        _ => return X::bad(),
    };
    let reqs: Vec<Req> = match l[1].as_l().map(|rs| rs.iter().map(parse_req).collect::<Option<Vec<_>>>()) {
        Some(Some(r)) => r,
        _ => return X::bad(),
    };
    let flagn = |k: &str| {
        l[0].as_l()
            .and_then(|kv| kv.iter().find_map(|e| match e.as_l() {
                Some([X::B(n), X::N(v)]) if n == k.as_bytes() => Some(*v),
                _ => None,
            }))
            .unwrap_or(0)
    };
    let server = flagn("server") == 1;
    let wait_close = flagn("wait_close") as u64;
    let built = match c00pipe::build_host(&l[0], Some(&customize)) {
        Some(b) => b,
        None => return X::bad(),
    };
    let mut res = None;
    for _ in 0..3 {
        res = rt().block_on(run(&built, &reqs, server, wait_close, late_ms));
        if res.is_some() || !server {
            break;
        }
    }
    if let Some(d) = &built.dir {
        let _ = std::fs::remove_dir_all(d);
    }
    res.unwrap_or_else(|| X::L(vec![X::N(95)]))
}

/// (L version status (L (L name value)...) body) -> bytes written by `write::response`
fn print(x: &X) -> X {
    let l = match x.as_l() {
        Some(l) if l.len() == 4 => l,
        _ => return X::bad(),
    };
    let (v, st, hs, body) = match (l[0].as_n(), l[1].as_n(), l[2].as_l(), l[3].as_b()) {
        (Some(v), Some(st), Some(hs), Some(b)) => (v, st, hs, b),
        _ => return X::bad(),
    };
    let version = match v {
        9 => Version::HTTP_09,
        10 => Version::HTTP_10,
        11 => Version::HTTP_11,
        20 => Version::HTTP_2,
        30 => Version::HTTP_3,
        _ => return X::L(vec![X::N(96)]),
    };
    let status = match u16::try_from(st).ok().and_then(|s| StatusCode::from_u16(s).ok()) {
        Some(s) => s,
        None => return X::L(vec![X::N(96)]),
    };
    let mut resp = Response::new(());
    *resp.version_mut() = version;
    *resp.status_mut() = status;
    for h in hs {
        let (n, val) = match h.as_l() {
            Some([X::B(n), X::B(v)]) => (n, v),
            _ => return X::bad(),
        };
        match (HeaderName::from_bytes(n), HeaderValue::from_bytes(val)) {
            (Ok(n), Ok(v)) => {
                resp.headers_mut().append(n, v);
            }
            _ => return X::L(vec![X::N(96)]),
        }
    }
    let mut out: Vec<u8> = Vec::new();
    match c00pipe::block_on(kvarn_async::write::response(&resp, body, &mut out)) {
        Ok(()) => X::b(out),
        Err(_) => X::err(1),
    }
}

pub fn dispatch(comp: &str, x: &X) -> Option<X> {
    Some(match comp {
        "h1w.conn" => conn(x, 40),
        "h1w.conn_v0" => conn(x, 250),
        "h1w.print" => print(x),
        _ => return None,
    })
}
