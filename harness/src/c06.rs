//! C06: content-coding negotiation and memoised compression.
//!
//! neg.list_header : (B header) -> Ok (L (L value qclass) ...)        kvarn_utils::parse::list_header
//! neg.mime        : (B content-type) -> (L) | (L (L type subtype suffix? params? do_compress))
//! neg.pipe        : (L (L body (L [ctype]) compress cache pref_oneshot pref_cached) (L req ...))
//!                   the real kvarn::handle_cache on one page; every reply body is decoded with the
//!                   standard decoder of the algorithm named in content-encoding (c00pipe::decode_body)
use crate::c00pipe::{self, Shared};
use crate::xval::X;
use bytes::Bytes;
use kvarn::prelude::*;
use std::future::Future;
use std::pin::Pin;
use std::sync::Arc;

fn qclass(q: f32) -> u128 {
    // the three tests the code under verification makes on a quality
    if q == 0.0 {
        0
    } else if q == 1.0 {
        1
    } else {
        2
    }
}

pub fn list_header(x: &X) -> X {
    let h = match x.as_b() {
        Some(b) => b,
        None => return X::bad(),
    };
    let s = match std::str::from_utf8(h) {
        Ok(s) => s,
        Err(_) => return X::L(vec![X::N(96)]),
    };
    let l = kvarn_utils::parse::list_header(s);
    X::ok(X::L(l.iter().map(|v| X::L(vec![X::b(v.value.as_bytes()), X::N(qclass(v.quality))])).collect()))
}

pub fn mime(x: &X) -> X {
    let h = match x.as_b() {
        Some(b) => b,
        None => return X::bad(),
    };
    let hv = match HeaderValue::from_bytes(h) {
        Ok(v) => v,
        Err(_) => return X::L(vec![X::N(96)]),
    };
    let m: Option<kvarn::prelude::internals::Mime> = hv.to_str().ok().and_then(|s| s.parse().ok());
    X::opt(m.map(|m| {
        X::L(vec![
            X::b(m.type_().as_str()),
            X::b(m.subtype().as_str()),
            X::bool(m.suffix().is_some()),
            X::bool(m.params().next().is_some()),
            X::bool(comprash::do_compress(&m)),
        ])
    }))
}

pub fn expand_body(x: &X) -> Option<Vec<u8>> {
    let l = x.as_l()?;
    match (l.first()?.as_n()?, l.len()) {
        (0, 2) => Some(l[1].as_b()?.to_vec()),
        (1, 3) => Some(vec![l[1].as_n()? as u8; l[2].as_n()? as usize]),
        (2, 3) => {
            let mut s = l[1].as_n()? as u64;
            let n = l[2].as_n()? as usize;
            let mut out = Vec::with_capacity(n);
            for _ in 0..n {
                s = (1_103_515_245u64 * s + 12345) % 2_147_483_648;
                out.push(((s / 65536) % 256) as u8);
            }
            Some(out)
        }
        (3, 4) => {
            let mut out = expand_body(&X::L(vec![X::N(2), l[1].clone(), l[2].clone()]))?;
            let d = l[3].as_n()?;
            if d > 8 {
                return None;
            }
            for i in 0..d {
                let copy: Vec<u8> = out.iter().map(|b| b ^ (1u8 << i)).collect();
                out.extend_from_slice(&copy);
            }
            Some(out)
        }
        _ => None,
    }
}

fn pref(n: u128) -> Option<comprash::PreferredCompression> {
    Some(match n {
        0 => comprash::PreferredCompression::None,
        1 => comprash::PreferredCompression::Gzip,
        2 => comprash::PreferredCompression::Brotli,
        3 => comprash::PreferredCompression::Zstd,
        _ => return None,
    })
}

struct Page {
    body: Bytes,
    ctype: Option<Vec<u8>>,
    /// a content-encoding header the handler sets itself
    hce: Option<Vec<u8>>,
    status: u16,
    compress: bool,
    cache: bool,
}

fn page_response(p: &Page) -> FatResponse {
    let mut b = Response::builder().status(p.status);
    if let Some(ct) = &p.ctype {
        b = b.header("content-type", &ct[..]);
    }
    if let Some(ce) = &p.hce {
        b = b.header("content-encoding", &ce[..]);
    }
    let resp = b.body(p.body.clone()).unwrap();
    FatResponse::new(
        resp,
        if p.cache { comprash::ServerCachePreference::Full } else { comprash::ServerCachePreference::None },
    )
    .with_client_cache(comprash::ClientCachePreference::Ignore)
    .with_compress(if p.compress { comprash::CompressPreference::Full } else { comprash::CompressPreference::None })
}

fn header_list(ae: Option<&X>, more: &[X]) -> Option<Vec<X>> {
    let mut v = match ae {
        Some(v) => vec![X::L(vec![X::b("accept-encoding"), X::b(v.as_b()?)])],
        None => vec![],
    };
    for m in more {
        v.push(X::L(vec![X::b("accept-encoding"), X::b(m.as_b()?)]));
    }
    Some(v)
}

/// polls all futures in index order until every one has completed (no task is spawned: the
/// interleaving happens at the await points of the futures, on this thread)
async fn join_in_order<'a, T>(mut futs: Vec<Pin<Box<dyn Future<Output = T> + 'a>>>) -> Vec<T> {
    let mut out: Vec<Option<T>> = futs.iter().map(|_| None).collect();
    std::future::poll_fn(|cx| {
        let mut pending = false;
        for (i, f) in futs.iter_mut().enumerate() {
            if out[i].is_none() {
                match f.as_mut().poll(cx) {
                    std::task::Poll::Ready(v) => out[i] = Some(v),
                    std::task::Poll::Pending => pending = true,
                }
            }
        }
        if pending {
            std::task::Poll::Pending
        } else {
            std::task::Poll::Ready(())
        }
    })
    .await;
    out.into_iter().map(Option::unwrap).collect()
}

/// the replies already seen, kept alive: (label, body)
type Seen = Vec<(Vec<u8>, Bytes)>;

fn observe(reply: &kvarn::CacheReply, page: &Page, seen: &mut Seen) -> X {
    let body = &page.body;
    let status = reply.response.status().as_u16();
    if status == 406 {
        return X::L(vec![X::n(status)]);
    }
    let enc = reply.response.headers().get("content-encoding").map(|v| v.as_bytes().to_vec());
    let raw = reply.response.body();
    // an empty body: nothing to decode, whatever the headers say
    let (decoded, ok) = if raw.is_empty() { (Vec::new(), true) } else { c00pipe::decode_body(enc.as_deref(), raw) };
    let key = enc.clone().unwrap_or_default();
    // the very buffer an earlier reply carried (all earlier replies are kept alive in `seen`, so an equal
    // address is the same allocation): only asked of compressed bodies
    let compressed = !raw.is_empty() && matches!(enc.as_deref(), Some(b"gzip") | Some(b"br") | Some(b"zstd"));
    let reused = compressed && seen.iter().any(|(k, r)| *k == key && r.as_ptr() == raw.as_ptr() && r.len() == raw.len());
    seen.push((key, raw.clone()));
    X::L(vec![
        X::n(status),
        X::opt(enc.map(X::B)),
        X::bool(ok),
        X::bool(ok && decoded[..] == body[..] && reply.identity_body[..] == body[..]),
        X::n(if ok { decoded.len() } else { 0 }),
        X::bool(raw[..] == body[..]),
        X::bool(reused),
    ])
}

fn signed(x: &X) -> Option<i32> {
    let l = x.as_l()?;
    let v = l.get(1)?.as_n()? as i32;
    Some(if l.first()?.as_n()? == 1 { -v } else { v })
}

pub fn pipe(x: &X) -> X {
    let l = match x.as_l() {
        Some(l) if l.len() == 2 => l,
        _ => return X::bad(),
    };
    let (c, reqs) = match (l[0].as_l(), l[1].as_l()) {
        (Some(c), Some(r)) if c.len() == 9 => (c, r),
        _ => return X::bad(),
    };
    let parsed = (|| {
        let lv = c[8].as_l()?;
        if lv.len() != 6 {
            return None;
        }
        Some((
            expand_body(&c[0])?,
            c[1].as_opt()?.map(|v| v.as_b().map(<[u8]>::to_vec)),
            c[2].as_bool()?,
            c[3].as_bool()?,
            pref(c[4].as_n()?)?,
            pref(c[5].as_n()?)?,
            c[6].as_opt()?.map(|v| v.as_b().map(<[u8]>::to_vec)),
            c[7].as_n()? as u16,
            (signed(&lv[0])?, lv[1].as_n()? as u32, lv[2].as_n()? as u32),
            (signed(&lv[3])?, lv[4].as_n()? as u32, lv[5].as_n()? as u32),
        ))
    })();
    let (body, ctype, compress, cache, p1, p2, hce, status, lv1, lv2) = match parsed {
        Some(p) => p,
        None => return X::bad(),
    };
    let header_value = |v: Option<Option<Vec<u8>>>| -> Result<Option<Vec<u8>>, X> {
        match v {
            Some(Some(v)) => {
                if HeaderValue::from_bytes(&v).is_err() {
                    Err(X::L(vec![X::N(96)]))
                } else {
                    Ok(Some(v))
                }
            }
            Some(None) => Err(X::bad()),
            None => Ok(None),
        }
    };
    let ctype = match header_value(ctype) {
        Ok(v) => v,
        Err(e) => return e,
    };
    let hce = match header_value(hce) {
        Ok(v) => v,
        Err(e) => return e,
    };
    if http::StatusCode::from_u16(status).is_err() {
        return X::bad();
    }
    let page = Arc::new(Page { body: Bytes::from(body), ctype, hce, status, compress, cache });
    let cfg = X::L(vec![
        X::L(vec![X::b("cache"), X::bool(true)]),
        X::L(vec![X::b("same_compress"), X::bool(false)]),
        X::L(vec![X::b("disable_ims"), X::bool(true)]),
    ]);
    let page_for_handler = Arc::clone(&page);
    let customize = move |_kv: &[(String, X)], host: &mut Host, _sh: &Arc<Shared>| {
        host.compression_options_oneshot.preferred = p1;
        host.compression_options_oneshot.zstd_level = lv1.0;
        host.compression_options_oneshot.brotli_level = lv1.1;
        host.compression_options_oneshot.gzip_level = lv1.2;
        host.compression_options_cached.preferred = p2;
        host.compression_options_cached.zstd_level = lv2.0;
        host.compression_options_cached.brotli_level = lv2.1;
        host.compression_options_cached.gzip_level = lv2.2;
        let page = Arc::clone(&page_for_handler);
        host.extensions.add_prepare_single(
            "/p",
            prepare!(_req, _host, _path, _addr, move |page: Arc<Page>| { page_response(page) }),
        );
    };
    let built = match c00pipe::build_host(&cfg, Some(&customize)) {
        Some(b) => b,
        None => return X::bad(),
    };
    // groups: (kind, accept-encoding, method, n)
    let mut groups = Vec::new();
    for r in reqs {
        let g = (|| {
            let r = r.as_l()?;
            if r.len() != 5 {
                return None;
            }
            let method: &'static [u8] = match r[2].as_n()? {
                0 => b"GET",
                1 => b"HEAD",
                2 => b"POST",
                _ => return None,
            };
            Some((r[0].as_n()?, header_list(r[1].as_opt()?, r[4].as_l()?)?, method, r[3].as_n()? as usize))
        })();
        match g {
            Some(g) => groups.push(g),
            None => return X::bad(),
        }
    }
    let spawned = groups.iter().any(|g| g.0 == 2);
    let rt = if spawned {
        tokio::runtime::Builder::new_multi_thread().worker_threads(4).enable_all().build().unwrap()
    } else {
        tokio::runtime::Builder::new_current_thread().enable_all().build().unwrap()
    };
    let hosts = Arc::clone(&built.hosts);
    let host_name = built.host_name.clone();
    let res = rt.block_on(async {
        let host = hosts.get_host(&host_name)?;
        let addr = c00pipe::sockaddr(1);
        let mut seen = Seen::new();
        let mut out = Vec::new();
        for (kind, hdrs, method, n) in &groups {
            let mut requests = Vec::new();
            for _ in 0..*n {
                match c00pipe::make_request(&host_name, method, b"/p", hdrs, b"") {
                    Some(q) => requests.push(q),
                    None => return Some(X::L(vec![X::N(96)])),
                }
            }
            let replies: Vec<kvarn::CacheReply> = match kind {
                0 => {
                    let mut v = Vec::new();
                    for q in &mut requests {
                        v.push(kvarn::handle_cache(q, addr, host).await);
                    }
                    v
                }
                1 => {
                    let futs: Vec<Pin<Box<dyn Future<Output = kvarn::CacheReply> + '_>>> = requests
                        .iter_mut()
                        .map(|q| Box::pin(kvarn::handle_cache(q, addr, host)) as Pin<Box<dyn Future<Output = kvarn::CacheReply> + '_>>)
                        .collect();
                    join_in_order(futs).await
                }
                2 => {
                    // real parallelism: one task per request on the worker threads, released together
                    let barrier = Arc::new(tokio::sync::Barrier::new(requests.len()));
                    let mut tasks = Vec::new();
                    for mut q in requests.drain(..) {
                        let hosts = Arc::clone(&hosts);
                        let name = host_name.clone();
                        let barrier = Arc::clone(&barrier);
                        tasks.push(tokio::spawn(async move {
                            let host = hosts.get_host(&name).unwrap();
                            barrier.wait().await;
                            kvarn::handle_cache(&mut q, addr, host).await
                        }));
                    }
                    let mut v = Vec::new();
                    for t in tasks {
                        match t.await {
                            Ok(r) => v.push(r),
                            Err(_) => return Some(X::panic()),
                        }
                    }
                    v
                }
                _ => return None,
            };
            out.push(X::L(replies.iter().map(|rp| observe(rp, &page, &mut seen)).collect()));
        }
        Some(X::L(out))
    });
    res.unwrap_or_else(X::bad)
}

/// neg.stress: (L (N rounds) (N n) (N body_len) (N coding)) -> (L (N anomalies) (N replies) (N wrong replies))
/// rounds times: a fresh host whose page has a cache entry with cold memo cells (one identity request), then n tasks
/// released together on a 4-worker runtime ask for the same coding.  Anomaly: a reply that is not 200, does not carry
/// the label, does not decode to the body, or does not carry the same buffer as the others.
pub fn stress(x: &X) -> X {
    let l = match x.as_l() {
        Some(l) if l.len() == 4 => l,
        _ => return X::bad(),
    };
    let (rounds, n, blen, coding) = match (l[0].as_n(), l[1].as_n(), l[2].as_n(), l[3].as_n()) {
        (Some(a), Some(b), Some(c), Some(d)) => (a as usize, b as usize, c as usize, d),
        _ => return X::bad(),
    };
    let label: &'static str = match coding {
        0 => "gzip",
        1 => "br",
        2 => "zstd",
        _ => return X::bad(),
    };
    let body: Vec<u8> = (0..blen).map(|i| b"lorem ipsum dolor sit amet "[i % 27]).collect();
    let rt = tokio::runtime::Builder::new_multi_thread().worker_threads(4).enable_all().build().unwrap();
    let mut anomalies = 0u128;
    let mut wrong = 0u128;
    let mut total = 0u128;
    for _ in 0..rounds {
        let page = Arc::new(Page { body: Bytes::from(body.clone()), ctype: Some(b"text/html".to_vec()), hce: None, status: 200, compress: true, cache: true });
        let cfg = X::L(vec![X::L(vec![X::b("cache"), X::bool(true)]), X::L(vec![X::b("disable_ims"), X::bool(true)])]);
        let page_for_handler = Arc::clone(&page);
        let customize = move |_kv: &[(String, X)], host: &mut Host, _sh: &Arc<Shared>| {
            let page = Arc::clone(&page_for_handler);
            host.extensions.add_prepare_single("/p", prepare!(_req, _host, _path, _addr, move |page: Arc<Page>| { page_response(page) }));
        };
        let built = match c00pipe::build_host(&cfg, Some(&customize)) {
            Some(b) => b,
            None => return X::bad(),
        };
        let hosts = Arc::clone(&built.hosts);
        let host_name = built.host_name.clone();
        let replies: Option<Vec<kvarn::CacheReply>> = rt.block_on(async {
            let addr = c00pipe::sockaddr(1);
            {
                let host = hosts.get_host(&host_name)?;
                let mut q = c00pipe::make_request(&host_name, b"GET", b"/p", &header_list(Some(&X::b("identity")), &[])?, b"")?;
                kvarn::handle_cache(&mut q, addr, host).await;
            }
            let barrier = Arc::new(tokio::sync::Barrier::new(n));
            let mut tasks = Vec::new();
            for _ in 0..n {
                let hosts = Arc::clone(&hosts);
                let name = host_name.clone();
                let barrier = Arc::clone(&barrier);
                let mut q = c00pipe::make_request(&host_name, b"GET", b"/p", &header_list(Some(&X::b(label)), &[])?, b"")?;
                tasks.push(tokio::spawn(async move {
                    let host = hosts.get_host(&name).unwrap();
                    barrier.wait().await;
                    kvarn::handle_cache(&mut q, addr, host).await
                }));
            }
            let mut v = Vec::new();
            for t in tasks {
                match t.await {
                    Ok(r) => v.push(r),
                    Err(e) => {
                        if let Ok(p) = e.try_into_panic() {
                            let msg = p.downcast_ref::<String>().cloned().or_else(|| p.downcast_ref::<&str>().map(|s| s.to_string()));
                            eprintln!("neg.stress: task panicked: {:?}", msg);
                        }
                        return None;
                    }
                }
            }
            Some(v)
        });
        let replies = match replies {
            Some(r) => r,
            None => return X::panic(),
        };
        let first = replies[0].response.body().clone();
        for r in &replies {
            total += 1;
            let enc = r.response.headers().get("content-encoding").map(|v| v.as_bytes().to_vec());
            let raw = r.response.body();
            let (decoded, ok) = c00pipe::decode_body(enc.as_deref(), raw);
            if r.response.status() != 200 || enc.as_deref() != Some(label.as_bytes()) || !ok || decoded[..] != body[..] {
                anomalies += 1;
                wrong += 1;
            } else if raw.as_ptr() != first.as_ptr() || raw.len() != first.len() {
                // decodes, but is another buffer than the first reply's: the cell was written more than once
                anomalies += 1;
            }
        }
    }
    X::L(vec![X::N(anomalies), X::N(total), X::N(wrong)])
}

/// neg.stream: (L (L [accept-encoding]) (N with_len)) -> (L (N status) (N future kept) (L [content-encoding]) (N body len))
/// a handler whose response carries a future (a streaming response): handle_cache never exchanges it for a 406
pub fn stream(x: &X) -> X {
    let l = match x.as_l() {
        Some(l) if l.len() == 2 => l,
        _ => return X::bad(),
    };
    let (ae, with_len) = match (l[0].as_opt(), l[1].as_bool()) {
        (Some(ae), Some(w)) => (ae, w),
        _ => return X::bad(),
    };
    let hdrs = match header_list(ae, &[]) {
        Some(h) => h,
        None => return X::bad(),
    };
    let cfg = X::L(vec![X::L(vec![X::b("cache"), X::bool(true)]), X::L(vec![X::b("disable_ims"), X::bool(true)])]);
    let customize = move |_kv: &[(String, X)], host: &mut Host, _sh: &Arc<Shared>| {
        host.extensions.add_prepare_single(
            "/s",
            prepare!(_req, _host, _path, _addr, move |with_len: bool| {
                let resp = Response::builder().status(200).header("content-type", "text/html").body(Bytes::from_static(b"head of the stream")).unwrap();
                let fut = response_pipe_fut!(_pipe, _host, {});
                let r = FatResponse::new(resp, comprash::ServerCachePreference::None);
                if *with_len {
                    r.with_future_and_len(fut, 18)
                } else {
                    r.with_future(fut)
                }
            }),
        );
    };
    let built = match c00pipe::build_host(&cfg, Some(&customize)) {
        Some(b) => b,
        None => return X::bad(),
    };
    let res = c00pipe::block_on(async {
        let host = built.hosts.get_host(&built.host_name)?;
        let mut q = c00pipe::make_request(&built.host_name, b"GET", b"/s", &hdrs, b"")?;
        let r = kvarn::handle_cache(&mut q, c00pipe::sockaddr(1), host).await;
        Some(X::L(vec![
            X::n(r.response.status().as_u16()),
            X::bool(r.future.is_some()),
            X::opt(r.response.headers().get("content-encoding").map(|v| X::b(v.as_bytes()))),
            X::n(r.response.body().len()),
        ]))
    });
    res.unwrap_or_else(X::bad)
}

pub fn dispatch(comp: &str, x: &X) -> Option<X> {
    Some(match comp {
        "neg.list_header" => crate::guarded(|| list_header(x)),
        "neg.mime" => crate::guarded(|| mime(x)),
        "neg.pipe" => crate::guarded(|| pipe(x)),
        "neg.stress" => crate::guarded(|| stress(x)),
        "neg.stream" => crate::guarded(|| stream(x)),
        _ => return None,
    })
}
