//! C02: the client-reachable helpers no other property calls directly —
//! `kvarn_utils::parse::query` + `Query`'s iterators, `comprash::PathQuery`, and (exploration)
//! `url_crawl`'s link iterators.
//! Every call runs under `crate::guarded`: a panic is the outcome `(L (N 2))`.
use crate::xval::X;
use kvarn::prelude::*;

const OOD: u128 = 96;
fn ood() -> X {
    X::L(vec![X::N(OOD)])
}

/// input: (B query) -> Ok (B display)
fn query_parse(x: &X) -> X {
    let q = match x.as_b() {
        Some(b) => b,
        None => return X::bad(),
    };
    let q = match std::str::from_utf8(q) {
        Ok(s) => s,
        Err(_) => return ood(),
    };
    crate::guarded(|| {
        let parsed = utils::parse::query(q);
        X::ok(X::b(format!("{parsed}").as_bytes()))
    })
}

/// input: (L (B query) (B name) (L step..)); step 0 = next, 1 = next_back
fn query_iter(x: &X) -> X {
    let l = match x.as_l() {
        Some(l) if l.len() == 3 => l,
        _ => return X::bad(),
    };
    let (q, name, script) = match (l[0].as_b(), l[1].as_b(), l[2].as_l()) {
        (Some(q), Some(n), Some(s)) => (q, n, s),
        _ => return X::bad(),
    };
    let (q, name) = match (std::str::from_utf8(q), std::str::from_utf8(name)) {
        (Ok(q), Ok(n)) => (q, n),
        _ => return ood(),
    };
    let mut steps = Vec::new();
    for s in script {
        match s.as_bool() {
            Some(b) => steps.push(b),
            None => return X::bad(),
        }
    }
    crate::guarded(|| {
        let parsed = utils::parse::query(q);
        let mut it = parsed.get_all(name);
        let mut out = Vec::new();
        for back in &steps {
            let v = if *back { it.next_back() } else { it.next() };
            out.push(X::opt(v.map(|p| X::b(p.value().as_bytes()))));
        }
        X::ok(X::L(out))
    })
}

/// input: (L (B path) (L [query])) -> (L path-outcome query-outcome)
fn pathquery(x: &X) -> X {
    let l = match x.as_l() {
        Some(l) if l.len() == 2 => l,
        _ => return X::bad(),
    };
    let (path, query) = match (l[0].as_b(), l[1].as_opt()) {
        (Some(p), Some(q)) => (p, q.and_then(X::as_b)),
        _ => return X::bad(),
    };
    let mut text = b"http://h".to_vec();
    text.extend_from_slice(path);
    if let Some(q) = query {
        text.push(b'?');
        text.extend_from_slice(q);
    }
    let uri = match Uri::from_maybe_shared(Bytes::from(text)) {
        Ok(u) => u,
        Err(_) => return ood(),
    };
    // only inputs the URI parser hands on unchanged
    if uri.path().as_bytes() != path || uri.query().map(str::as_bytes) != query {
        return ood();
    }
    let pq = match std::panic::catch_unwind(std::panic::AssertUnwindSafe(|| comprash::PathQuery::from(&uri))) {
        Ok(p) => p,
        Err(_) => return X::L(vec![X::panic(), X::panic()]),
    };
    let p = crate::guarded(|| X::ok(X::b(pq.path().as_bytes())));
    let q = crate::guarded(|| X::ok(X::opt(pq.query().map(|q| X::b(q.as_bytes())))));
    X::L(vec![p, q])
}

/// exploration: `url_crawl` (anchor url-crawl/src/lib.rs; the HTTP/2 push extension runs `get_urls` on every HTML page
/// it serves, the reverse proxy runs the absolute-path iterator on upstream bodies).  input: (B html)
fn explore_urls(x: &X) -> X {
    let v = match x.as_b() {
        Some(b) => b,
        None => return X::bad(),
    };
    match std::panic::catch_unwind(std::panic::AssertUnwindSafe(|| {
        let mut n = 0usize;
        if let Ok(s) = std::str::from_utf8(v) {
            n += url_crawl::get_urls(s).count();
        }
        n += url_crawl::LinkIter::new_with_aboslute_paths_filter(v).count();
        n += url_crawl::LinkIter::new(v, url_crawl::filters::resource, true).count();
        n
    })) {
        Ok(_) => X::ok(X::L(vec![])),
        Err(_) => X::L(vec![X::N(2), X::b(b"panic in url_crawl")]),
    }
}

/// input: (L (N filter) (N interdomain) (B data)) -> outcome of the items of `url_crawl::LinkIter`;
/// filter 0 = every quote, 1 = `filters::absolute_path`, 2 = `filters::resource`
fn urls_iter(x: &X) -> X {
    fn every(_: &[u8], _: usize) -> bool {
        true
    }
    let l = match x.as_l() {
        Some(l) if l.len() == 3 => l,
        _ => return X::bad(),
    };
    let (Some(f), Some(inter), Some(data)) = (l[0].as_n(), l[1].as_bool(), l[2].as_b()) else { return X::bad() };
    let filter: fn(&[u8], usize) -> bool = match f {
        1 => url_crawl::filters::absolute_path,
        2 => url_crawl::filters::resource,
        _ => every,
    };
    crate::guarded(|| {
        let items = url_crawl::LinkIter::new(data, filter, inter)
            .map(|i| match i {
                url_crawl::IterItem::Path { path, before, quote_type } => X::L(vec![
                    X::N(1),
                    X::b(path),
                    X::n(before.len()),
                    X::N(match quote_type {
                        url_crawl::QuoteType::Single => 0,
                        url_crawl::QuoteType::Double => 1,
                        url_crawl::QuoteType::Backtick => 2,
                    }),
                ]),
                url_crawl::IterItem::Last(rest) => X::L(vec![X::N(0), X::b(rest)]),
            })
            .collect();
        X::ok(X::L(items))
    })
}

/// input: (L checked (B value)) -> outcome (L (L [max_age]) no_store)
fn cc_kvarn(x: &X) -> X {
    let l = match x.as_l() {
        Some(l) if l.len() == 2 => l,
        _ => return X::bad(),
    };
    let v = match l[1].as_b() {
        Some(b) => b,
        None => return X::bad(),
    };
    if v.iter().any(|c| !((32..127).contains(c) || *c == 9)) {
        return ood();
    }
    let s = std::str::from_utf8(v).expect("ascii");
    crate::guarded(|| match utils::parse::CacheControl::from_kvarn_cache_control(s) {
        Ok(cc) => {
            // the fields are private; the public accessors: `as_freshness()` is `max_age`, `store()` is
            // `!no_store || max_age > 60` — for every value this function yields (`none`: no max-age; a lifetime: no_store
            // false) `!store()` is `no_store`
            let max_age = cc.as_freshness().map(u128::from);
            let no_store = !cc.store();
            X::ok(X::L(vec![X::opt(max_age.map(X::N)), X::bool(no_store)]))
        }
        Err(e) => {
            use utils::parse::CacheControlError::*;
            X::err(match e {
                MultipleMaxAge => 1,
                InvalidInteger => 2,
                InvalidUnit => 3,
                InvalidKeyword => 4,
                InvalidBytes => 5,
            })
        }
    })
}

pub fn dispatch(comp: &str, x: &X) -> Option<X> {
    Some(match comp {
        "query.parse" => query_parse(x),
        "query.iter" | "query.iter_v0" => query_iter(x),
        "pathquery" => pathquery(x),
        "cc.kvarn" => cc_kvarn(x),
        "explore.urls" => explore_urls(x),
        "urls.iter" => urls_iter(x),
        _ => return None,
    })
}
