//! C13: CORS — (a) `Cors::check_cors_request` called directly on constructed requests, (b) request
//! histories through the public `kvarn::handle_connection` over a loopback TCP pair, against a host
//! whose extensions are `Extensions::new()` / `Extensions::empty()` + `with_cors(rules)` /
//! `with_disallow_cors()` and marker Prepare handlers that log their invocation.
//!
//! rule     = (L path (L origin...) allow_all mclear (L method...) (L header...) cache_ms)
//!            built with the public builder: AllowList::new(ms) [.allow_all_methods() if mclear]
//!            .add_method(m)* .add_origin(o)* [.allow_all_origins()] .add_header(h)*
//! cfg      = (L base with_cors (L rule...) (L (L path spref)...) cache [site])
//! site     = (L (L (L relpath content)...) (L (L prefix spref)...) flags): the host serves files from a fixture
//!            directory (fs enabled), has Prepare extensions bound to a predicate (`add_prepare_fn`: the raw request path
//!            starts with `prefix`; earlier in the list = higher priority) and, by `flags`: 1 = a custom
//!            `status_code_cache_filter` that caches every status; 2 = every marker handler sets its own
//!            `access-control-allow-origin: *`; 4 = a Present extension (predicate: always) and a Post extension that log
//!            "P" / "T"; 8 = the port is secure (TLS; the request's own origin is https://<host>); 16 (with 8) = the
//!            client speaks HTTP/2 (the authority of the request URI is the operation's `host` header)
//! op       = (L (N 0) method target (L (L name value)...))  |  (L (N 2))  clear the response cache
//! reply    = (L status (L (L name value)...) body (L log...))
use crate::xval::X;
use kvarn::prelude::*;
use std::sync::{Arc, Mutex, OnceLock};
use std::time::Duration;

const OOD: u128 = 96;
fn ood() -> X {
    X::L(vec![X::N(OOD)])
}

const REPORT: [&str; 4] = [
    "access-control-allow-origin",
    "access-control-allow-methods",
    "access-control-allow-headers",
    "access-control-max-age",
];

fn str_of(x: &X) -> Option<String> {
    String::from_utf8(x.as_b()?.to_vec()).ok()
}

/// None = malformed input; Some(Err) = the builder panicked / value not expressible (out of domain)
fn build_rules(x: &X) -> Option<Result<Cors, ()>> {
    let mut specs = Vec::new();
    for r in x.as_l()? {
        let l = r.as_l()?;
        if l.len() != 7 {
            return None;
        }
        let path = str_of(&l[0]);
        let origins: Vec<Option<String>> = l[1].as_l()?.iter().map(str_of).collect();
        let allow_all = l[2].as_bool()?;
        let mclear = l[3].as_bool()?;
        let methods: Vec<Option<Method>> = l[4].as_l()?.iter().map(|m| m.as_b().and_then(|b| Method::from_bytes(b).ok())).collect();
        let headers: Vec<Option<HeaderName>> = l[5].as_l()?.iter().map(|h| h.as_b().and_then(|b| HeaderName::from_bytes(b).ok())).collect();
        let ms = l[6].as_n()? as u64;
        specs.push((path, origins, allow_all, mclear, methods, headers, ms));
    }
    let r = std::panic::catch_unwind(std::panic::AssertUnwindSafe(|| {
        let mut cors = Cors::empty();
        for (path, origins, allow_all, mclear, methods, headers, ms) in specs {
            let mut al = CorsAllowList::new(Duration::from_millis(ms));
            if mclear {
                al = al.allow_all_methods();
            }
            for m in methods {
                al = al.add_method(m.expect("method"));
            }
            for o in origins {
                al = al.add_origin(o.expect("origin"));
            }
            if allow_all {
                al = al.allow_all_origins();
            }
            for h in headers {
                al = al.add_header(h.expect("header"));
            }
            cors.add_mut(path.expect("path"), al);
        }
        cors
    }));
    Some(r.map_err(|_| ()))
}

// ---------------------------------------------------------------------------------------------
// (a) direct calls
// ---------------------------------------------------------------------------------------------
/// input: (L rules (L (L method scheme authority path (L origin?)) ...)); output (L (N 0) (L res...)),
/// res = (L) | (L (L methods (L header...) secs nanos)), methods = (L) all | (L (L m...))
fn check(x: &X) -> X {
    let l = match x.as_l() {
        Some(l) if l.len() == 2 => l,
        _ => return X::bad(),
    };
    let cors = match build_rules(&l[0]) {
        None => return X::bad(),
        Some(Err(())) => return ood(),
        Some(Ok(c)) => c,
    };
    let mut out = Vec::new();
    for p in match l[1].as_l() { Some(p) => p, None => return X::bad() } {
        let p = match p.as_l() {
            Some(p) if p.len() == 5 => p,
            _ => return X::bad(),
        };
        let (m, sch, au, pa, o) = match (p[0].as_b(), p[1].as_b(), p[2].as_b(), p[3].as_b(), p[4].as_opt()) {
            (Some(m), Some(s), Some(a), Some(pa), Some(o)) => (m, s, a, pa, o),
            _ => return X::bad(),
        };
        let mut u = sch.to_vec();
        u.extend_from_slice(b"://");
        u.extend_from_slice(au);
        u.extend_from_slice(pa);
        let mut b = match (Method::from_bytes(m), Uri::try_from(&u[..])) {
            (Ok(m), Ok(u)) => Request::builder().method(m).uri(u),
            _ => return ood(),
        };
        if let Some(o) = o {
            match o.as_b().map(HeaderValue::from_bytes) {
                Some(Ok(v)) => b = b.header("origin", v),
                Some(Err(_)) => return ood(),
                None => return X::bad(),
            }
        }
        let req = match b.body(()) {
            Ok(r) => r,
            Err(_) => return ood(),
        };
        out.push(crate::guarded(|| match cors.check_cors_request(&req) {
            None => X::L(vec![]),
            Some((methods, headers, dur)) => {
                let ms = match methods {
                    kvarn::cors::MethodAllowList::All => X::L(vec![]),
                    kvarn::cors::MethodAllowList::Selected(l) => X::L(vec![X::L(l.iter().map(|m| X::b(m.as_str())).collect())]),
                };
                X::L(vec![X::L(vec![
                    ms,
                    X::L(headers.iter().map(|h| X::b(h.as_str())).collect()),
                    X::n(dur.as_secs()),
                    X::n(dur.subsec_nanos()),
                ])])
            }
        }));
    }
    X::L(vec![X::N(0), X::L(out)])
}

// ---------------------------------------------------------------------------------------------
// (b) loopback histories
// ---------------------------------------------------------------------------------------------
fn rt() -> &'static tokio::runtime::Runtime {
    static RT: OnceLock<tokio::runtime::Runtime> = OnceLock::new();
    RT.get_or_init(|| {
        tokio::runtime::Builder::new_multi_thread()
            .worker_threads(2)
            .enable_all()
            .build()
            .expect("tokio runtime")
    })
}

trait Io: tokio::io::AsyncRead + tokio::io::AsyncWrite + Unpin + Send {}
impl<S: tokio::io::AsyncRead + tokio::io::AsyncWrite + Unpin + Send> Io for S {}

// TLS material (self-signed certificate for "localhost"), as in c20.rs
struct Tls {
    key: Arc<rustls::sign::CertifiedKey>,
    client_h1: Arc<rustls::ClientConfig>,
    client_h2: Arc<rustls::ClientConfig>,
}
fn tls() -> &'static Tls {
    static TLS: OnceLock<Tls> = OnceLock::new();
    TLS.get_or_init(|| {
        use rustls::pki_types::PrivateKeyDer;
        let provider = Arc::new(rustls::crypto::ring::default_provider());
        let ss = rcgen::generate_simple_self_signed(vec!["localhost".to_string()]).expect("self-signed certificate");
        let cert = ss.cert.der().clone();
        let pk = PrivateKeyDer::Pkcs8(ss.key_pair.serialized_der().to_vec().into());
        let pk = rustls::crypto::ring::sign::any_supported_type(&pk).expect("key type");
        let key = Arc::new(rustls::sign::CertifiedKey::new(vec![cert.clone()], pk));
        let mut roots = rustls::RootCertStore::empty();
        roots.add(cert).expect("root");
        let mk = |alpn: &[u8]| {
            let mut c = rustls::ClientConfig::builder_with_provider(provider.clone())
                .with_safe_default_protocol_versions()
                .expect("versions")
                .with_root_certificates(roots.clone())
                .with_no_client_auth();
            c.alpn_protocols = vec![alpn.to_vec()];
            Arc::new(c)
        };
        Tls { key, client_h1: mk(b"http/1.1"), client_h2: mk(b"h2") }
    })
}
fn io_err(kind: std::io::ErrorKind, what: impl Into<String>) -> std::io::Error {
    std::io::Error::new(kind, what.into())
}

/// transport: 0 = HTTP/1.1 on an unsecured port, 1 = HTTP/1.1 over TLS, 2 = HTTP/2 over TLS
struct Client {
    stream: Option<Box<dyn Io>>,
    h2: Option<h2::client::SendRequest<Bytes>>,
    transport: u8,
    desc: Arc<PortDescriptor>,
}
struct Reply {
    status: u16,
    headers: Vec<(String, Vec<u8>)>,
    body: Vec<u8>,
}
impl Client {
    async fn tcp(&self) -> std::io::Result<tokio::net::TcpStream> {
        let listener = tokio::net::TcpListener::bind("127.0.0.1:0").await?;
        let addr = listener.local_addr()?;
        let client = tokio::net::TcpStream::connect(addr).await?;
        let (server_end, peer) = listener.accept().await?;
        let desc = self.desc.clone();
        tokio::spawn(async move {
            let _ = kvarn::handle_connection(kvarn::Incoming::Tcp(server_end), peer, desc, || true).await;
        });
        let _ = client.set_nodelay(true);
        Ok(client)
    }
    async fn tls(&self, cfg: Arc<rustls::ClientConfig>) -> std::io::Result<tokio_rustls::client::TlsStream<tokio::net::TcpStream>> {
        let tcp = self.tcp().await?;
        let name = rustls::pki_types::ServerName::try_from("localhost").unwrap();
        match tokio::time::timeout(Duration::from_secs(10), tokio_rustls::TlsConnector::from(cfg).connect(name, tcp)).await {
            Ok(r) => r,
            Err(_) => Err(io_err(std::io::ErrorKind::TimedOut, "TLS handshake")),
        }
    }
    async fn connect(&mut self) -> std::io::Result<()> {
        match self.transport {
            0 => self.stream = Some(Box::new(self.tcp().await?)),
            1 => self.stream = Some(Box::new(self.tls(tls().client_h1.clone()).await?)),
            _ => {
                let s = self.tls(tls().client_h2.clone()).await?;
                let hs = tokio::time::timeout(Duration::from_secs(10), h2::client::Builder::new().handshake::<_, Bytes>(s)).await;
                let (send, conn) = match hs {
                    Ok(Ok(p)) => p,
                    Ok(Err(e)) => return Err(io_err(std::io::ErrorKind::Other, format!("h2 handshake: {e}"))),
                    Err(_) => return Err(io_err(std::io::ErrorKind::TimedOut, "h2 handshake")),
                };
                tokio::spawn(async move {
                    let _ = conn.await;
                });
                self.h2 = Some(send);
            }
        }
        Ok(())
    }
    fn reset(&mut self) {
        self.stream = None;
        self.h2 = None;
    }
    /// One request on the HTTP/2 connection: the authority of the request URI is the `host` header of the operation
    /// (no `host` header is sent).  None = the stream was reset by the server.
    async fn exchange_h2(&mut self, method: &[u8], target: &[u8], headers: &[(Vec<u8>, Vec<u8>)]) -> std::io::Result<Option<Reply>> {
        if self.h2.is_none() {
            self.connect().await?;
        }
        let bad = |what: String| io_err(std::io::ErrorKind::InvalidInput, what);
        let host = headers.iter().rev().find(|(n, _)| n == b"host").map(|(_, v)| v.clone()).unwrap_or_else(|| b"localhost".to_vec());
        let mut uri = b"https://".to_vec();
        uri.extend_from_slice(&host);
        uri.extend_from_slice(target);
        let mut b = Request::builder()
            .method(Method::from_bytes(method).map_err(|e| bad(e.to_string()))?)
            .uri(Uri::try_from(&uri[..]).map_err(|e| bad(e.to_string()))?);
        for (n, v) in headers {
            if n == b"host" {
                continue;
            }
            b = b.header(HeaderName::from_bytes(n).map_err(|e| bad(e.to_string()))?, HeaderValue::from_bytes(v).map_err(|e| bad(e.to_string()))?);
        }
        let req = b.body(()).map_err(|e| bad(e.to_string()))?;
        let send = self.h2.clone().unwrap();
        let t = Duration::from_secs(8);
        let mut send = match tokio::time::timeout(t, send.ready()).await {
            Ok(Ok(s)) => s,
            Ok(Err(e)) => return Err(io_err(std::io::ErrorKind::Other, format!("h2 ready: {e}"))),
            Err(_) => return Err(io_err(std::io::ErrorKind::TimedOut, "h2 ready")),
        };
        let (resp, _stream) = send.send_request(req, true).map_err(|e| io_err(std::io::ErrorKind::Other, format!("h2 send: {e}")))?;
        let resp = match tokio::time::timeout(t, resp).await {
            Err(_) => return Err(io_err(std::io::ErrorKind::TimedOut, "no h2 response head")),
            Ok(Err(e)) if e.is_reset() && e.is_remote() => return Ok(None),
            Ok(Err(e)) => return Err(io_err(std::io::ErrorKind::Other, format!("h2 response: {e}"))),
            Ok(Ok(r)) => r,
        };
        let (parts, mut body) = resp.into_parts();
        let mut data = Vec::new();
        loop {
            match tokio::time::timeout(t, body.data()).await {
                Err(_) => return Err(io_err(std::io::ErrorKind::TimedOut, "no h2 body")),
                Ok(None) => break,
                Ok(Some(Err(e))) => return Err(io_err(std::io::ErrorKind::Other, format!("h2 body: {e}"))),
                Ok(Some(Ok(chunk))) => {
                    let _ = body.flow_control().release_capacity(chunk.len());
                    data.extend_from_slice(&chunk);
                }
            }
        }
        let headers = parts.headers.iter().map(|(n, v)| (n.as_str().to_string(), v.as_bytes().to_vec())).collect();
        Ok(Some(Reply { status: parts.status.as_u16(), headers, body: data }))
    }
    /// Sends one request; reads one framed response.  None = closed without an answer.
    async fn exchange(&mut self, method: &[u8], target: &[u8], headers: &[(Vec<u8>, Vec<u8>)]) -> std::io::Result<Option<Reply>> {
        use tokio::io::{AsyncReadExt, AsyncWriteExt};
        if self.transport == 2 {
            return self.exchange_h2(method, target, headers).await;
        }
        if self.stream.is_none() {
            self.connect().await?;
        }
        let s = self.stream.as_mut().unwrap();
        let mut req = Vec::new();
        req.extend_from_slice(method);
        req.push(b' ');
        req.extend_from_slice(target);
        req.extend_from_slice(b" HTTP/1.1\r\n");
        for (n, v) in headers {
            req.extend_from_slice(n);
            req.extend_from_slice(b": ");
            req.extend_from_slice(v);
            req.extend_from_slice(b"\r\n");
        }
        req.extend_from_slice(b"\r\n");
        s.write_all(&req).await?;
        let mut buf = Vec::new();
        let mut tmp = [0u8; 4096];
        let head_end;
        loop {
            if let Some(p) = buf.windows(4).position(|w| w == b"\r\n\r\n") {
                head_end = p + 4;
                break;
            }
            let n = match tokio::time::timeout(Duration::from_secs(8), s.read(&mut tmp)).await {
                Ok(Ok(n)) => n,
                Ok(Err(e)) if e.kind() == std::io::ErrorKind::ConnectionReset => 0,
                Ok(Err(e)) => return Err(e),
                Err(_) => return Err(std::io::Error::new(std::io::ErrorKind::TimedOut, "no response head")),
            };
            if n == 0 {
                self.stream = None;
                return if buf.is_empty() { Ok(None) } else { Err(std::io::Error::new(std::io::ErrorKind::UnexpectedEof, "partial head")) };
            }
            buf.extend_from_slice(&tmp[..n]);
        }
        let mut lines = buf[..head_end - 4].split(|c| *c == b'\n');
        let status_line = String::from_utf8_lossy(lines.next().unwrap_or(b"")).into_owned();
        let status: u16 = status_line.split(' ').nth(1).and_then(|s| s.trim().parse().ok()).unwrap_or(0);
        let mut hs = Vec::new();
        for l in lines {
            let l = l.strip_suffix(b"\r").unwrap_or(l);
            if let Some(c) = l.iter().position(|c| *c == b':') {
                let name = String::from_utf8_lossy(&l[..c]).to_ascii_lowercase();
                let mut v = &l[c + 1..];
                while v.first() == Some(&b' ') {
                    v = &v[1..];
                }
                hs.push((name, v.to_vec()));
            }
        }
        let get = |n: &str| hs.iter().find(|(k, _)| k == n).map(|(_, v)| String::from_utf8_lossy(v).into_owned());
        let len: usize = if method == b"HEAD" || status == 204 || status == 304 {
            0
        } else {
            get("content-length").and_then(|v| v.trim().parse().ok()).unwrap_or(0)
        };
        let close = get("connection").map_or(false, |v| v.to_ascii_lowercase().contains("close"));
        while buf.len() < head_end + len {
            let n = match tokio::time::timeout(Duration::from_secs(8), s.read(&mut tmp)).await {
                Ok(Ok(n)) => n,
                Ok(Err(e)) => return Err(e),
                Err(_) => return Err(std::io::Error::new(std::io::ErrorKind::TimedOut, "no response body")),
            };
            if n == 0 {
                return Err(std::io::Error::new(std::io::ErrorKind::UnexpectedEof, "partial body"));
            }
            buf.extend_from_slice(&tmp[..n]);
        }
        if buf.len() > head_end + len {
            // unexpected extra bytes: resynchronise on a fresh connection
            self.stream = None;
        }
        let body = buf[head_end..head_end + len].to_vec();
        if close {
            self.stream = None;
        }
        Ok(Some(Reply { status, headers: hs, body }))
    }
}

enum Op {
    Req(Vec<u8>, Vec<u8>, Vec<(Vec<u8>, Vec<u8>)>),
    Clear,
}

struct Site {
    files: Vec<(String, Vec<u8>)>,
    fns: Vec<(Vec<u8>, u128)>,
    flags: u128,
}
fn parse_site(x: &X) -> Option<Site> {
    let l = x.as_l()?;
    if l.len() != 3 {
        return None;
    }
    let mut files = Vec::new();
    for f in l[0].as_l()? {
        match f.as_l()? {
            [X::B(p), X::B(c)] => files.push((String::from_utf8(p.clone()).ok()?, c.clone())),
            _ => return None,
        }
    }
    let mut fns = Vec::new();
    for f in l[1].as_l()? {
        match f.as_l()? {
            [X::B(p), X::N(sp)] => fns.push((p.clone(), *sp)),
            _ => return None,
        }
    }
    Some(Site { files, fns, flags: l[2].as_n()? })
}
fn cache_everything(_: StatusCode) -> host::CacheAction {
    host::CacheAction::Cache
}
fn spref_of(n: u128) -> comprash::ServerCachePreference {
    match n {
        0 => comprash::ServerCachePreference::None,
        1 => comprash::ServerCachePreference::QueryMatters,
        _ => comprash::ServerCachePreference::Full,
    }
}
fn marker_response(tag: char, idx: usize, spref: u128, own_acao: bool, req: &FatRequest) -> FatResponse {
    let body = format!("{}{}:{}", tag, idx, req.uri().path());
    let mut resp = Response::new(Bytes::from(body.into_bytes()));
    if own_acao {
        resp.headers_mut().insert("access-control-allow-origin", HeaderValue::from_static("*"));
    }
    FatResponse::new(resp, spref_of(spref))
}

fn conn(x: &X) -> X {
    let l = match x.as_l() {
        Some(l) if l.len() == 2 => l,
        _ => return X::bad(),
    };
    let cfg = match l[0].as_l() {
        Some(c) if c.len() == 5 || c.len() == 6 => c,
        _ => return X::bad(),
    };
    let site = match cfg.get(5) {
        None => None,
        Some(s) => match parse_site(s) {
            Some(s) => Some(s),
            None => return X::bad(),
        },
    };
    let (base, with_cors, cache) = match (cfg[0].as_n(), cfg[1].as_bool(), cfg[4].as_bool()) {
        (Some(b), Some(w), Some(c)) => (b, w, c),
        _ => return X::bad(),
    };
    let cors = match build_rules(&cfg[2]) {
        None => return X::bad(),
        Some(Err(())) => return ood(),
        Some(Ok(c)) => c,
    };
    let mut handlers: Vec<(String, u128)> = Vec::new();
    for h in match cfg[3].as_l() { Some(h) => h, None => return X::bad() } {
        match h.as_l() {
            Some([p, X::N(sp)]) => match str_of(p) {
                Some(p) => handlers.push((p, *sp)),
                None => return ood(),
            },
            _ => return X::bad(),
        }
    }
    let mut ops = Vec::new();
    for o in match l[1].as_l() { Some(o) => o, None => return X::bad() } {
        match o.as_l() {
            Some([X::N(0), X::B(m), X::B(t), X::L(hs)]) => {
                let mut v = Vec::new();
                for h in hs {
                    match h.as_l() {
                        Some([X::B(n), X::B(val)]) => v.push((n.clone(), val.clone())),
                        _ => return X::bad(),
                    }
                }
                ops.push(Op::Req(m.clone(), t.clone(), v));
            }
            Some([X::N(2)]) => ops.push(Op::Clear),
            _ => return X::bad(),
        }
    }
    // a harness failure (loopback I/O error or timeout) is not a verdict: run the scenario again on a fresh host
    let mut cors = Some(cors);
    for attempt in 0..3 {
        let c = match cors.take() {
            Some(c) => c,
            None => match build_rules(&cfg[2]) {
                Some(Ok(c)) => c,
                _ => return X::bad(),
            },
        };
        let (out, failed) = run_once(base, with_cors, cache, c, &handlers, site.as_ref(), &ops);
        if !failed || attempt == 2 {
            return X::L(vec![X::N(0), X::L(out)]);
        }
    }
    X::bad()
}

fn run_once(base: u128, with_cors: bool, cache: bool, cors: Cors, handlers: &[(String, u128)], site: Option<&Site>, ops: &[Op]) -> (Vec<X>, bool) {
    let log: Arc<Mutex<Vec<Vec<u8>>>> = Arc::new(Mutex::new(Vec::new()));
    let mut ext = if base == 0 { Extensions::new() } else { Extensions::empty() };
    if with_cors {
        ext.with_cors(cors.arc());
    } else {
        ext.with_disallow_cors();
    }
    let flags = site.map_or(0, |s| s.flags);
    let own_acao = flags & 2 != 0;
    for (i, (path, spref)) in handlers.iter().enumerate() {
        let lg = Arc::clone(&log);
        let idx = Arc::new((i, *spref, own_acao));
        ext.add_prepare_single(
            path,
            prepare!(req, _host, _path, _addr, move |lg: Arc<Mutex<Vec<Vec<u8>>>>, idx: Arc<(usize, u128, bool)>| {
                lg.lock().unwrap().push(format!("h{}", idx.0).into_bytes());
                marker_response('h', idx.0, idx.1, idx.2, req)
            }),
        );
    }
    let posts = Arc::new(std::sync::atomic::AtomicUsize::new(0));
    let mut dir = None;
    if let Some(site) = site {
        let n = site.fns.len() as i32;
        for (i, (prefix, spref)) in site.fns.iter().enumerate() {
            let lg = Arc::clone(&log);
            let idx = Arc::new((i, *spref, own_acao));
            let pre = prefix.clone();
            ext.add_prepare_fn(
                Box::new(move |req, _| req.uri().path().as_bytes().starts_with(&pre)),
                prepare!(req, _host, _path, _addr, move |lg: Arc<Mutex<Vec<Vec<u8>>>>, idx: Arc<(usize, u128, bool)>| {
                    lg.lock().unwrap().push(format!("f{}", idx.0).into_bytes());
                    marker_response('f', idx.0, idx.1, idx.2, req)
                }),
                extensions::Id::new(7000 + n - i as i32, "verif marker"),
            );
        }
        if flags & 4 != 0 {
            let lg = Arc::clone(&log);
            ext.add_present_fn(
                Box::new(|_, _| true),
                present!(_data, move |lg: Arc<Mutex<Vec<Vec<u8>>>>| {
                    lg.lock().unwrap().push(b"P".to_vec());
                }),
                extensions::Id::new(7000, "verif present marker"),
            );
            let lg = Arc::clone(&log);
            let ps = Arc::clone(&posts);
            ext.add_post(
                post!(_req, _host, _pipe, _bytes, _addr, move |lg: Arc<Mutex<Vec<Vec<u8>>>>, ps: Arc<std::sync::atomic::AtomicUsize>| {
                    lg.lock().unwrap().push(b"T".to_vec());
                    ps.fetch_add(1, std::sync::atomic::Ordering::SeqCst);
                }),
                extensions::Id::new(7000, "verif post marker"),
            );
        }
        // fixture directory: <dir>/public/<relpath>
        static N: std::sync::atomic::AtomicUsize = std::sync::atomic::AtomicUsize::new(0);
        let d = std::env::temp_dir().join(format!(
            "kvarn-verif-c13-{}-{}",
            std::process::id(),
            N.fetch_add(1, std::sync::atomic::Ordering::SeqCst)
        ));
        let mut ok = std::fs::create_dir_all(d.join("public")).is_ok();
        for (rel, content) in &site.files {
            let full = d.join("public").join(rel);
            ok = ok && full.parent().map_or(false, |p| std::fs::create_dir_all(p).is_ok()) && std::fs::write(&full, content).is_ok();
        }
        if !ok {
            let _ = std::fs::remove_dir_all(&d);
            return (vec![X::L(vec![X::N(93), X::b("fixture directory")])], true);
        }
        dir = Some(d);
    }
    let mut options = host::Options::new();
    if site.is_none() {
        options.disable_fs();
    }
    if flags & 1 != 0 {
        options.status_code_cache_filter = cache_everything;
    }
    let host_path = dir.as_ref().map_or("/nonexistent-kvarn-verif".to_string(), |d| d.to_string_lossy().into_owned());
    let mut host = Host::unsecure("localhost", host_path, ext, options);
    host.limiter.disable();
    if !cache {
        host.disable_response_cache();
    }
    // flags 8: the port is secure (TLS), 16: the client speaks HTTP/2
    let transport: u8 = if flags & 8 == 0 { 0 } else if flags & 16 == 0 { 1 } else { 2 };
    if transport != 0 {
        *host.certificate.write().unwrap() = Some(tls().key.clone());
    }
    let coll = HostCollection::builder().default(host).build();
    let desc = Arc::new(if transport == 0 { PortDescriptor::unsecure(8080, Arc::clone(&coll)) } else { PortDescriptor::new(8080, Arc::clone(&coll)) });
    let failed = Arc::new(std::sync::atomic::AtomicBool::new(false));
    let failed2 = Arc::clone(&failed);
    let out = rt().block_on(async move {
        let mut client = Client { stream: None, h2: None, transport, desc };
        let mut out = Vec::new();
        for op in ops {
            match op {
                Op::Clear => {
                    coll.clear_response_caches(None).await;
                    out.push(X::L(vec![]));
                }
                Op::Req(m, t, hs) => {
                    log.lock().unwrap().clear();
                    let before = posts.load(std::sync::atomic::Ordering::SeqCst);
                    let mut r = client.exchange(m, t, hs).await;
                    if flags & 4 != 0 && matches!(r, Ok(Some(_))) {
                        // the Post extension runs after the response is written: wait for it (bounded)
                        let t0 = std::time::Instant::now();
                        while posts.load(std::sync::atomic::Ordering::SeqCst) == before {
                            if t0.elapsed() > Duration::from_secs(8) {
                                r = Err(std::io::Error::new(std::io::ErrorKind::TimedOut, "post extension not seen"));
                                break;
                            }
                            tokio::time::sleep(Duration::from_millis(2)).await;
                        }
                    }
                    let lg: Vec<X> = log.lock().unwrap().iter().map(X::b).collect();
                    out.push(match r {
                        Err(e) => {
                            failed2.store(true, std::sync::atomic::Ordering::SeqCst);
                            client.reset();
                            X::L(vec![X::N(93), X::b(format!("{:?}", e.kind()))])
                        }
                        Ok(None) => X::L(vec![X::N(0), X::L(vec![]), X::b(""), X::L(lg)]),
                        Ok(Some(rep)) => {
                            let mut hv = Vec::new();
                            for n in REPORT {
                                for (k, v) in &rep.headers {
                                    if k == n {
                                        hv.push(X::L(vec![X::b(n), X::b(v)]));
                                    }
                                }
                            }
                            X::L(vec![X::n(rep.status), X::L(hv), X::b(crate::c00pipe::canon_body(&rep.body)), X::L(lg)])
                        }
                    });
                }
            }
        }
        out
    });
    if let Some(d) = dir {
        let _ = std::fs::remove_dir_all(d);
    }
    (out, failed.load(std::sync::atomic::Ordering::SeqCst))
}

/// input: (L (B bytes)...); output: (L res...), res = (L) parse error | (L (L scheme?) (L host?) (L port?))
fn parse_uris(x: &X) -> X {
    let l = match x.as_l() {
        Some(l) => l,
        None => return X::bad(),
    };
    let mut out = Vec::new();
    for b in l {
        let b = match b.as_b() {
            Some(b) => b,
            None => return X::bad(),
        };
        out.push(crate::guarded(|| match Uri::try_from(b) {
            Err(_) => X::L(vec![]),
            Ok(u) => X::L(vec![
                X::opt(u.scheme_str().map(X::b)),
                X::opt(u.host().map(X::b)),
                X::opt(u.port_u16().map(X::n)),
            ]),
        }));
    }
    X::L(out)
}

pub fn dispatch(comp: &str, x: &X) -> Option<X> {
    Some(match comp {
        "cors.parse" => parse_uris(x),
        "cors.check" => check(x),
        "cors.conn" | "cors.conn_nocache" => conn(x),
        _ => return None,
    })
}
