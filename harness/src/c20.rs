//! C20: the same requests through an HTTP/1.1 client and an HTTP/2 client (TLS, ALPN `h2`) against
//! identical hosts served by the real `kvarn::handle_connection`, and bursts of concurrent streams
//! on one HTTP/2 connection.
//!
//! The server end of a loopback TCP pair is handed to `kvarn::handle_connection` with a
//! `PortDescriptor::new` (rustls `ServerConfig` from `HostCollection::make_config`, ALPN from
//! `host::alpn()`; the host carries a self-signed certificate made by `rcgen`, as
//! `kvarn_testing::ServerBuilder` does) or `PortDescriptor::unsecure`.  The clients are written here:
//! a raw HTTP/1.1 client with strict framing (over `tokio-rustls` with ALPN `http/1.1`, or plain TCP)
//! and the `h2` crate's client over `tokio-rustls` with ALPN `h2`.
//!
//! request  = (L method target headers body)
//! cfg      = (L c00cfg (L request ...))          c00cfg: c00pipe keys + pkg, slow, echo, echon
//! wire     = (L (N 0) (L (N 0) (L version status headers body)))   headers sorted, `last-modified` value masked
//!          | (L (N 0) (L (N 3)))                 the HTTP/2 stream was reset without a response head
//!          | (L (N 0) (L (N 5) (L version status headers body)))   HTTP/1.1: the response said `connection: close` and the
//!                                                server ended the connection after it (a body without `content-length` is
//!                                                everything up to that end)
//!
//! proto.l4     (L c00cfg (L request ...) mode)   -> (L err416 (L (L version status headers body sdclass) ...))
//!              in-process `kvarn::handle_cache`: mode 0 = one fresh host, the requests in order; mode 1 = a fresh host each
//! proto.pair   (L checked cfg pkg alt err416 exchanges secure1) -> (L (L wire_h1 wire_h2) ...)
//!              the history on host A over one HTTP/1.1 connection, on an identical host B over one HTTP/2 connection
//! proto.answered same input -> (L h1 h2): was every request of the history answered (and the framing intact) on each protocol
//! proto.server same input and output as proto.pair, but through two complete servers started by `RunConfig::execute` on
//!              loopback ports (listener, accept loop, TLS + ALPN, connection tasks, graceful shutdown afterwards)
//! proto.burst  (L checked cfg pkg alt err416 exchanges streams sched) -> (L (L sid wire) ...)
//!              all requests at once as streams of ONE HTTP/2 connection, one fresh host
//! proto.burst1 the same burst over as many concurrent HTTP/1.1 (TLS) connections
//! proto.alone / proto.alone1: every request alone on its own fresh host (HTTP/2 / HTTP/1.1 over TLS)
use crate::c00pipe;
use crate::xval::X;
use bytes::Bytes;
use kvarn::prelude::*;
use std::sync::{Arc, OnceLock};
use std::time::Duration;
use tokio::io::{AsyncRead, AsyncReadExt, AsyncWrite, AsyncWriteExt};

const T: Duration = Duration::from_secs(15);
const PORT: u16 = 8443;
const SENTINEL: &[u8] = b"SENTINEL-OK";
/// pseudo header of a request (never sent): the HTTP/1.1 client writes the body this many ms after the head
const LATE: &[u8] = b"x-c20-late-body";
static TIMEOUTS: std::sync::atomic::AtomicU32 = std::sync::atomic::AtomicU32::new(0);
fn read_timeout() -> Duration {
    if TIMEOUTS.load(std::sync::atomic::Ordering::Relaxed) >= 2 {
        Duration::from_secs(3)
    } else {
        T
    }
}
fn timed_out(what: &str) -> String {
    TIMEOUTS.fetch_add(1, std::sync::atomic::Ordering::Relaxed);
    format!("timeout: {what}")
}

fn rt() -> &'static tokio::runtime::Runtime {
    static RT: OnceLock<tokio::runtime::Runtime> = OnceLock::new();
    RT.get_or_init(|| tokio::runtime::Builder::new_multi_thread().worker_threads(3).enable_all().build().expect("tokio runtime"))
}

// -------------------------------------------------------------------------------------------
// TLS material
// -------------------------------------------------------------------------------------------
struct Tls {
    key: Arc<rustls::sign::CertifiedKey>,
    client_h1: Arc<rustls::ClientConfig>,
    client_h2: Arc<rustls::ClientConfig>,
}
fn tls() -> &'static Tls {
    static TLS: OnceLock<Tls> = OnceLock::new();
    TLS.get_or_init(|| {
        use rustls::pki_types::PrivateKeyDer;
        let provider = Arc::new(rustls::crypto::ring::default_provider());
        let ss = rcgen::generate_simple_self_signed(vec!["localhost".to_string()]).expect("self-signed certificate");
        let cert = ss.cert.der().clone();
        let pk = PrivateKeyDer::Pkcs8(ss.key_pair.serialized_der().to_vec().into());
        let pk = rustls::crypto::ring::sign::any_supported_type(&pk).expect("key type");
        let key = Arc::new(rustls::sign::CertifiedKey::new(vec![cert.clone()], pk));
        let mut roots = rustls::RootCertStore::empty();
        roots.add(cert).expect("root");
        let mk = |alpn: &[u8]| {
            let mut c = rustls::ClientConfig::builder_with_provider(provider.clone())
                .with_safe_default_protocol_versions()
                .expect("versions")
                .with_root_certificates(roots.clone())
                .with_no_client_auth();
            c.alpn_protocols = vec![alpn.to_vec()];
            Arc::new(c)
        };
        Tls { key, client_h1: mk(b"http/1.1"), client_h2: mk(b"h2") }
    })
}

// -------------------------------------------------------------------------------------------
// host
// -------------------------------------------------------------------------------------------
fn kv_get<'a>(kv: &'a [(String, X)], k: &str) -> Option<&'a X> {
    kv.iter().find(|(n, _)| n == k).map(|(_, v)| v)
}

fn customize(kv: &[(String, X)], host: &mut Host, _shared: &Arc<c00pipe::Shared>) {
    *host.certificate.write().unwrap() = Some(tls().key.clone());
    // the sentinel page
    host.extensions.add_prepare_single(
        "/s",
        prepare!(_req, _host, _path, _addr, {
            FatResponse::new(Response::new(Bytes::from_static(SENTINEL)), comprash::ServerCachePreference::None)
                .with_compress(comprash::CompressPreference::None)
        }),
    );
    // Package menu: (L prio kind name value)
    if let Some(ops) = kv_get(kv, "pkg").and_then(X::as_l) {
        for op in ops {
            let Some([prio, kind, name, value]) = op.as_l() else { continue };
            let (Some(prio), Some(kind), Some(name), Some(value)) = (prio.as_z(), kind.as_n(), name.as_b(), value.as_b()) else { continue };
            let (Ok(name), Ok(value)) = (HeaderName::from_bytes(name), HeaderValue::from_bytes(value)) else { continue };
            host.extensions.add_package(
                package!(response, _, _, _, move |kind: u128, name: HeaderName, value: HeaderValue| {
                    let h = response.headers_mut();
                    match *kind {
                        0 => {
                            h.insert(name.clone(), value.clone());
                        }
                        1 => {
                            h.entry(name.clone()).or_insert(value.clone());
                        }
                        2 => {
                            h.remove(name.clone());
                        }
                        _ => {
                            h.append(name.clone(), value.clone());
                        }
                    }
                }),
                extensions::Id::new(prio as i32, "c20 package menu"),
            );
        }
    }
    // H_slow: (L path body spref) — sleeps `x-delay` ms of the request, answers body ++ path
    if let Some(hs) = kv_get(kv, "slow").and_then(X::as_l) {
        for h in hs {
            let Some([path, body, spref]) = h.as_l() else { continue };
            let (Some(path), Some(body), Some(spref)) = (path.as_b(), body.as_b(), spref.as_n()) else { continue };
            let body = body.to_vec();
            host.extensions.add_prepare_single(
                c00pipe::leak(path),
                prepare!(req, _host, _path, _addr, move |body: Vec<u8>, spref: u128| {
                    let ms = req.headers().get("x-delay").and_then(|v| v.to_str().ok()).and_then(|s| s.parse::<u64>().ok()).unwrap_or(0);
                    if ms > 0 {
                        tokio::time::sleep(Duration::from_millis(ms)).await;
                    }
                    let mut b = body.clone();
                    b.extend_from_slice(req.uri().path().as_bytes());
                    let sp = match *spref {
                        0 => comprash::ServerCachePreference::None,
                        1 => comprash::ServerCachePreference::QueryMatters,
                        _ => comprash::ServerCachePreference::Full,
                    };
                    let mut resp = Response::new(Bytes::from(b));
                    resp.headers_mut().insert("content-type", HeaderValue::from_static("text/plain"));
                    FatResponse::new(resp, sp).with_compress(comprash::CompressPreference::None)
                }),
            );
        }
    }
    // echo: answers "<METHOD>:" ++ request body (never cached)
    if let Some(hs) = kv_get(kv, "echo").and_then(X::as_l) {
        for h in hs {
            let Some(path) = h.as_b() else { continue };
            host.extensions.add_prepare_single(
                c00pipe::leak(path),
                prepare!(req, _host, _path, _addr, {
                    let mut b = req.method().as_str().as_bytes().to_vec();
                    b.push(b':');
                    match req.body_mut().read_to_bytes(1 << 20).await {
                        Ok(data) => b.extend_from_slice(&data),
                        Err(_) => b.extend_from_slice(b"<body read error>"),
                    }
                    let mut resp = Response::new(Bytes::from(b));
                    resp.headers_mut().insert("content-type", HeaderValue::from_static("text/plain"));
                    FatResponse::new(resp, comprash::ServerCachePreference::None).with_compress(comprash::CompressPreference::None)
                }),
            );
        }
    }
    // echon: (L path limit) — answers "<METHOD>:" ++ the first `limit` bytes of the request body (`read_to_bytes(limit)`):
    // the rest of the body is left unread
    if let Some(hs) = kv_get(kv, "echon").and_then(X::as_l) {
        for h in hs {
            let Some([path, limit]) = h.as_l() else { continue };
            let (Some(path), Some(limit)) = (path.as_b(), limit.as_n()) else { continue };
            host.extensions.add_prepare_single(
                c00pipe::leak(path),
                prepare!(req, _host, _path, _addr, move |limit: u128| {
                    let mut b = req.method().as_str().as_bytes().to_vec();
                    b.push(b':');
                    // what `read_to_bytes(limit)` REALLY returns on a connection is echoed uncut; only the in-memory
                    // `Body::Bytes` of the layer-4 probe (neither protocol: it hands out everything whatever the limit)
                    // is cut to the limit, so that the probe yields the specification "the first `limit` bytes"
                    let in_memory = matches!(req.body(), application::Body::Bytes(_));
                    match req.body_mut().read_to_bytes(*limit as usize).await {
                        Ok(data) if in_memory => b.extend_from_slice(&data[..data.len().min(*limit as usize)]),
                        Ok(data) => b.extend_from_slice(&data),
                        Err(_) => b.extend_from_slice(b"<body read error>"),
                    }
                    let mut resp = Response::new(Bytes::from(b));
                    resp.headers_mut().insert("content-type", HeaderValue::from_static("text/plain"));
                    FatResponse::new(resp, comprash::ServerCachePreference::None).with_compress(comprash::CompressPreference::None)
                }),
            );
        }
    }
    // echo2: (L path a b) — calls `read_to_bytes(a)` and then `read_to_bytes(b)`; answers "<METHOD>:" ++ first ++ "|" ++ second
    if let Some(hs) = kv_get(kv, "echo2").and_then(X::as_l) {
        for h in hs {
            let Some([path, a, b]) = h.as_l() else { continue };
            let (Some(path), Some(a), Some(b)) = (path.as_b(), a.as_n(), b.as_n()) else { continue };
            host.extensions.add_prepare_single(
                c00pipe::leak(path),
                prepare!(req, _host, _path, _addr, move |a: u128, b: u128| {
                    let mut out = req.method().as_str().as_bytes().to_vec();
                    out.push(b':');
                    let in_memory = matches!(req.body(), application::Body::Bytes(_));
                    for (i, l) in [*a as usize, *b as usize].into_iter().enumerate() {
                        if i == 1 {
                            out.push(b'|');
                        }
                        match req.body_mut().read_to_bytes(l).await {
                            Ok(data) if in_memory => out.extend_from_slice(&data[..data.len().min(l)]),
                            Ok(data) => out.extend_from_slice(&data),
                            Err(_) => out.extend_from_slice(b"<body read error>"),
                        }
                    }
                    let mut resp = Response::new(Bytes::from(out));
                    resp.headers_mut().insert("content-type", HeaderValue::from_static("text/plain"));
                    FatResponse::new(resp, comprash::ServerCachePreference::None).with_compress(comprash::CompressPreference::None)
                }),
            );
        }
    }
    // stream: (L path body (L chunk ...) (L [len]) (L (L name value) ...) status delay_ms) — a response whose `Response` body is
    // `body` and whose `ResponsePipeFuture` then writes the chunks (sleeping `delay_ms` before each);
    // `len` given: `with_future_and_len(len)`, else `with_future` (kvarn is told no length)
    if let Some(hs) = kv_get(kv, "stream").and_then(X::as_l) {
        for h in hs {
            let Some([path, body, chunks, len, headers, status, delay]) = h.as_l() else { continue };
            let (Some(path), Some(body), Some(chunks), Some(len), Some(headers), Some(status), Some(delay)) =
                (path.as_b(), body.as_b(), chunks.as_l(), len.as_l(), headers.as_l(), status.as_n(), delay.as_n())
            else {
                continue;
            };
            let chunks: Vec<Bytes> = chunks.iter().filter_map(|c| c.as_b().map(Bytes::copy_from_slice)).collect();
            let len = len.first().and_then(X::as_n).map(|n| n as u64);
            let headers: Vec<(Vec<u8>, Vec<u8>)> =
                headers.iter().filter_map(|h| h.as_l().and_then(|p| Some((p.first()?.as_b()?.to_vec(), p.get(1)?.as_b()?.to_vec())))).collect();
            let spec = Arc::new((Bytes::copy_from_slice(body), chunks, len, headers, status as u16, delay as u64));
            host.extensions.add_prepare_single(
                c00pipe::leak(path),
                prepare!(_req, _host, _path, _addr, move |spec: Arc<(Bytes, Vec<Bytes>, Option<u64>, Vec<(Vec<u8>, Vec<u8>)>, u16, u64)>| {
                    let (body, chunks, len, headers, status, delay) = (&spec.0, spec.1.clone(), spec.2, &spec.3, spec.4, spec.5);
                    let fut = response_pipe_fut!(pipe, _host, move |chunks: Vec<Bytes>, delay: u64| {
                        for chunk in chunks.iter() {
                            if *delay > 0 {
                                tokio::time::sleep(Duration::from_millis(*delay)).await;
                            }
                            if pipe.send(chunk.clone()).await.is_err() {
                                break;
                            }
                        }
                    });
                    let mut b = Response::builder().status(status);
                    for (k, v) in headers {
                        b = b.header(&k[..], &v[..]);
                    }
                    let resp = b.body(body.clone()).unwrap();
                    let fat = FatResponse::new(resp, comprash::ServerCachePreference::None).with_compress(comprash::CompressPreference::None);
                    match len {
                        Some(len) => fat.with_future_and_len(fut, len),
                        None => fat.with_future(fut),
                    }
                }),
            );
        }
    }
    // sfiles: prefix — `kvarn::extensions::stream_body()` answers every path that starts with it (files of the fixture directory)
    if let Some(prefix) = kv_get(kv, "sfiles").and_then(X::as_b) {
        let prefix: &'static str = c00pipe::leak(prefix);
        host.extensions.add_prepare_fn(
            Box::new(move |req, _host| req.uri().path().starts_with(prefix)),
            kvarn::extensions::stream_body(),
            extensions::Id::new(16, "c20 stream_body"),
        );
    }
    // limit: max — the host's request limiter counts every request and lets `max` of them pass (429 up to 3 * max, then drop)
    if let Some(max) = kv_get(kv, "limit").and_then(X::as_n) {
        host.limiter = kvarn::limiting::Manager::new(max as usize, 1, 100_000.0);
    }
}

fn build(cfg: &X) -> Option<c00pipe::Built> {
    c00pipe::build_host(cfg, Some(&customize))
}
fn cleanup(b: &c00pipe::Built) {
    if let Some(d) = &b.dir {
        let _ = std::fs::remove_dir_all(d);
    }
}

// -------------------------------------------------------------------------------------------
// requests and replies
// -------------------------------------------------------------------------------------------
#[derive(Clone, Debug)]
struct Req {
    method: Vec<u8>,
    target: Vec<u8>,
    headers: Vec<(Vec<u8>, Vec<u8>)>,
    body: Vec<u8>,
}
fn parse_req(x: &X) -> Option<Req> {
    let l = x.as_l()?;
    if l.len() != 4 {
        return None;
    }
    let headers = l[2]
        .as_l()?
        .iter()
        .map(|h| {
            let p = h.as_l()?;
            Some((p.first()?.as_b()?.to_vec(), p.get(1)?.as_b()?.to_vec()))
        })
        .collect::<Option<Vec<_>>>()?;
    Some(Req { method: l[0].as_b()?.to_vec(), target: l[1].as_b()?.to_vec(), headers, body: l[3].as_b()?.to_vec() })
}
fn parse_reqs(x: &X) -> Option<Vec<Req>> {
    x.as_l()?.iter().map(parse_req).collect()
}
/// `if-modified-since: @T+k` -> HTTP date of now +- k seconds
fn resolve(r: &Req) -> Req {
    let now = std::time::SystemTime::now().duration_since(std::time::UNIX_EPOCH).unwrap().as_secs();
    let mut r = r.clone();
    for (n, v) in &mut r.headers {
        if n == b"if-modified-since" {
            *v = c00pipe::subst_ims(v, now);
        }
    }
    r
}
/// only requests that both protocols can carry unchanged
fn expressible(r: &Req) -> bool {
    let edge_ws = |c: Option<&u8>| matches!(c, Some(b' ' | b'\t'));
    Method::from_bytes(&r.method).is_ok()
        && r.target.first() == Some(&b'/')
        && Uri::try_from(&r.target[..]).is_ok()
        && r.headers.iter().all(|(n, v)| {
            HeaderName::from_bytes(n).is_ok()
                && n.iter().all(|c| !c.is_ascii_uppercase())
                && HeaderValue::from_bytes(v).is_ok()
                && !edge_ws(v.first())
                && !edge_ws(v.last())
                && !matches!(&n[..], b"host" | b"connection" | b"keep-alive" | b"transfer-encoding" | b"upgrade" | b"te" | b"proxy-connection")
        })
}

#[derive(Debug)]
enum Wire {
    Resp { version: u8, status: u16, headers: Vec<(Vec<u8>, Vec<u8>)>, body: Vec<u8> },
    /// HTTP/1.1 only: as `Resp`, and the server closed the connection after it (`connection: close`).  `clean`: the end of
    /// the connection was an orderly one — TLS: the close_notify alert arrived before the end of the TCP stream; plain TCP:
    /// FIN, not a reset.  (A body that is delimited by the end of the connection never gets here with `clean = false`:
    /// that is the failure "body not cleanly terminated", see `read_response`.)
    Closed { version: u8, status: u16, headers: Vec<(Vec<u8>, Vec<u8>)>, body: Vec<u8>, clean: bool },
    Refused,
}
/// how an HTTP/1.1 connection ended, as its client sees it
enum End {
    /// TLS: close_notify, then the end of the TCP stream; plain TCP: FIN
    Clean,
    /// TLS: the TCP stream ended (or failed) and no close_notify had arrived — the end is not authenticated, what came
    /// before it may have been cut short by anyone on the path (RFC 8446 6.1); plain TCP: the connection was reset
    Unclean(String),
}
/// After a response that says `connection: close` the server has to end the connection itself, at once: kvarn would
/// otherwise only do so when its idle time-out (seconds) expires.  2.5 s is more than 2 s away from either.
const CLOSE_WITHIN: Duration = Duration::from_millis(2500);
fn canon_headers(mut h: Vec<(Vec<u8>, Vec<u8>)>) -> Vec<(Vec<u8>, Vec<u8>)> {
    for (n, v) in &mut h {
        n.make_ascii_lowercase();
        if n == b"last-modified" {
            *v = b"T".to_vec();
        }
    }
    h.sort();
    h
}
fn x_headers(h: &[(Vec<u8>, Vec<u8>)]) -> X {
    X::L(h.iter().map(|(n, v)| X::L(vec![X::b(n), X::b(v)])).collect())
}
fn x_wire(w: &Wire) -> X {
    match w {
        Wire::Resp { version, status, headers, body } => {
            X::ok(X::L(vec![X::N(0), X::L(vec![X::n(*version), X::n(*status), x_headers(headers), X::b(body)])]))
        }
        // (N 5): the connection ended in an orderly way; (N 6): it ended without close_notify / by a reset, after a
        // response that is complete without that end (HEAD, content-length)
        Wire::Closed { version, status, headers, body, clean } => {
            X::ok(X::L(vec![X::N(if *clean { 5 } else { 6 }), X::L(vec![X::n(*version), X::n(*status), x_headers(headers), X::b(body)])]))
        }
        Wire::Refused => X::ok(X::L(vec![X::N(3)])),
    }
}
fn fail(idx: usize, what: String) -> X {
    X::L(vec![X::N(93), X::n(idx), X::b(what)])
}
/// Is this failure of an exchange trouble of the harness / the machine (nothing can be concluded: a time-out under load, a
/// connection that could not be opened), as opposed to something the server did to the connection (a garbled or missing
/// answer, a reset, stray bytes)?
fn is_trouble(what: &str) -> bool {
    // (a TLS / h2 handshake that FAILS - rather than times out -, an ALPN result other than the one asked for, a closed connection,
    // a reset stream, a garbled answer are things the server did)
    ["timeout:", "bind:", "connect:", "connect to port", "accept:", "addr:", "join:", "could not be started", "is not stable"]
        .iter()
        .any(|p| what.contains(p))
}
/// Runs a case up to three times.  A failure `(L (N 93) idx what)` that is not harness trouble and that repeats — same request
/// index, same message — on all three attempts (fresh hosts, fresh connections each time) is what the server does to this
/// input: the outcome `(L (N 94) idx what)`, which is compared like any other (never retried, never skipped).  Anything
/// that does not repeat stays `(L (N 93) ..)` = "could not be executed" (the driver runs it again and counts it).
fn persistent(mut attempt: impl FnMut() -> X) -> X {
    let mut seen: Option<(u128, Vec<u8>)> = None;
    let mut last = X::bad();
    for round in 0..3 {
        let out = attempt();
        let Some([tag, idx, what]) = out.as_l() else { return out };
        let (Some(93), Some(idx), Some(what)) = (tag.as_n(), idx.as_n(), what.as_b()) else { return out };
        if is_trouble(&String::from_utf8_lossy(what)) {
            return out;
        }
        let key = (idx, what.to_vec());
        match &seen {
            Some(k) if *k != key => return out,
            _ => seen = Some(key),
        }
        last = out;
        if round < 2 {
            std::thread::sleep(Duration::from_millis(40));
        }
    }
    match last {
        X::L(mut v) if v.len() == 3 => {
            v[0] = X::N(94);
            X::L(v)
        }
        other => other,
    }
}

// -------------------------------------------------------------------------------------------
// connections
// -------------------------------------------------------------------------------------------
trait Io: AsyncRead + AsyncWrite + Unpin + Send {}
impl<S: AsyncRead + AsyncWrite + Unpin + Send> Io for S {}

/// Where a client connects to.
#[derive(Clone)]
enum Target {
    /// a fresh loopback pair whose server end is handed to `kvarn::handle_connection`
    Pair(Arc<PortDescriptor>),
    /// a server started by `RunConfig::execute` on this port
    Port(u16),
}
impl From<Arc<PortDescriptor>> for Target {
    fn from(d: Arc<PortDescriptor>) -> Self {
        Target::Pair(d)
    }
}

async fn connect(target: Target) -> Result<tokio::net::TcpStream, String> {
    let desc = match target {
        Target::Pair(desc) => desc,
        Target::Port(port) => {
            // the listener binds inside the server's task: a refusal shortly after `execute` means "not yet"
            let t0 = std::time::Instant::now();
            loop {
                match tokio::net::TcpStream::connect(("127.0.0.1", port)).await {
                    Ok(s) => {
                        let _ = s.set_nodelay(true);
                        return Ok(s);
                    }
                    Err(e) if e.kind() == std::io::ErrorKind::ConnectionRefused && t0.elapsed() < Duration::from_secs(4) => {
                        tokio::time::sleep(Duration::from_millis(15)).await;
                    }
                    Err(e) => return Err(format!("connect to port {port}: {e}")),
                }
            }
        }
    };
    let listener = tokio::net::TcpListener::bind("127.0.0.1:0").await.map_err(|e| format!("bind: {e}"))?;
    let addr = listener.local_addr().map_err(|e| format!("addr: {e}"))?;
    let client = tokio::net::TcpStream::connect(addr).await.map_err(|e| format!("connect: {e}"))?;
    let (server_end, peer) = listener.accept().await.map_err(|e| format!("accept: {e}"))?;
    tokio::spawn(async move {
        let _ = kvarn::handle_connection(kvarn::Incoming::Tcp(server_end), peer, desc, || true).await;
    });
    let _ = client.set_nodelay(true);
    Ok(client)
}
async fn connect_tls(desc: Target, cfg: Arc<rustls::ClientConfig>, want_alpn: &[u8]) -> Result<tokio_rustls::client::TlsStream<tokio::net::TcpStream>, String> {
    let tcp = connect(desc).await?;
    let name = rustls::pki_types::ServerName::try_from("localhost").unwrap();
    let s = tokio::time::timeout(T, tokio_rustls::TlsConnector::from(cfg).connect(name, tcp))
        .await
        .map_err(|_| timed_out("TLS handshake"))?
        .map_err(|e| format!("TLS handshake: {e}"))?;
    if s.get_ref().1.alpn_protocol() != Some(want_alpn) {
        return Err(format!("ALPN: wanted {:?}, negotiated {:?}", String::from_utf8_lossy(want_alpn), s.get_ref().1.alpn_protocol().map(String::from_utf8_lossy)));
    }
    Ok(s)
}

struct H1 {
    s: Box<dyn Io>,
    pending: Vec<u8>,
    secure: bool,
}
impl H1 {
    async fn open(desc: impl Into<Target>, secure: bool) -> Result<H1, String> {
        let desc = desc.into();
        let s: Box<dyn Io> = if secure { Box::new(connect_tls(desc, tls().client_h1.clone(), b"http/1.1").await?) } else { Box::new(connect(desc).await?) };
        Ok(H1 { s, pending: Vec::new(), secure })
    }
    async fn fill(&mut self, buf: &mut Vec<u8>, what: &str) -> Result<(), String> {
        let mut tmp = [0u8; 8192];
        let n = match tokio::time::timeout(read_timeout(), self.s.read(&mut tmp)).await {
            Ok(Ok(n)) => n,
            Ok(Err(e)) => return Err(format!("read ({what}): {e}")),
            Err(_) => return Err(timed_out(what)),
        };
        if n == 0 {
            return Err(format!("connection closed ({what})"));
        }
        buf.extend_from_slice(&tmp[..n]);
        Ok(())
    }
    async fn exchange(&mut self, r: &Req) -> Result<Wire, String> {
        let mut out = Vec::new();
        out.extend_from_slice(&r.method);
        out.push(b' ');
        out.extend_from_slice(&r.target);
        out.extend_from_slice(b" HTTP/1.1\r\nhost: localhost:8443\r\n");
        // `x-c20-late-body: <ms>`: the body is written <ms> after the head (another segment, whenever it arrives);
        // `x-c20-late-body: after`: the body is written only when the response has been read — for requests that are answered
        // without their body being read: the server then has, for certain, seen the head without any body byte
        let mut late_ms = None;
        let mut body_after = false;
        for (n, v) in &r.headers {
            if n == LATE {
                late_ms = std::str::from_utf8(v).ok().and_then(|s| s.parse::<u64>().ok());
                body_after = v == b"after";
                continue;
            }
            out.extend_from_slice(n);
            out.extend_from_slice(b": ");
            out.extend_from_slice(v);
            out.extend_from_slice(b"\r\n");
        }
        out.extend_from_slice(b"\r\n");
        if let Some(ms) = late_ms {
            self.s.write_all(&out).await.map_err(|e| format!("write: {e}"))?;
            self.s.flush().await.map_err(|e| format!("flush: {e}"))?;
            tokio::time::sleep(Duration::from_millis(ms)).await;
            out.clear();
        }
        if !body_after {
            out.extend_from_slice(&r.body);
        }
        self.s.write_all(&out).await.map_err(|e| format!("write: {e}"))?;
        self.s.flush().await.map_err(|e| format!("flush: {e}"))?;
        let w = self.read_response(r.method == b"HEAD").await?;
        // (nothing can be written to a connection the server has ended)
        if body_after && !matches!(w, Wire::Closed { .. }) {
            self.s.write_all(&r.body).await.map_err(|e| format!("write (body after the response): {e}"))?;
            self.s.flush().await.map_err(|e| format!("flush: {e}"))?;
        }
        Ok(w)
    }
    /// the rest of the connection after a response that said `connection: close`: everything up to the end of the
    /// connection, which the server has to bring about itself within `CLOSE_WITHIN` of its last byte
    ///
    /// HOW it ended is part of the result: over TLS `read` returns 0 only after the peer's close_notify alert (rustls reports
    /// the end of the TCP stream without it as the error "peer closed connection without sending TLS close_notify"); over
    /// plain TCP 0 is the peer's FIN and an error is a reset.  The connection is gone either way, but only an orderly end
    /// can delimit a body.
    async fn read_to_close(&mut self, buf: &mut Vec<u8>) -> Result<End, String> {
        let mut tmp = [0u8; 8192];
        loop {
            match tokio::time::timeout(CLOSE_WITHIN, self.s.read(&mut tmp)).await {
                Ok(Ok(0)) => return Ok(End::Clean),
                Ok(Ok(n)) => buf.extend_from_slice(&tmp[..n]),
                Ok(Err(e)) => return Ok(End::Unclean(e.to_string())),
                Err(_) => return Err("the response said connection: close, but the server did not end the connection".into()),
            }
        }
    }
    /// reads one response with strict framing: status line, header lines, exactly `content-length` body bytes (none for HEAD);
    /// after `connection: close` the end of the connection is awaited — a body without `content-length` is what comes before it
    async fn read_response(&mut self, head: bool) -> Result<Wire, String> {
        let mut buf = std::mem::take(&mut self.pending);
        let head_end = loop {
            if let Some(p) = buf.windows(4).position(|w| w == b"\r\n\r\n") {
                break p + 4;
            }
            self.fill(&mut buf, "response head").await?;
        };
        let head_txt = buf[..head_end - 4].to_vec();
        let mut lines = head_txt.split(|&c| c == b'\n').map(|l| l.strip_suffix(b"\r").unwrap_or(l));
        let sl = lines.next().unwrap_or(b"");
        if sl.len() < 12 || &sl[..7] != b"HTTP/1." || sl[8] != b' ' || !sl[9..12].iter().all(u8::is_ascii_digit) {
            return Err(format!("bad status line {:?}", String::from_utf8_lossy(sl)));
        }
        let version = match sl[7] {
            b'1' => 11,
            b'0' => 10,
            _ => return Err("bad version".into()),
        };
        let status: u16 = std::str::from_utf8(&sl[9..12]).unwrap().parse().unwrap();
        let mut headers = Vec::new();
        let mut clen: Option<usize> = None;
        for l in lines {
            let Some(colon) = l.iter().position(|&c| c == b':') else { return Err("header line without a colon".into()) };
            let name = l[..colon].to_ascii_lowercase();
            let mut v = &l[colon + 1..];
            while let [b' ' | b'\t', rest @ ..] = v {
                v = rest;
            }
            if name == b"content-length" {
                let n = std::str::from_utf8(v).ok().and_then(|s| s.parse::<usize>().ok());
                if clen.is_some() || n.is_none() {
                    return Err("bad or repeated content-length".into());
                }
                clen = n;
            }
            if name == b"transfer-encoding" && v.to_ascii_lowercase().windows(7).any(|w| w == b"chunked") {
                return Err("unexpected transfer-encoding: chunked".into());
            }
            headers.push((name, v.to_vec()));
        }
        let closing = headers.iter().any(|(n, v)| n == b"connection" && v.eq_ignore_ascii_case(b"close"));
        if closing {
            // the body ends with the connection, or after `content-length` bytes with nothing but the end behind them
            let end = self.read_to_close(&mut buf).await?;
            let body = if head { Vec::new() } else { buf[head_end..].to_vec() };
            if head && buf.len() > head_end {
                return Err(format!("{} bytes after the head of a HEAD answer", buf.len() - head_end));
            }
            if let Some(n) = clen {
                if !head && n != body.len() {
                    return Err(format!("content-length {n}, but {} bytes before the end of the connection", body.len()));
                }
            }
            // A body that nothing but the end of the connection delimits is complete only if that end is an orderly one:
            // over TLS the close_notify alert must have arrived (a strict client — hyper, curl — reports anything else as a
            // truncated body, as it cannot be told from an attack), over plain TCP the connection must not have been reset.
            if let End::Unclean(e) = &end {
                if !head && clen.is_none() {
                    return Err(format!(
                        "body not cleanly terminated: the response ({status}, connection: close, no content-length) is delimited by the end of the \
                         connection, and the {} connection ended {} after {} body bytes ({e}) - the body cannot be told from a truncated one",
                        if self.secure { "TLS" } else { "TCP" },
                        if self.secure { "without close_notify" } else { "by a reset" },
                        body.len()
                    ));
                }
            }
            return Ok(Wire::Closed { version, status, headers: canon_headers(headers), body, clean: matches!(end, End::Clean) });
        }
        let want = if head { 0 } else { clen.ok_or("no content-length")? };
        while buf.len() < head_end + want {
            self.fill(&mut buf, "body shorter than content-length").await?;
        }
        let body = buf[head_end..head_end + want].to_vec();
        self.pending = buf[head_end + want..].to_vec();
        Ok(Wire::Resp { version, status, headers: canon_headers(headers), body })
    }
    /// the framing of everything before held: a sentinel GET is answered with the sentinel, nothing is left over
    async fn sentinel(&mut self) -> Result<(), String> {
        let r = Req { method: b"GET".to_vec(), target: b"/s".to_vec(), headers: vec![], body: vec![] };
        match self.exchange(&r).await? {
            Wire::Resp { status: 200, body, .. } if body == SENTINEL && self.pending.is_empty() => Ok(()),
            // (a host whose request limiter is exhausted answers the sentinel like everything else: the framing held)
            Wire::Resp { status: 429, .. } if self.pending.is_empty() => Ok(()),
            w => Err(format!("sentinel answered {w:?}, {} stray bytes", self.pending.len())),
        }
    }
}

struct H2 {
    send: h2::client::SendRequest<Bytes>,
}
impl H2 {
    async fn open(desc: impl Into<Target>) -> Result<H2, String> {
        let s = connect_tls(desc.into(), tls().client_h2.clone(), b"h2").await?;
        // the default windows (65535 per stream and per connection): an answer larger than that (an echoed 70 kB / 150 kB body)
        // is only received completely if the server's h2 side waits for this client's WINDOW_UPDATEs
        let (send, conn) = tokio::time::timeout(T, h2::client::Builder::new().handshake::<_, Bytes>(s))
            .await
            .map_err(|_| timed_out("h2 handshake"))?
            .map_err(|e| format!("h2 handshake: {e}"))?;
        tokio::spawn(async move {
            let _ = conn.await;
        });
        Ok(H2 { send })
    }
    /// Starts the exchange (the request is on the connection when this returns); the returned future reads the reply.
    async fn start(&mut self, r: &Req) -> Result<(impl std::future::Future<Output = Result<Wire, String>>, h2::SendStream<Bytes>), String> {
        let mut uri = b"https://localhost:8443".to_vec();
        uri.extend_from_slice(&r.target);
        let mut b = Request::builder().method(Method::from_bytes(&r.method).map_err(|e| e.to_string())?).uri(Uri::try_from(&uri[..]).map_err(|e| e.to_string())?);
        for (n, v) in r.headers.iter().filter(|(n, _)| n != LATE) {
            b = b.header(HeaderName::from_bytes(n).map_err(|e| e.to_string())?, HeaderValue::from_bytes(v).map_err(|e| e.to_string())?);
        }
        let req = b.body(()).map_err(|e| e.to_string())?;
        let send = self.send.clone();
        let mut send = tokio::time::timeout(T, send.ready()).await.map_err(|_| timed_out("h2 ready"))?.map_err(|e| format!("h2 ready: {e}"))?;
        let (resp, mut stream) = send.send_request(req, r.body.is_empty()).map_err(|e| format!("h2 send_request: {e}"))?;
        if !r.body.is_empty() {
            // a server may answer (and close the stream) without reading the body: the answer still counts
            let _ = stream.send_data(Bytes::copy_from_slice(&r.body), true);
        }
        Ok((async move {
            let resp = match tokio::time::timeout(read_timeout(), resp).await {
                Err(_) => return Err(timed_out("h2 response head")),
                Ok(Err(e)) if e.is_reset() && e.is_remote() => return Ok(Wire::Refused),
                Ok(Err(e)) => return Err(format!("h2 response: {e}")),
                Ok(Ok(r)) => r,
            };
            let (parts, mut body) = resp.into_parts();
            let mut data = Vec::new();
            loop {
                match tokio::time::timeout(read_timeout(), body.data()).await {
                    Err(_) => return Err(timed_out("h2 body")),
                    Ok(None) => break,
                    Ok(Some(Err(e))) => return Err(format!("h2 body: {e}")),
                    Ok(Some(Ok(chunk))) => {
                        let _ = body.flow_control().release_capacity(chunk.len());
                        data.extend_from_slice(&chunk);
                    }
                }
            }
            let headers = parts.headers.iter().map(|(n, v)| (n.as_str().as_bytes().to_vec(), v.as_bytes().to_vec())).collect();
            Ok(Wire::Resp { version: 20, status: parts.status.as_u16(), headers: canon_headers(headers), body: data })
        }, stream))
    }
    async fn exchange(&mut self, r: &Req) -> Result<Wire, String> {
        let (reply, _stream) = self.start(r).await?;
        reply.await
    }
    async fn sentinel(&mut self) -> Result<(), String> {
        let r = Req { method: b"GET".to_vec(), target: b"/s".to_vec(), headers: vec![], body: vec![] };
        match self.exchange(&r).await? {
            Wire::Resp { status: 200, body, .. } if body == SENTINEL => Ok(()),
            Wire::Resp { status: 429, .. } => Ok(()),
            w => Err(format!("sentinel answered {w:?}")),
        }
    }
}

fn descriptor(b: &c00pipe::Built, secure: bool) -> Arc<PortDescriptor> {
    Arc::new(if secure { PortDescriptor::new(PORT, b.hosts.clone()) } else { PortDescriptor::unsecure(PORT, b.hosts.clone()) })
}

// -------------------------------------------------------------------------------------------
// components
// -------------------------------------------------------------------------------------------
fn x_response(resp: &Response<Bytes>, sd: u128) -> X {
    let version = match resp.version() {
        Version::HTTP_09 => 9u8,
        Version::HTTP_10 => 10,
        Version::HTTP_11 => 11,
        Version::HTTP_2 => 20,
        _ => 30,
    };
    let headers = canon_headers(resp.headers().iter().map(|(n, v)| (n.as_str().as_bytes().to_vec(), v.as_bytes().to_vec())).collect());
    X::L(vec![X::n(version), X::n(resp.status().as_u16()), x_headers(&headers), X::b(resp.body()), X::N(sd)])
}

/// what a `ResponsePipeFuture` writes, observed through a `ResponseBodyPipe::Http1` over a plain loopback pair
async fn run_future(mut fut: ResponsePipeFuture, host: &Host) -> Option<Vec<u8>> {
    let listener = tokio::net::TcpListener::bind("127.0.0.1:0").await.ok()?;
    let addr = listener.local_addr().ok()?;
    let mut client = tokio::net::TcpStream::connect(addr).await.ok()?;
    let (server_end, _) = listener.accept().await.ok()?;
    let enc = kvarn::encryption::Encryption::new_tcp(server_end, None).await.ok()?;
    let pipe = Arc::new(Mutex::new(enc));
    let reader = tokio::spawn(async move {
        let mut v = Vec::new();
        let _ = tokio::time::timeout(T, client.read_to_end(&mut v)).await;
        v
    });
    {
        let mut body_pipe = application::ResponseBodyPipe::Http1(Arc::clone(&pipe));
        fut.call(&mut body_pipe, host).await;
        let _ = body_pipe.close().await;
    }
    let _ = pipe.lock().await.shutdown().await;
    drop(pipe);
    reader.await.ok()
}

/// layer 4 observed in process
fn l4(x: &X) -> X {
    let Some([cfg, reqs, mode]) = x.as_l() else { return X::bad() };
    let (Some(reqs), Some(mode)) = (parse_reqs(reqs), mode.as_n()) else { return X::bad() };
    if !reqs.iter().all(expressible) {
        return X::L(vec![X::N(96)]);
    }
    let mut out = Vec::new();
    let mut err416 = None;
    let mut built: Option<c00pipe::Built> = None;
    for r in &reqs {
        if mode == 1 || built.is_none() {
            if let Some(b) = built.take() {
                cleanup(&b);
            }
            built = build(cfg);
        }
        let Some(b) = built.as_ref() else { return X::bad() };
        let Some(host) = b.hosts.get_host(&b.host_name) else { return X::bad() };
        let r = resolve(r);
        let hdrs: Vec<X> = r.headers.iter().filter(|(n, _)| n != LATE).map(|(n, v)| X::L(vec![X::b(n), X::b(v)])).collect();
        let Some(mut req) = c00pipe::make_request("localhost:8443", &r.method, &r.target, &hdrs, &r.body) else { return X::L(vec![X::N(96)]) };
        let (reply, e416) = rt().block_on(async {
            let reply = kvarn::handle_cache(&mut req, c00pipe::sockaddr(1), host).await;
            let e416 = kvarn::error::default(StatusCode::RANGE_NOT_SATISFIABLE, Some(host), Some(b"Range start after end of body")).await;
            (reply, e416)
        });
        let sd = match &reply.sanitize_data {
            Ok(_) => 0,
            Err(utils::parse::SanitizeError::UnsafePath) => 1,
            Err(utils::parse::SanitizeError::RangeNotSatisfiable) => 2,
        };
        let mut xr = x_response(&reply.response, sd);
        // a streaming response: what its `ResponsePipeFuture` writes is observed here, in process, through a plain pipe
        // (no `SendKind::send`, no protocol arm): (L bytes (L [len]))
        if let Some((fut, len)) = reply.future {
            let Some(written) = rt().block_on(run_future(fut, host)) else { return X::L(vec![X::N(96), X::b("the stream future could not be observed")]) };
            if let X::L(v) = &mut xr {
                v.push(X::L(vec![X::b(&written), X::L(len.map(|l| X::n(l)).into_iter().collect())]));
            }
        }
        out.push(xr);
        err416.get_or_insert_with(|| x_response(&e416, 0));
    }
    if let Some(b) = built.take() {
        cleanup(&b);
    }
    X::L(vec![err416.unwrap_or(X::L(vec![])), X::L(out), x_response(&kvarn::limiting::get_too_many_requests(), 0)])
}

struct Case {
    cfg: X,
    reqs: Vec<Req>,
}
fn parse_case(x: &X, n: usize) -> Option<Case> {
    let l = x.as_l()?;
    if l.len() != n {
        return None;
    }
    let c = l[1].as_l()?;
    if c.len() != 2 {
        return None;
    }
    Some(Case { cfg: c[0].clone(), reqs: parse_reqs(&c[1])? })
}

async fn history_h1(desc: impl Into<Target>, secure: bool, reqs: &[Req]) -> Result<Vec<Wire>, (usize, String)> {
    let mut h1 = H1::open(desc, secure).await.map_err(|e| (0, format!("h1 open: {e}")))?;
    let mut out = Vec::new();
    for (i, r) in reqs.iter().enumerate() {
        if matches!(out.last(), Some(Wire::Closed { .. })) {
            return Err((i, "h1: the connection ended with the answer to the request before".into()));
        }
        out.push(h1.exchange(&resolve(r)).await.map_err(|e| (i, format!("h1: {e}")))?);
    }
    // (after an answer that ended the connection there is nothing left to check: the end itself was the framing)
    if !matches!(out.last(), Some(Wire::Closed { .. })) {
        h1.sentinel().await.map_err(|e| (reqs.len(), format!("h1 framing: {e}")))?;
    }
    Ok(out)
}
async fn history_h2(desc: impl Into<Target>, reqs: &[Req]) -> Result<Vec<Wire>, (usize, String)> {
    let mut h2 = H2::open(desc).await.map_err(|e| (0, format!("h2 open: {e}")))?;
    let mut out = Vec::new();
    for (i, r) in reqs.iter().enumerate() {
        out.push(h2.exchange(&resolve(r)).await.map_err(|e| (i, format!("h2: {e}")))?);
    }
    h2.sentinel().await.map_err(|e| (reqs.len(), format!("h2 framing: {e}")))?;
    Ok(out)
}

/// `flags`: only report whether every request of the history was answered on each protocol
fn pair(x: &X, flags: bool) -> X {
    if flags {
        // "not every request was answered" is a verdict only if three runs (fresh hosts, fresh connections) agree on it
        let mut first: Option<String> = None;
        for round in 0..3 {
            let out = pair_once(x, flags);
            let txt = {
                let mut t = String::new();
                out.write(&mut t);
                t
            };
            if txt == "(L (N 1) (N 1))" || txt.starts_with("(L (N 93)") || txt.starts_with("(L (N 9") {
                return out;
            }
            match &first {
                Some(f) if *f != txt => return fail(0, "open: the outcome of this history is not stable".into()),
                _ => first = Some(txt),
            }
            if round == 2 {
                return out;
            }
            std::thread::sleep(Duration::from_millis(40));
        }
        return X::bad();
    }
    persistent(|| pair_once(x, flags))
}
fn pair_once(x: &X, flags: bool) -> X {
    let Some(case) = parse_case(x, 7) else { return X::bad() };
    let Some(secure1) = x.as_l().and_then(|l| l[6].as_bool()) else { return X::bad() };
    if !case.reqs.iter().all(expressible) {
        return X::L(vec![X::N(96)]);
    }
    let (Some(ba), Some(bb)) = (build(&case.cfg), build(&case.cfg)) else { return X::bad() };
    let (da, db) = (descriptor(&ba, secure1), descriptor(&bb, true));
    let reqs = case.reqs;
    let out = rt().block_on(async move {
        let w1 = history_h1(da, secure1, &reqs).await;
        if flags {
            let w2 = history_h2(db, &reqs).await;
            // answered = every request got a response head and body, and the connection's framing was intact afterwards
            let all = |w: &Result<Vec<Wire>, (usize, String)>| matches!(w, Ok(v) if v.iter().all(|w| matches!(w, Wire::Resp { .. } | Wire::Closed { .. })));
            // (a time-out or a connection that could not be opened says nothing about the server)
            for w in [&w1, &w2] {
                if let Err((i, e)) = w {
                    if is_trouble(e) {
                        return fail(*i, e.clone());
                    }
                }
            }
            return X::L(vec![X::bool(all(&w1)), X::bool(all(&w2))]);
        }
        let w1 = match w1 {
            Ok(w) => w,
            Err((i, e)) => return fail(i, e),
        };
        match history_h2(db, &reqs).await {
            Ok(w2) => X::L(w1.iter().zip(w2.iter()).map(|(a, b)| X::L(vec![x_wire(a), x_wire(b)])).collect()),
            Err((i, e)) => fail(i, e),
        }
    });
    cleanup(&ba);
    cleanup(&bb);
    out
}

// -------------------------------------------------------------------------------------------
// the same through complete servers (`RunConfig::execute`: listener, accept loop, ALPN, connection tasks)
// -------------------------------------------------------------------------------------------
static PORT_COUNTER: std::sync::atomic::AtomicU32 = std::sync::atomic::AtomicU32::new(0);
/// A loopback port for a complete server.  kvarn sets SO_REUSEPORT, so binding a port another server listens on does not
/// fail — the two would share the connections.  A port is therefore CLAIMED first: a lock file created with O_EXCL in a
/// directory all harness processes of this machine share (it holds the owner's pid; the claim of a process that no longer
/// exists is taken over), and used only if, in addition, a connection attempt to it is refused (nobody outside this scheme
/// listens there).  The claim is released when the server has been shut down.
struct PortClaim {
    port: u16,
    path: std::path::PathBuf,
}
impl Drop for PortClaim {
    fn drop(&mut self) {
        let _ = std::fs::remove_file(&self.path);
    }
}
fn claim(port: u16) -> Option<PortClaim> {
    use std::io::Write;
    let dir = std::env::temp_dir().join("kv-verif-ports");
    let _ = std::fs::create_dir_all(&dir);
    let path = dir.join(format!("{port}.lock"));
    for _ in 0..2 {
        match std::fs::OpenOptions::new().write(true).create_new(true).open(&path) {
            Ok(mut f) => {
                let _ = write!(f, "{}", std::process::id());
                return Some(PortClaim { port, path });
            }
            Err(_) => {
                // a stale claim? (owner gone, or unreadable and older than 10 minutes)
                let owner = std::fs::read_to_string(&path).ok().and_then(|s| s.trim().parse::<u32>().ok());
                let stale = match owner {
                    Some(pid) => pid != std::process::id() && !std::path::Path::new(&format!("/proc/{pid}")).exists(),
                    None => std::fs::metadata(&path).and_then(|m| m.modified()).ok().and_then(|t| t.elapsed().ok()).map_or(false, |d| d > Duration::from_secs(600)),
                };
                if !stale {
                    return None;
                }
                let _ = std::fs::remove_file(&path);
            }
        }
    }
    None
}
fn next_port() -> u16 {
    let n = PORT_COUNTER.fetch_add(1, std::sync::atomic::Ordering::Relaxed);
    // 10050 .. 31999, spread by pid; below the ephemeral range (32768..) the kernel hands out to clients
    (10_050 + (std::process::id().wrapping_mul(131).wrapping_add(n.wrapping_mul(7))) % 21_950) as u16
}
async fn free_port() -> Option<PortClaim> {
    for _ in 0..80 {
        let Some(c) = claim(next_port()) else { continue };
        match tokio::time::timeout(Duration::from_secs(2), tokio::net::TcpStream::connect(("127.0.0.1", c.port))).await {
            Ok(Err(e)) if e.kind() == std::io::ErrorKind::ConnectionRefused => return Some(c),
            _ => {}
        }
    }
    None
}
/// the port of this run's server appears in `alt-svc`; the cases are written for port 8443
fn canon_port(w: &mut Wire, port: u16) {
    if let Wire::Resp { headers, .. } | Wire::Closed { headers, .. } = w {
        let mine = format!("h3=\":{port}\";ma=2592000").into_bytes();
        for (n, v) in headers.iter_mut() {
            if n == b"alt-svc" && *v == mine {
                *v = format!("h3=\":{PORT}\";ma=2592000").into_bytes();
            }
        }
    }
}

/// `Err(None)`: the harness could not run the case (ports, connect) — never a verdict
async fn server_once(cfg: &X, secure1: bool, reqs: &[Req]) -> Result<X, Option<(usize, String)>> {
    let (Some(ba), Some(bb)) = (build(cfg), build(cfg)) else { return Ok(X::bad()) };
    let (Some(claim_a), Some(claim_b)) = (free_port().await, free_port().await) else { return Err(None) };
    let (pa, pb) = (claim_a.port, claim_b.port);
    let da = if secure1 { PortDescriptor::new(pa, ba.hosts.clone()) } else { PortDescriptor::unsecure(pa, ba.hosts.clone()) };
    let sa = RunConfig::new().bind(da.ipv4_only()).disable_ctl().execute().await;
    let sb = RunConfig::new().bind(PortDescriptor::new(pb, bb.hosts.clone()).ipv4_only()).disable_ctl().execute().await;
    let res = async {
        let mut w1 = history_h1(Target::Port(pa), secure1, reqs).await.map_err(|(i, e)| if e.contains("open:") { None } else { Some((i, e)) })?;
        let mut w2 = history_h2(Target::Port(pb), reqs).await.map_err(|(i, e)| if e.contains("open:") { None } else { Some((i, e)) })?;
        w1.iter_mut().for_each(|w| canon_port(w, pa));
        w2.iter_mut().for_each(|w| canon_port(w, pb));
        Ok(X::L(w1.iter().zip(w2.iter()).map(|(a, b)| X::L(vec![x_wire(a), x_wire(b)])).collect()))
    }
    .await;
    sa.shutdown();
    sb.shutdown();
    let _ = tokio::time::timeout(Duration::from_secs(5), async {
        sa.wait().await;
        sb.wait().await;
    })
    .await;
    cleanup(&ba);
    cleanup(&bb);
    drop((claim_a, claim_b));
    res
}

fn server(x: &X) -> X {
    persistent(|| server_once_x(x))
}
fn server_once_x(x: &X) -> X {
    let Some(case) = parse_case(x, 7) else { return X::bad() };
    let Some(secure1) = x.as_l().and_then(|l| l[6].as_bool()) else { return X::bad() };
    if !case.reqs.iter().all(expressible) {
        return X::L(vec![X::N(96)]);
    }
    rt().block_on(async {
        for _ in 0..3 {
            match server_once(&case.cfg, secure1, &case.reqs).await {
                Ok(x) => return x,
                Err(Some((i, e))) => return fail(i, e),
                Err(None) => {}
            }
        }
        // could not be executed (port trouble): counted, not judged
        X::L(vec![X::N(96), X::b("server could not be started or reached")])
    })
}

fn sids(x: &X) -> Option<Vec<u128>> {
    x.as_l()?.get(6)?.as_l()?.iter().map(|s| s.as_l()?.first()?.as_n()).collect()
}

fn sorted(mut v: Vec<(u128, X)>) -> X {
    v.sort_by_key(|e| e.0);
    X::L(v.into_iter().map(|(s, w)| X::L(vec![X::N(s), w])).collect())
}

/// (L sid class cacheable [cancel_ms]) — a stream the client CANCELS `cancel_ms` after it has sent the request
fn cancels(x: &X) -> Option<Vec<Option<u64>>> {
    x.as_l()?.get(6)?.as_l()?.iter().map(|s| Some(s.as_l()?.get(3).and_then(X::as_l).and_then(|l| l.first()).and_then(X::as_n).map(|n| n as u64))).collect()
}

/// all requests at once: streams of `conns` HTTP/2 connections (stream i on connection i mod conns; `use_h2`) or one
/// HTTP/1.1 connection each.  Streams marked as cancelled are reset by the client (RST_STREAM(CANCEL) / the HTTP/1.1
/// connection is dropped) some ms after the request was sent; their answers are not part of the output — every OTHER
/// stream must get its own answer, and the connections must answer a sentinel request afterwards.
fn burst_once(x: &X, use_h2: bool, conns: usize) -> X {
    let Some(case) = parse_case(x, 8) else { return X::bad() };
    let (Some(sids), Some(cancels)) = (sids(x), cancels(x)) else { return X::bad() };
    if sids.len() != case.reqs.len() {
        return X::bad();
    }
    if !case.reqs.iter().all(expressible) {
        return X::L(vec![X::N(96)]);
    }
    let Some(b) = build(&case.cfg) else { return X::bad() };
    let desc = descriptor(&b, true);
    let reqs: Vec<Req> = case.reqs.iter().map(resolve).collect();
    let out = rt().block_on(async move {
        if use_h2 {
            let mut tasks = Vec::new();
            let mut h2s = Vec::new();
            for _ in 0..conns.max(1) {
                match H2::open(desc.clone()).await {
                    Ok(c) => h2s.push(c),
                    Err(e) => return fail(0, format!("h2 open: {e}")),
                }
            }
            let nc = h2s.len();
            for (i, r) in reqs.iter().enumerate() {
                match h2s[i % nc].start(r).await {
                    Ok((f, mut stream)) => match cancels[i] {
                        None => tasks.push(Some(tokio::spawn(f))),
                        Some(ms) => {
                            tokio::spawn(async move {
                                tokio::time::sleep(Duration::from_millis(ms)).await;
                                stream.send_reset(h2::Reason::CANCEL);
                                drop(f);
                            });
                            tasks.push(None);
                        }
                    },
                    Err(e) => return fail(i, format!("h2 start: {e}")),
                }
            }
            let mut out = Vec::new();
            for (i, t) in tasks.into_iter().enumerate() {
                let Some(t) = t else { continue };
                match t.await {
                    Ok(Ok(w)) => out.push((sids[i], x_wire(&w))),
                    Ok(Err(e)) => return fail(i, format!("h2 stream: {e}")),
                    Err(e) => return fail(i, format!("join: {e}")),
                }
            }
            for h2 in &mut h2s {
                if let Err(e) = h2.sentinel().await {
                    return fail(reqs.len(), format!("h2 after the burst: {e}"));
                }
            }
            sorted(out)
        } else {
            let mut conns = Vec::new();
            for (i, _) in reqs.iter().enumerate() {
                match H1::open(desc.clone(), true).await {
                    Ok(c) => conns.push(c),
                    Err(e) => return fail(i, format!("h1 open: {e}")),
                }
            }
            let mut tasks = Vec::new();
            for (i, (mut c, r)) in conns.into_iter().zip(reqs.iter().cloned()).enumerate() {
                let cancel = cancels[i];
                let t = tokio::spawn(async move {
                    if let Some(ms) = cancel {
                        // the client goes away: the answer, if any, is not observed
                        let _ = tokio::time::timeout(Duration::from_millis(ms), c.exchange(&r)).await;
                        return Ok::<Option<Wire>, String>(None);
                    }
                    let w = c.exchange(&r).await?;
                    if !matches!(w, Wire::Closed { .. }) {
                        c.sentinel().await?;
                    }
                    Ok(Some(w))
                });
                tasks.push(Some(t));
            }
            let mut out = Vec::new();
            for (i, t) in tasks.into_iter().enumerate() {
                let Some(t) = t else { continue };
                match t.await {
                    Ok(Ok(Some(w))) => out.push((sids[i], x_wire(&w))),
                    Ok(Ok(None)) => {}
                    Ok(Err(e)) => return fail(i, format!("h1 connection: {e}")),
                    Err(e) => return fail(i, format!("join: {e}")),
                }
            }
            sorted(out)
        }
    });
    cleanup(&b);
    out
}
fn burst(x: &X, use_h2: bool, conns: usize) -> X {
    persistent(|| burst_once(x, use_h2, conns))
}

/// every request alone: its own fresh host, its own connection
fn alone(x: &X, use_h2: bool) -> X {
    persistent(|| alone_once(x, use_h2))
}
fn alone_once(x: &X, use_h2: bool) -> X {
    let Some(case) = parse_case(x, 8) else { return X::bad() };
    let (Some(sids), Some(cancels)) = (sids(x), cancels(x)) else { return X::bad() };
    if sids.len() != case.reqs.len() {
        return X::bad();
    }
    if !case.reqs.iter().all(expressible) {
        return X::L(vec![X::N(96)]);
    }
    let mut out = Vec::new();
    for (i, r) in case.reqs.iter().enumerate() {
        if cancels[i].is_some() {
            continue;
        }
        let Some(b) = build(&case.cfg) else { return X::bad() };
        let desc = descriptor(&b, true);
        let mut r = resolve(r);
        // alone, the handler's delay decides nothing
        r.headers.iter_mut().filter(|(n, _)| n == b"x-delay").for_each(|(_, v)| *v = b"0".to_vec());
        let res = rt().block_on(async move {
            if use_h2 {
                let mut c = H2::open(desc).await?;
                let w = c.exchange(&r).await?;
                c.sentinel().await?;
                Ok::<Wire, String>(w)
            } else {
                let mut c = H1::open(desc, true).await?;
                let w = c.exchange(&r).await?;
                if !matches!(w, Wire::Closed { .. }) {
                    c.sentinel().await?;
                }
                Ok(w)
            }
        });
        cleanup(&b);
        match res {
            Ok(w) => out.push((sids[i], x_wire(&w))),
            Err(e) => return fail(i, e),
        }
    }
    sorted(out)
}

// -------------------------------------------------------------------------------------------
// which bytes `Body::read_to_bytes` hands a handler, per protocol
// -------------------------------------------------------------------------------------------
/// the handler of "proto.body": calls `read_to_bytes(l)` for every `l` of the request header `x-limits` (comma separated) and
/// answers every result as "<decimal length>:<bytes>"
fn body_host() -> Option<c00pipe::Built> {
    let cfg = X::L(vec![X::L(vec![X::b("cache"), X::bool(false)])]);
    let custom = |kv: &[(String, X)], host: &mut Host, shared: &Arc<c00pipe::Shared>| {
        customize(kv, host, shared);
        host.extensions.add_prepare_single(
            "/rb",
            prepare!(req, _host, _path, _addr, {
                let limits: Vec<usize> = req
                    .headers()
                    .get("x-limits")
                    .and_then(|v| v.to_str().ok())
                    .map(|s| s.split(',').filter_map(|l| l.trim().parse().ok()).collect())
                    .unwrap_or_default();
                let mut out = Vec::new();
                for l in limits {
                    match req.body_mut().read_to_bytes(l).await {
                        Ok(data) => {
                            out.extend_from_slice(data.len().to_string().as_bytes());
                            out.push(b':');
                            out.extend_from_slice(&data);
                        }
                        Err(_) => out.extend_from_slice(b"E:"),
                    }
                }
                FatResponse::new(Response::new(Bytes::from(out)), comprash::ServerCachePreference::None)
                    .with_compress(comprash::CompressPreference::None)
            }),
        );
    };
    c00pipe::build_host(&cfg, Some(&custom))
}
fn parse_reads(mut b: &[u8], n: usize) -> Option<X> {
    let mut out = Vec::new();
    for _ in 0..n {
        let colon = b.iter().position(|&c| c == b':')?;
        let len: usize = std::str::from_utf8(&b[..colon]).ok()?.parse().ok()?;
        let rest = &b[colon + 1..];
        if rest.len() < len {
            return None;
        }
        out.push(X::b(&rest[..len]));
        b = &rest[len..];
    }
    if b.is_empty() {
        Some(X::L(out))
    } else {
        None
    }
}
/// (L body (L frame_len ...) early (L limit ...)) -> (L (L read ...) (L read ...)): HTTP/1.1, HTTP/2
fn body_once(x: &X) -> X {
    let Some([body, frames, early, limits]) = x.as_l() else { return X::bad() };
    let (Some(body), Some(frames), Some(early), Some(limits)) = (body.as_b(), frames.as_l(), early.as_n(), limits.as_l()) else { return X::bad() };
    let frames: Vec<usize> = frames.iter().filter_map(|f| f.as_n().map(|n| n as usize)).collect();
    let limits: Vec<u128> = limits.iter().filter_map(X::as_n).collect();
    if limits.is_empty() || frames.iter().any(|&f| f > 16_384) {
        return X::L(vec![X::N(96)]);
    }
    let lim_txt = limits.iter().map(|l| l.to_string()).collect::<Vec<_>>().join(",");
    let (Some(ba), Some(bb)) = (body_host(), body_host()) else { return X::bad() };
    let (da, db) = (descriptor(&ba, true), descriptor(&bb, true));
    let body = body.to_vec();
    let n = limits.len();
    let early = (early as usize).min(body.len());
    rt().block_on(async move {
        // HTTP/1.1: `early` bytes of the body in the same write as the head, the rest 30 ms later
        let r1 = async {
            let mut h1 = H1::open(da, true).await.map_err(|e| format!("h1 open: {e}"))?;
            let head = format!("POST /rb HTTP/1.1\r\nhost: localhost:8443\r\nx-limits: {lim_txt}\r\ncontent-length: {}\r\n\r\n", body.len());
            let mut first = head.into_bytes();
            first.extend_from_slice(&body[..early]);
            h1.s.write_all(&first).await.map_err(|e| format!("write: {e}"))?;
            h1.s.flush().await.map_err(|e| format!("flush: {e}"))?;
            if early < body.len() {
                tokio::time::sleep(Duration::from_millis(30)).await;
                h1.s.write_all(&body[early..]).await.map_err(|e| format!("write: {e}"))?;
                h1.s.flush().await.map_err(|e| format!("flush: {e}"))?;
            }
            // read the answer of the request just written (no second request is sent by `exchange`'s framing code)
            let w = h1.read_response(false).await.map_err(|e| format!("h1: {e}"))?;
            h1.sentinel().await.map_err(|e| format!("h1 framing: {e}"))?;
            Ok::<Wire, String>(w)
        }
        .await;
        let w1 = match r1 {
            Ok(Wire::Resp { status: 200, body, .. }) => body,
            Ok(w) => return fail(0, format!("h1 answered {w:?}")),
            Err(e) => return fail(0, e),
        };
        // HTTP/2: one `send_data` per frame length (each at most the default maximal frame size), the rest in one more
        let r2 = async {
            let mut h2 = H2::open(db).await.map_err(|e| format!("h2 open: {e}"))?;
            let req = Request::builder()
                .method(Method::POST)
                .uri("https://localhost:8443/rb")
                .header("x-limits", lim_txt.as_str())
                .header("content-length", body.len().to_string())
                .body(())
                .map_err(|e| e.to_string())?;
            let send = h2.send.clone();
            let mut send = tokio::time::timeout(T, send.ready()).await.map_err(|_| timed_out("h2 ready"))?.map_err(|e| format!("h2 ready: {e}"))?;
            let (resp, mut stream) = send.send_request(req, body.is_empty()).map_err(|e| format!("h2 send_request: {e}"))?;
            let mut pos = 0;
            let mut pieces: Vec<&[u8]> = Vec::new();
            for f in &frames {
                let end = (pos + f).min(body.len());
                pieces.push(&body[pos..end]);
                pos = end;
            }
            if pos < body.len() {
                pieces.push(&body[pos..]);
            }
            let np = pieces.len();
            for (i, piece) in pieces.into_iter().enumerate() {
                // (the handler may stop reading: a failing send is not an error of the exchange)
                let _ = stream.send_data(Bytes::copy_from_slice(piece), i + 1 == np);
            }
            let resp = tokio::time::timeout(read_timeout(), resp).await.map_err(|_| timed_out("h2 response head"))?.map_err(|e| format!("h2 response: {e}"))?;
            let (parts, mut rbody) = resp.into_parts();
            let mut data = Vec::new();
            loop {
                match tokio::time::timeout(read_timeout(), rbody.data()).await {
                    Err(_) => return Err(timed_out("h2 body")),
                    Ok(None) => break,
                    Ok(Some(Err(e))) => return Err(format!("h2 body: {e}")),
                    Ok(Some(Ok(chunk))) => {
                        let _ = rbody.flow_control().release_capacity(chunk.len());
                        data.extend_from_slice(&chunk);
                    }
                }
            }
            if parts.status != StatusCode::OK {
                return Err(format!("h2 answered {}", parts.status));
            }
            h2.sentinel().await.map_err(|e| format!("h2 framing: {e}"))?;
            Ok::<Vec<u8>, String>(data)
        }
        .await;
        let w2 = match r2 {
            Ok(b) => b,
            Err(e) => return fail(1, e),
        };
        match (parse_reads(&w1, n), parse_reads(&w2, n)) {
            (Some(a), Some(b)) => X::L(vec![a, b]),
            _ => fail(2, "unreadable echo".into()),
        }
    })
}
fn body(x: &X) -> X {
    let out = persistent(|| body_once(x));
    out
}

/// "proto.sbody": `extensions::stream_body()` on a file, in process: (L file (L [(L start end)])) -> (L) for 416 |
/// (L (L bytes len status (L [content-range])))
fn sbody(x: &X) -> X {
    let Some([file, range]) = x.as_l() else { return X::bad() };
    let (Some(file), Some(range)) = (file.as_b(), range.as_l()) else { return X::bad() };
    let range = match range.first() {
        None => None,
        Some(r) => match r.as_l() {
            Some([a, b]) => match (a.as_n(), b.as_n()) {
                (Some(a), Some(b)) if a < b => Some((a, b)),
                _ => return X::L(vec![X::N(96)]),
            },
            _ => return X::bad(),
        },
    };
    let cfg = X::L(vec![
        X::L(vec![X::b("cache"), X::bool(false)]),
        X::L(vec![X::b("sfiles"), X::b("/sf/")]),
        X::L(vec![X::b("files"), X::L(vec![X::L(vec![X::b("public/sf/f.bin"), X::b(file)])])]),
    ]);
    let Some(b) = build(&cfg) else { return X::bad() };
    let Some(host) = b.hosts.get_host(&b.host_name) else { return X::bad() };
    let hdrs: Vec<X> = range.iter().map(|(a, e)| X::L(vec![X::b("range"), X::b(format!("bytes={}-{}", a, e - 1))])).collect();
    let Some(mut req) = c00pipe::make_request("localhost:8443", b"GET", b"/sf/f.bin", &hdrs, b"") else { return X::L(vec![X::N(96)]) };
    let out = rt().block_on(async {
        let reply = kvarn::handle_cache(&mut req, c00pipe::sockaddr(1), host).await;
        let content_range: Vec<X> = reply.response.headers().get_all("content-range").iter().map(|v| X::b(v.as_bytes())).collect();
        match (reply.response.status().as_u16(), reply.future) {
            (416, None) => X::L(vec![]),
            (st @ (200 | 206), Some((fut, Some(len)))) if content_range.len() <= 1 => match run_future(fut, host).await {
                Some(written) => X::L(vec![X::L(vec![X::b(&written), X::n(len), X::n(st), X::L(content_range)])]),
                None => X::L(vec![X::N(96), X::b("the stream future could not be observed")]),
            },
            (st, _) => X::L(vec![X::N(95), X::n(st)]),
        }
    });
    cleanup(&b);
    out
}

// -------------------------------------------------------------------------------------------
// the request-head limits of the two front ends
// -------------------------------------------------------------------------------------------
/// "proto.head": (L cfg request) -> (L h1 h2), each `(L)` = the request was not answered | `(L (N status))`.
/// One request — to the sentinel page, which answers 200 whatever the request says — on a fresh HTTP/1.1 (TLS) connection and
/// on a fresh HTTP/2 connection to identical fresh hosts.  The head the HTTP/1.1 client writes is
/// `<method> <target> HTTP/1.1\r\nhost: localhost:8443\r\n` + `<name>: <value>\r\n` per field + `\r\n`; the header list of the
/// HTTP/2 request is :method, :scheme = https, :authority = localhost:8443, :path and the same fields.
/// Not answered = the server ended the connection / reset the stream without a response head (anything that is not
/// harness trouble); a time-out is trouble, never "not answered".
fn head_once(x: &X) -> X {
    let Some([cfg, req]) = x.as_l() else { return X::bad() };
    let Some(req) = parse_req(req) else { return X::bad() };
    if !expressible(&req) || !req.body.is_empty() {
        return X::L(vec![X::N(96)]);
    }
    let (Some(ba), Some(bb)) = (build(cfg), build(cfg)) else { return X::bad() };
    let (da, db) = (descriptor(&ba, true), descriptor(&bb, true));
    let out = rt().block_on(async move {
        let r1 = async {
            let mut h1 = H1::open(da, true).await.map_err(|e| format!("open: h1: {e}"))?;
            h1.exchange(&req).await
        }
        .await;
        let r2 = async {
            let mut h2 = H2::open(db).await.map_err(|e| format!("open: h2: {e}"))?;
            h2.exchange(&req).await
        }
        .await;
        let mut out = Vec::new();
        for (i, r) in [r1, r2].into_iter().enumerate() {
            match r {
                Ok(Wire::Resp { status, .. }) | Ok(Wire::Closed { status, .. }) => out.push(X::L(vec![X::n(status)])),
                Ok(Wire::Refused) => out.push(X::L(vec![])),
                Err(e) if is_trouble(&e) || e.contains("open:") => return fail(i, e),
                Err(_) => out.push(X::L(vec![])),
            }
        }
        X::L(out)
    });
    cleanup(&ba);
    cleanup(&bb);
    out
}
/// "not answered" is an outcome only when a second run with fresh hosts agrees
fn head(x: &X) -> X {
    let a = head_once(x);
    let unanswered = |o: &X| o.as_l().map_or(false, |l| l.len() == 2 && l.iter().any(|e| e.as_l().map_or(false, |v| v.is_empty())));
    if !unanswered(&a) {
        return a;
    }
    std::thread::sleep(Duration::from_millis(40));
    let b = head_once(x);
    let (mut ta, mut tb) = (String::new(), String::new());
    a.write(&mut ta);
    b.write(&mut tb);
    if ta == tb || tb.starts_with("(L (N 9") {
        b
    } else {
        fail(0, "open: the outcome of this request is not stable".into())
    }
}

// -------------------------------------------------------------------------------------------
// streams the client resets, with the frames under the harness's control
// -------------------------------------------------------------------------------------------
/// HPACK integer with a `prefix`-bit prefix (RFC 7541 5.1), `first` = the bits above the prefix
fn hpack_int(out: &mut Vec<u8>, first: u8, prefix: u8, mut n: usize) {
    let max = (1usize << prefix) - 1;
    if n < max {
        out.push(first | n as u8);
        return;
    }
    out.push(first | max as u8);
    n -= max;
    while n >= 128 {
        out.push((n % 128) as u8 | 0x80);
        n /= 128;
    }
    out.push(n as u8);
}
fn hpack_str(out: &mut Vec<u8>, s: &[u8]) {
    hpack_int(out, 0, 7, s.len()); // no Huffman coding
    out.extend_from_slice(s);
}
/// the header block of a request: literal fields without indexing (names of the pseudo-headers from the static table)
fn hpack_request(r: &Req) -> Vec<u8> {
    let mut b = Vec::new();
    for (idx, v) in [(2usize, &r.method[..]), (7, b"https"), (1, b"localhost:8443"), (4, &r.target[..])] {
        hpack_int(&mut b, 0, 4, idx);
        hpack_str(&mut b, v);
    }
    for (n, v) in r.headers.iter().filter(|(n, _)| n != LATE) {
        b.push(0);
        hpack_str(&mut b, n);
        hpack_str(&mut b, v);
    }
    b
}
fn h2_frame(out: &mut Vec<u8>, ty: u8, flags: u8, sid: u32, payload: &[u8]) {
    out.extend_from_slice(&(payload.len() as u32).to_be_bytes()[1..]);
    out.push(ty);
    out.push(flags);
    out.extend_from_slice(&sid.to_be_bytes());
    out.extend_from_slice(payload);
}
/// `:status` of a response header block as h2 writes it: first field; indexed (200, 204, 206, 304, 400, 404, 500) or a literal
/// with the name index 8 .. 14.  0 = not understood.
fn hpack_status(mut b: &[u8]) -> u16 {
    while let Some(&c) = b.first() {
        if c & 0xE0 == 0x20 {
            b = &b[1..]; // dynamic table size update
        } else {
            break;
        }
    }
    let Some(&c) = b.first() else { return 0 };
    if c & 0x80 != 0 {
        return match c & 0x7F {
            8 => 200,
            9 => 204,
            10 => 206,
            11 => 304,
            12 => 400,
            13 => 404,
            14 => 500,
            _ => 0,
        };
    }
    // literal: 01xxxxxx (incremental indexing, 6-bit index), 0000xxxx / 0001xxxx (4-bit index)
    let idx = if c & 0x40 != 0 { c & 0x3F } else { c & 0x0F };
    if !(8..=14).contains(&idx) || b.len() < 5 {
        return 0;
    }
    if b[1] == 3 {
        return std::str::from_utf8(&b[2..5]).ok().and_then(|s| s.parse().ok()).unwrap_or(0);
    }
    if b[1] != 0x83 {
        return 0;
    }
    // three digits in the Huffman code of RFC 7541: '0'..'2' = 00000..00010 (5 bits), '3'..'9' = 011001..011111 (6 bits)
    let bits = u32::from_be_bytes([0, b[2], b[3], b[4]]);
    let (mut pos, mut st) = (24u32, 0u16);
    for _ in 0..3 {
        if pos < 6 {
            return 0;
        }
        let five = (bits >> (pos - 5)) & 0x1F;
        if five <= 2 {
            st = st * 10 + five as u16;
            pos -= 5;
        } else {
            let six = (bits >> (pos - 6)) & 0x3F;
            if !(0x19..=0x1F).contains(&six) {
                return 0;
            }
            st = st * 10 + (six - 0x19 + 3) as u16;
            pos -= 6;
        }
    }
    st
}

/// "proto.rst": (L cfg (L request ...) (L reset_index ...) (L (L limited status) ...)) -> (L (L (L sid status) ...) alive)
/// A fresh HTTP/2 connection (TLS, ALPN h2) written by hand: the client preface, SETTINGS, one HEADERS frame (END_STREAM) per
/// request - stream ids 1, 3, 5, ... - and RST_STREAM(CANCEL) for the streams named, ALL IN ONE WRITE (one TLS record): the server's
/// h2 reads the requests and the resets in the same poll, so `accept` hands kvarn streams the client has already reset -
/// which otherwise happens only when a reset overtakes kvarn's accept loop.  The client then reads frames until every stream
/// it did not reset has been answered completely (END_STREAM), and checks with a PING that the connection is still served.
/// Output: the streams (not reset by the client) that were answered, with their status, in stream order; alive = 1 / 0 = the
/// connection ended (or GOAWAY) before that.  A time-out is harness trouble, never an outcome.
fn rst_once(x: &X) -> X {
    // (a fourth element - the limiter's verdict and the page's status per request - is for the model only)
    let Some([cfg, reqs, resets, ..]) = x.as_l() else { return X::bad() };
    let (Some(reqs), Some(resets)) = (parse_reqs(reqs), resets.as_l()) else { return X::bad() };
    let resets: Vec<usize> = resets.iter().filter_map(|r| r.as_n().map(|n| n as usize)).collect();
    if !reqs.iter().all(|r| expressible(r) && r.body.is_empty()) || reqs.len() > 1000 {
        return X::L(vec![X::N(96)]);
    }
    let Some(b) = build(cfg) else { return X::bad() };
    let desc = descriptor(&b, true);
    let out = rt().block_on(async move {
        let mut s = match connect_tls(desc.into(), tls().client_h2.clone(), b"h2").await {
            Ok(s) => s,
            Err(e) => return fail(0, format!("open: h2 (raw): {e}")),
        };
        let mut out = b"PRI * HTTP/2.0\r\n\r\nSM\r\n\r\n".to_vec();
        // SETTINGS_HEADER_TABLE_SIZE = 0: the server's HPACK encoder uses no dynamic table, every `:status` is the static index
        // or a literal (`hpack_status` needs no decoder state)
        h2_frame(&mut out, 4, 0, 0, &[0, 1, 0, 0, 0, 0]);
        for (i, r) in reqs.iter().enumerate() {
            h2_frame(&mut out, 1, 0x5, 2 * i as u32 + 1, &hpack_request(&resolve(r)));
        }
        for &i in &resets {
            h2_frame(&mut out, 3, 0, 2 * i as u32 + 1, &8u32.to_be_bytes());
        }
        if s.write_all(&out).await.is_err() || s.flush().await.is_err() {
            return fail(0, "open: h2 (raw): write".into());
        }
        let want: Vec<u32> = (0..reqs.len()).filter(|i| !resets.contains(i)).map(|i| 2 * i as u32 + 1).collect();
        let mut status: std::collections::BTreeMap<u32, u16> = Default::default();
        let mut ended: std::collections::BTreeSet<u32> = Default::default();
        let mut buf: Vec<u8> = Vec::new();
        let mut alive = true;
        let mut pinged = false;
        let deadline = tokio::time::Instant::now() + T;
        'conn: loop {
            if !pinged && want.iter().all(|sid| ended.contains(sid)) {
                let mut ping = Vec::new();
                h2_frame(&mut ping, 6, 0, 0, b"c20-ping");
                if s.write_all(&ping).await.is_err() || s.flush().await.is_err() {
                    alive = false;
                    break;
                }
                pinged = true;
            }
            // one frame
            while buf.len() < 9 || buf.len() < 9 + u32::from_be_bytes([0, buf[0], buf[1], buf[2]]) as usize {
                let mut tmp = [0u8; 16384];
                match tokio::time::timeout_at(deadline, s.read(&mut tmp)).await {
                    Err(_) => return fail(0, timed_out("h2 (raw) frames")),
                    Ok(Ok(0)) | Ok(Err(_)) => {
                        alive = false;
                        break 'conn;
                    }
                    Ok(Ok(n)) => buf.extend_from_slice(&tmp[..n]),
                }
            }
            let len = u32::from_be_bytes([0, buf[0], buf[1], buf[2]]) as usize;
            let (ty, flags) = (buf[3], buf[4]);
            let sid = u32::from_be_bytes([buf[5] & 0x7F, buf[6], buf[7], buf[8]]);
            let payload: Vec<u8> = buf[9..9 + len].to_vec();
            buf.drain(..9 + len);
            match ty {
                // DATA / HEADERS: END_STREAM = 0x1
                0 | 1 => {
                    if ty == 1 {
                        // (no padding, no priority in what h2 sends)
                        status.entry(sid).or_insert_with(|| hpack_status(&payload));
                    }
                    if flags & 0x1 != 0 {
                        ended.insert(sid);
                    }
                }
                // RST_STREAM from the server: that stream is over, unanswered unless it had ended
                3 => {}
                // SETTINGS: acknowledge
                4 if flags & 0x1 == 0 => {
                    let mut ack = Vec::new();
                    h2_frame(&mut ack, 4, 0x1, 0, &[]);
                    if s.write_all(&ack).await.is_err() || s.flush().await.is_err() {
                        alive = false;
                        break;
                    }
                }
                // PING ack: the connection is served
                6 if flags & 0x1 != 0 && pinged => break,
                // GOAWAY
                7 => {
                    alive = false;
                    break;
                }
                _ => {}
            }
        }
        let answered: Vec<X> = want
            .iter()
            .filter(|sid| ended.contains(sid) && status.contains_key(sid))
            .map(|sid| X::L(vec![X::n(*sid), X::n(status[sid])]))
            .collect();
        X::L(vec![X::L(answered), X::bool(alive)])
    });
    cleanup(&b);
    out
}
fn rst(x: &X) -> X {
    // an outcome in which the connection did not survive counts only if a second run (fresh host, fresh connection) agrees
    let a = rst_once(x);
    let mut ta = String::new();
    a.write(&mut ta);
    if ta.starts_with("(L (N 9") || ta.ends_with("(N 1))") {
        return a;
    }
    std::thread::sleep(Duration::from_millis(40));
    let b2 = rst_once(x);
    let mut tb = String::new();
    b2.write(&mut tb);
    if ta == tb || tb.starts_with("(L (N 9") {
        b2
    } else {
        fail(0, "open: the outcome of this burst is not stable".into())
    }
}

pub fn dispatch(comp: &str, x: &X) -> Option<X> {
    Some(match comp {
        "proto.l4" => l4(x),
        "proto.pair" => pair(x, false),
        "proto.answered" => pair(x, true),
        "proto.server" => server(x),
        "proto.burst" => burst(x, true, 1),
        "proto.burst2" => burst(x, true, 2),
        "proto.burst1" => burst(x, false, 1),
        "proto.body" => body(x),
        "proto.sbody" => sbody(x),
        "proto.head" => head(x),
        "proto.rst" => rst(x),
        "proto.alone" => alone(x, true),
        "proto.alone1" => alone(x, false),
        _ => return None,
    })
}
