//! C12, concurrent calls: several OS threads call `LimitManager::register` on one manager at the same time.
//!
//! input : (L checked config (L prog ...) (L (N tid) ...)),  prog = (L (L (N addr) (N times)) ...)
//!         (the last member, a schedule prefix, only steers the model)
//! limiter.conc      -> per address, in the order of first occurrence in the programs:
//!                      (L (N addr) (N passed) (N send) (N drop) (N other) (N harsher))
//! limiter.concbound -> (L (N harsher) (N panics) (N calls))
//! `harsher`: calls answered more harshly than the ladder of `max_requests` on the number of calls of the
//! same address that had BEGUN when the answer was there (an upper bound of those that had returned before
//! it took effect) — what other addresses do must never make an answer harsher than that.
use crate::xval::X;
use kvarn::limiting::{Action as LimitAction, Manager as LimitManager};
use std::collections::HashMap;
use std::net::{IpAddr, Ipv4Addr, Ipv6Addr};
use std::sync::atomic::{AtomicUsize, Ordering};
use std::sync::{Arc, Barrier};

fn ip(n: u128) -> IpAddr {
    if n <= u32::MAX as u128 {
        IpAddr::V4(Ipv4Addr::from(n as u32))
    } else {
        IpAddr::V6(Ipv6Addr::from(n))
    }
}

fn config(x: &X) -> Option<(usize, usize, f64)> {
    let l = x.as_l()?;
    if l.len() != 3 {
        return None;
    }
    let max = usize::try_from(l[0].as_n()?).ok()?;
    let ce = usize::try_from(l[1].as_n()?).ok()?;
    let r = l[2].as_l()?;
    if r.len() != 2 {
        return None;
    }
    let v = r[1].as_n()?;
    let reset = match r[0].as_n()? {
        0 => v as f64 / 1000.0,
        1 => f64::INFINITY,
        2 => f64::NAN,
        3 => -(v as f64) / 1000.0 - 0.001,
        _ => return None,
    };
    Some((max, ce, reset))
}

fn ladder(max: usize, n: usize) -> u8 {
    if n <= max {
        0
    } else if (n as u128) <= 3 * max as u128 {
        1
    } else {
        2
    }
}

struct Tally {
    /// per address index: passed, send, drop, other (panic), harsher
    per: Vec<[usize; 5]>,
}

fn run(x: &X) -> Option<(Vec<u128>, Tally, usize)> {
    let l = match x.as_l() { Some(l) if l.len() == 4 => l, _ => return None };
    l[0].as_bool()?;
    let (max, ce, reset) = config(&l[1])?;
    // programs, run-length encoded; addresses numbered in the order of first occurrence
    let mut order: Vec<u128> = Vec::new();
    let mut index: HashMap<u128, usize> = HashMap::new();
    let mut progs: Vec<Vec<(usize, usize)>> = Vec::new();
    let mut total = 0usize;
    for p in l[2].as_l()? {
        let mut prog = Vec::new();
        for r in p.as_l()? {
            match r.as_l()? {
                [X::N(a), X::N(k)] if *k <= 1_000_000 => {
                    if *k == 0 {
                        continue;
                    }
                    let i = *index.entry(*a).or_insert_with(|| {
                        order.push(*a);
                        order.len() - 1
                    });
                    prog.push((i, *k as usize));
                    total += *k as usize;
                }
                _ => return None,
            }
        }
        progs.push(prog);
    }
    for t in l[3].as_l()? {
        t.as_n()?;
    }
    if total > 4_000_000 || progs.len() > 64 {
        return None;
    }
    let manager = Arc::new(LimitManager::new(max, ce, reset));
    let addrs: Arc<Vec<IpAddr>> = Arc::new(order.iter().map(|a| ip(*a)).collect());
    let begun: Arc<Vec<AtomicUsize>> = Arc::new(order.iter().map(|_| AtomicUsize::new(0)).collect());
    let barrier = Arc::new(Barrier::new(progs.len().max(1)));
    let mut handles = Vec::new();
    for prog in progs {
        let (manager, addrs, begun, barrier) = (Arc::clone(&manager), Arc::clone(&addrs), Arc::clone(&begun), Arc::clone(&barrier));
        let n = addrs.len();
        handles.push(std::thread::spawn(move || {
            let mut per = vec![[0usize; 5]; n];
            barrier.wait();
            for (i, times) in prog {
                let addr = addrs[i];
                for _ in 0..times {
                    begun[i].fetch_add(1, Ordering::SeqCst);
                    let r = std::panic::catch_unwind(std::panic::AssertUnwindSafe(|| manager.register(addr)));
                    let seen = begun[i].load(Ordering::SeqCst);
                    let code = match r {
                        Ok(LimitAction::Passed) => 0,
                        Ok(LimitAction::Send) => 1,
                        Ok(LimitAction::Drop) => 2,
                        Err(_) => 3,
                    };
                    per[i][code as usize] += 1;
                    if code < 3 && code > ladder(max, seen) {
                        per[i][4] += 1;
                    }
                }
            }
            per
        }));
    }
    let mut tally = Tally { per: vec![[0usize; 5]; order.len()] };
    for h in handles {
        let per = h.join().ok()?;
        for (t, p) in tally.per.iter_mut().zip(per) {
            for k in 0..5 {
                t[k] += p[k];
            }
        }
    }
    Some((order, tally, total))
}

fn conc(x: &X) -> X {
    match run(x) {
        Some((order, tally, _)) => X::L(
            order
                .iter()
                .zip(tally.per.iter())
                .map(|(a, t)| X::L(vec![X::N(*a), X::n(t[0]), X::n(t[1]), X::n(t[2]), X::n(t[3]), X::n(t[4])]))
                .collect(),
        ),
        None => X::bad(),
    }
}

fn concbound(x: &X) -> X {
    match run(x) {
        Some((_, tally, total)) => X::L(vec![
            X::n(tally.per.iter().map(|t| t[4]).sum::<usize>()),
            X::n(tally.per.iter().map(|t| t[3]).sum::<usize>()),
            X::n(total),
        ]),
        None => X::bad(),
    }
}

pub fn dispatch(comp: &str, x: &X) -> Option<X> {
    Some(match comp {
        "limiter.conc" => conc(x),
        "limiter.concbound" => concbound(x),
        _ => return None,
    })
}
