//! C17 — access-guarding file directives (`!> allow-ips`, `!> hide`, `*.private`) in the
//! request pipeline, on a host whose extensions are `Extensions::empty()` (or `Extensions::new()` when
//! cfg `default_ext` is set) + `kvarn_extensions::mount_all`; fixture files (also outside `public/`:
//! `errors/<code>.html`, `templates/...`) in a fresh directory.
//!
//! component `guards.run` (in process, the real `kvarn::handle_cache`):
//!   scenario = (L cfg ops), cfg as in c00pipe::build_host (keys used: files, cache, fcache, vary, report,
//!              default_ext, disable_ims)
//!   op       = (L (N 0) addr method target headers body) | (L (N 1) target) | (L (N 2)) | (L (N 3) ms)
//!            | (L (N 4) (B rel) (B content)): the fixture (re)writes the file public/<rel> (written beside it and renamed
//!              into place, so that the server never reads half a file); result (L)
//!   addr     = (N n)            n < 65536: 10.0.(n/256).(n%256)        (as c00pipe::sockaddr)
//!            | (L (N 4) (N v))  the IPv4 address with the 32-bit value v
//!            | (L (N 6) (N v))  the IPv6 address with the 128-bit value v
//!   result   = per request (L status headers body decode_ok identity log) as c00pipe, but a hard-coded error
//!              page of status s (recognised with `kvarn_utils::hardcoded_error_body` itself, whatever the
//!              message) is written `ERRPAGE:<s>`.
//!
//! component `guards.wire` (every request over its own loopback HTTP/1.1 connection served by
//!   `kvarn::handle_connection` with the chosen peer address, so that what is judged is what `SendKind::send`
//!   wrote: Range slicing, the HEAD rule, Package extensions, content-length):
//!   op       = (L (N 0) addr method target headers allow twin) | (L (N 1) target) | (L (N 2)) | (L (N 3) ms) | (L (N 4) rel content)
//!              allow = name of the fixture file whose SECRET marker this reply may carry ("" = none)
//!              twin  = 0 | 1 + index of an earlier request op whose answer this one must equal byte for byte
//!                      (status, every header but `date`, the value of `last-modified` excepted, body)
//!   result   = (L violation ...), violation = (L (N op index) (B what)); (L) = the specification holds
//!   harness trouble (connect failure, time-out, unparsable answer) = (L (N 93) (B why))
//! component `guards.wire_obs`: the same history, result = per request (L status (L (L name value) ...) body)
use crate::c00pipe as pipe;
use crate::xval::X;
use bytes::Bytes;
use kvarn::prelude::*;
use std::sync::Arc;
use std::time::Duration;
use tokio::io::{AsyncReadExt, AsyncWriteExt};

const WAIT: Duration = Duration::from_secs(20);

fn customize() -> Box<pipe::Customize> {
    Box::new(|kv, host, _shared| {
        kvarn_extensions::mount_all(&mut host.extensions);
        // cfg `fcache_seed` = (L (L (B path relative to the host directory) (L) | (L (B content))) ...): entries the file cache
        // holds before the first request (stale content, or "no such file"), under the key the server itself uses for the path
        if let (Some(seed), Some(cache)) = (kv.iter().find(|(n, _)| n == "fcache_seed").and_then(|(_, v)| v.as_l()), host.file_cache.as_ref()) {
            for e in seed {
                if let Some([X::B(rel), X::L(v)]) = e.as_l() {
                    let key = format!("{}/{}", host.path, String::from_utf8_lossy(rel));
                    let value = match &v[..] {
                        [X::B(content)] => Some((kvarn::prelude::chrono::OffsetDateTime::now_utc(), Bytes::copy_from_slice(content))),
                        _ => None,
                    };
                    cache.cache.insert(key.into(), value);
                }
            }
        }
    })
}

/// op 4: (re)write `public/<rel>` of the fixture directory. `rel` is a plain relative path (no empty, `.` or `..` component):
/// anything else is "input not expressible".  `Err(true)` = not expressible, `Err(false)` = the write itself failed (harness trouble)
fn write_public(b: &pipe::Built, rel: &[u8], content: &[u8]) -> Result<(), bool> {
    let rel = std::str::from_utf8(rel).map_err(|_| true)?;
    if rel.is_empty() || rel.split('/').any(|c| c.is_empty() || c == "." || c == ".." || c.contains('\0')) {
        return Err(true);
    }
    let dir = b.dir.as_ref().ok_or(true)?;
    let full = dir.join("public").join(rel);
    let parent = full.parent().ok_or(true)?;
    std::fs::create_dir_all(parent).map_err(|_| false)?;
    static N: std::sync::atomic::AtomicUsize = std::sync::atomic::AtomicUsize::new(0);
    let tmp = dir.join(format!(".write-{}", N.fetch_add(1, std::sync::atomic::Ordering::SeqCst)));
    std::fs::write(&tmp, content).map_err(|_| false)?;
    std::fs::rename(&tmp, &full).map_err(|_| false)
}

/// the client address of an operation
fn address(x: &X, port: u16) -> Option<SocketAddr> {
    match x {
        X::N(n) if *n < 65536 => Some(SocketAddr::new(pipe::sockaddr(*n).ip(), port)),
        X::N(_) => None,
        X::L(l) => match &l[..] {
            [X::N(4), X::N(v)] if *v < (1u128 << 32) => Some(SocketAddr::new(IpAddr::V4(net::Ipv4Addr::from(*v as u32)), port)),
            [X::N(6), X::N(v)] => Some(SocketAddr::new(IpAddr::V6(net::Ipv6Addr::from(*v)), port)),
            _ => None,
        },
        X::B(_) => None,
    }
}

const CODES: [u16; 12] = [400, 401, 403, 404, 405, 406, 409, 410, 416, 429, 500, 503];

/// `ERRPAGE:<code>` for kvarn's hard-coded error page of any of the usual codes (with or without a message)
pub fn canon_error(b: &[u8]) -> Vec<u8> {
    if !b.starts_with(b"<!DOCTYPE html>") {
        return b.to_vec();
    }
    for code in CODES {
        let code = match StatusCode::from_u16(code) {
            Ok(c) => c,
            Err(_) => continue,
        };
        if b == &kvarn_utils::hardcoded_error_body(code, None)[..] {
            return format!("ERRPAGE:{}", code.as_u16()).into_bytes();
        }
        // with a message: everything before and after the message is that of the page
        let with = kvarn_utils::hardcoded_error_body(code, Some(b"\x01\x02\x01"));
        if let Some(p) = with.windows(3).position(|w| w == b"\x01\x02\x01") {
            let (pre, post) = (&with[..p], &with[p + 3..]);
            if b.len() >= pre.len() + post.len() && b.starts_with(pre) && b.ends_with(post) {
                return format!("ERRPAGE:{}", code.as_u16()).into_bytes();
            }
        }
    }
    b.to_vec()
}

async fn run_ops(b: &pipe::Built, ops: &[X]) -> Option<Vec<X>> {
    let host = b.hosts.get_host(&b.host_name)?;
    let mut out = Vec::new();
    let now = || std::time::SystemTime::now().duration_since(std::time::UNIX_EPOCH).unwrap();
    if let Some(phase) = b.align {
        let frac = now().subsec_millis() as u64;
        tokio::time::sleep(Duration::from_millis((phase + 1000 - frac) % 1000)).await;
    }
    let t0 = now().as_secs();
    for op in ops {
        let l = op.as_l()?;
        match l.first()?.as_n()? {
            0 => {
                if l.len() != 6 {
                    return None;
                }
                let addr = match address(&l[1], 4000) {
                    Some(a) => a,
                    None => {
                        out.push(X::L(vec![X::N(96)]));
                        continue;
                    }
                };
                let hdrs: Vec<X> = l[4]
                    .as_l()?
                    .iter()
                    .map(|h| match h.as_l() {
                        Some([n, v]) if n.as_b() == Some(b"if-modified-since") => {
                            X::L(vec![n.clone(), X::b(pipe::subst_ims(v.as_b().unwrap_or(b""), t0))])
                        }
                        _ => h.clone(),
                    })
                    .collect();
                let mut req = match pipe::make_request(&b.host_name, l[2].as_b()?, l[3].as_b()?, &hdrs, l[5].as_b()?) {
                    Some(r) => r,
                    None => {
                        out.push(X::L(vec![X::N(96)]));
                        continue;
                    }
                };
                b.shared.log.lock().unwrap().clear();
                let reply = kvarn::handle_cache(&mut req, addr, host).await;
                let log: Vec<X> = b.shared.log.lock().unwrap().iter().map(X::b).collect();
                let enc = reply.response.headers().get("content-encoding").map(|v| v.as_bytes().to_vec());
                let (decoded, ok) = pipe::decode_body(enc.as_deref(), reply.response.body());
                out.push(X::L(vec![
                    X::n(reply.response.status().as_u16()),
                    pipe::report_headers(reply.response.headers(), &b.report),
                    X::b(canon_error(&decoded)),
                    X::bool(ok),
                    X::b(canon_error(&reply.identity_body)),
                    X::L(log),
                ]));
            }
            1 => {
                let uri = Uri::try_from(l.get(1)?.as_b()?).ok()?;
                let (found, cleared) = b.hosts.clear_page(&b.host_name, &uri);
                out.push(X::L(vec![X::bool(found), X::bool(cleared)]));
            }
            2 => {
                b.hosts.clear_response_caches(None).await;
                out.push(X::L(vec![]));
            }
            3 => {
                tokio::time::sleep(Duration::from_millis(l.get(1)?.as_n()? as u64)).await;
                out.push(X::L(vec![]));
            }
            4 => {
                if l.len() != 3 {
                    return None;
                }
                match write_public(b, l[1].as_b()?, l[2].as_b()?) {
                    Ok(()) => out.push(X::L(vec![])),
                    Err(true) => return Some(vec![X::N(96)]),
                    Err(false) => return Some(vec![X::N(93), X::b("the fixture file could not be written")]),
                }
            }
            _ => return None,
        }
    }
    Some(out)
}

/// a crashed earlier process with this process' id may have left fixture directories `.run/<pid>-<n>` behind; `build_host` would
/// write the next fixture INTO such a directory (stale files, e.g. an errors/404.html, would join it): remove them once
fn clean_stale_dirs() {
    static ONCE: std::sync::Once = std::sync::Once::new();
    ONCE.call_once(|| {
        let run = format!("{}/.run", env!("CARGO_MANIFEST_DIR").trim_end_matches("/harness"));
        let prefix = format!("{}-", std::process::id());
        if let Ok(rd) = std::fs::read_dir(&run) {
            for e in rd.flatten() {
                if e.file_name().to_string_lossy().starts_with(&prefix) {
                    let _ = std::fs::remove_dir_all(e.path());
                }
            }
        }
    });
}

fn run(x: &X) -> X {
    clean_stale_dirs();
    let l = match x.as_l() {
        Some(l) if l.len() == 2 => l,
        _ => return X::bad(),
    };
    let c = customize();
    let built = match pipe::build_host(&l[0], Some(&*c)) {
        Some(b) => b,
        None => return X::bad(),
    };
    let ops = match l[1].as_l() {
        Some(o) => o,
        None => return X::bad(),
    };
    let res = pipe::block_on(run_ops(&built, ops));
    if let Some(d) = &built.dir {
        let _ = std::fs::remove_dir_all(d);
    }
    match res {
        Some(v) => X::L(v),
        None => X::bad(),
    }
}

// ------------------------------------------------------------------------------------------------
// on the wire
// ------------------------------------------------------------------------------------------------
struct Answer {
    status: u16,
    headers: Vec<(Vec<u8>, Vec<u8>)>,
    body: Vec<u8>,
}

/// (framing as in c05wire.rs)
async fn read_answer(stream: &mut tokio::net::TcpStream, is_head: bool) -> Result<Answer, &'static str> {
    let mut buf: Vec<u8> = Vec::new();
    async fn more(stream: &mut tokio::net::TcpStream, buf: &mut Vec<u8>) -> Result<(), &'static str> {
        let mut tmp = [0u8; 16384];
        match tokio::time::timeout(WAIT, stream.read(&mut tmp)).await {
            Ok(Ok(0)) => Err("connection closed by the server"),
            Ok(Ok(n)) => {
                buf.extend_from_slice(&tmp[..n]);
                Ok(())
            }
            Ok(Err(_)) => Err("read error"),
            Err(_) => Err("time-out waiting for the answer"),
        }
    }
    let head_end = loop {
        if let Some(p) = buf.windows(4).position(|w| w == b"\r\n\r\n") {
            break p + 4;
        }
        more(stream, &mut buf).await?;
    };
    let head = buf[..head_end - 4].to_vec();
    let mut lines = head.split(|c| *c == b'\n').map(|l| l.strip_suffix(b"\r").unwrap_or(l));
    let first = lines.next().ok_or("empty head")?;
    let mut parts = first.splitn(3, |c| *c == b' ');
    let version = parts.next().ok_or("no version")?;
    if !version.starts_with(b"HTTP/1.") {
        return Err("not an HTTP/1 status line");
    }
    let status: u16 = std::str::from_utf8(parts.next().ok_or("no status")?).ok().and_then(|s| s.parse().ok()).ok_or("bad status")?;
    let mut headers = Vec::new();
    for l in lines {
        let colon = l.iter().position(|c| *c == b':').ok_or("header line without colon")?;
        let name = l[..colon].to_ascii_lowercase();
        let mut v = &l[colon + 1..];
        while let [b' ' | b'\t', rest @ ..] = v {
            v = rest;
        }
        while let [rest @ .., b' ' | b'\t'] = v {
            v = rest;
        }
        headers.push((name, v.to_vec()));
    }
    let bodyless = is_head || (100..200).contains(&status) || status == 204 || status == 304;
    let len = if bodyless {
        0
    } else {
        headers
            .iter()
            .find(|(n, _)| n == b"content-length")
            .and_then(|(_, v)| std::str::from_utf8(v).ok())
            .and_then(|v| v.parse::<usize>().ok())
            .ok_or("no content-length")?
    };
    while buf.len() < head_end + len {
        more(stream, &mut buf).await?;
    }
    // after the answer to HEAD nothing may follow: give stray body bytes 150 ms to show up
    if is_head {
        let mut tmp = [0u8; 4096];
        if let Ok(Ok(n)) = tokio::time::timeout(Duration::from_millis(150), stream.read(&mut tmp)).await {
            buf.extend_from_slice(&tmp[..n]);
        }
        return Ok(Answer { status, headers, body: buf[head_end..].to_vec() });
    }
    Ok(Answer { status, headers, body: buf[head_end..head_end + len].to_vec() })
}

async fn open(hosts: Arc<HostCollection>, peer: SocketAddr) -> std::io::Result<tokio::net::TcpStream> {
    // an address of 127/8 of this process' own and port 0 (see c05wire.rs)
    static N: std::sync::atomic::AtomicU32 = std::sync::atomic::AtomicU32::new(0);
    let n = N.fetch_add(1, std::sync::atomic::Ordering::Relaxed);
    let pid = std::process::id();
    let ip = std::net::Ipv4Addr::new(127, (1 + pid % 250) as u8, ((pid / 250 + n / 250) % 256) as u8, (1 + n % 250) as u8);
    let listener = match tokio::net::TcpListener::bind((ip, 0)).await {
        Ok(l) => l,
        Err(_) => tokio::net::TcpListener::bind("127.0.0.1:0").await?,
    };
    let addr = listener.local_addr()?;
    let client = tokio::net::TcpStream::connect(addr).await?;
    let (server_end, _) = listener.accept().await?;
    let desc = Arc::new(PortDescriptor::unsecure(8080, hosts));
    tokio::spawn(async move {
        // the peer address is what the accept loop hands over: here the address the scenario chose
        let _ = kvarn::handle_connection(kvarn::Incoming::Tcp(server_end), peer, desc, || true).await;
    });
    Ok(client)
}

fn trouble(why: &str) -> X {
    X::L(vec![X::N(93), X::b(why)])
}

enum WireOut {
    Reply(Answer),
    Other,
}

async fn wire_ops(b: &pipe::Built, ops: &[X]) -> Result<Vec<WireOut>, X> {
    let mut out = Vec::new();
    for (i, op) in ops.iter().enumerate() {
        let l = op.as_l().ok_or_else(X::bad)?;
        match l.first().and_then(X::as_n).ok_or_else(X::bad)? {
            0 => {
                if l.len() < 5 {
                    return Err(X::bad());
                }
                let peer = address(&l[1], 4000 + (i % 20000) as u16).ok_or_else(|| X::L(vec![X::N(96)]))?;
                let method = l[2].as_b().ok_or_else(X::bad)?;
                let target = l[3].as_b().ok_or_else(X::bad)?;
                let mut head = Vec::new();
                head.extend_from_slice(method);
                head.push(b' ');
                head.extend_from_slice(target);
                head.extend_from_slice(b" HTTP/1.1\r\nhost: ");
                head.extend_from_slice(b.host_name.as_bytes());
                head.extend_from_slice(b"\r\n");
                for h in l[4].as_l().ok_or_else(X::bad)? {
                    let (n, v) = match h.as_l() {
                        Some([X::B(n), X::B(v)]) => (n, v),
                        _ => return Err(X::bad()),
                    };
                    if n.is_empty() || v.iter().any(|c| *c == b'\r' || *c == b'\n' || *c == 0) {
                        return Err(X::L(vec![X::N(96)]));
                    }
                    head.extend_from_slice(n);
                    head.extend_from_slice(b": ");
                    head.extend_from_slice(v);
                    head.extend_from_slice(b"\r\n");
                }
                head.extend_from_slice(b"\r\n");
                let mut stream = None;
                let mut why = String::new();
                for attempt in 0..4u64 {
                    match tokio::time::timeout(WAIT, open(Arc::clone(&b.hosts), peer)).await {
                        Ok(Ok(s)) => {
                            stream = Some(s);
                            break;
                        }
                        Ok(Err(e)) => why = format!("loopback connection could not be set up: {e}"),
                        Err(_) => why = "loopback connection could not be set up: time-out".into(),
                    }
                    tokio::time::sleep(Duration::from_millis(50 << attempt)).await;
                }
                let mut stream = match stream {
                    Some(s) => s,
                    None => return Err(trouble(&why)),
                };
                let _ = stream.set_nodelay(true);
                if stream.write_all(&head).await.is_err() {
                    return Err(trouble("write error"));
                }
                match read_answer(&mut stream, method == b"HEAD").await {
                    Ok(a) => out.push(WireOut::Reply(a)),
                    Err(why) => return Err(trouble(why)),
                }
            }
            1 => {
                let uri = Uri::try_from(l.get(1).and_then(X::as_b).ok_or_else(X::bad)?).map_err(|_| X::bad())?;
                let _ = b.hosts.clear_page(&b.host_name, &uri);
                out.push(WireOut::Other);
            }
            2 => {
                b.hosts.clear_response_caches(None).await;
                out.push(WireOut::Other);
            }
            3 => {
                tokio::time::sleep(Duration::from_millis(l.get(1).and_then(X::as_n).ok_or_else(X::bad)? as u64)).await;
                out.push(WireOut::Other);
            }
            4 => {
                let rel = l.get(1).and_then(X::as_b).ok_or_else(X::bad)?;
                let content = l.get(2).and_then(X::as_b).ok_or_else(X::bad)?;
                match write_public(b, rel, content) {
                    Ok(()) => out.push(WireOut::Other),
                    Err(true) => return Err(X::L(vec![X::N(96)])),
                    Err(false) => return Err(trouble("the fixture file could not be written")),
                }
            }
            _ => return Err(X::bad()),
        }
    }
    Ok(out)
}

/// names of the files whose marker `SECRET:<name>:` occurs in `b`
fn markers(b: &[u8]) -> Vec<Vec<u8>> {
    let mut out = Vec::new();
    let pat = b"SECRET:";
    let mut i = 0;
    while i + pat.len() <= b.len() {
        if &b[i..i + pat.len()] == pat {
            let rest = &b[i + pat.len()..];
            if let Some(e) = rest.iter().position(|c| *c == b':' || *c == b';') {
                if rest[e] == b':' {
                    out.push(rest[..e].to_vec());
                }
            }
            i += pat.len();
        } else {
            i += 1;
        }
    }
    out
}

fn comparable_headers(a: &Answer) -> Vec<(Vec<u8>, Vec<u8>)> {
    let mut h: Vec<(Vec<u8>, Vec<u8>)> = a
        .headers
        .iter()
        .filter(|(n, _)| n != b"date")
        .map(|(n, v)| if n == b"last-modified" { (n.clone(), Vec::new()) } else { (n.clone(), v.clone()) })
        .collect();
    h.sort();
    h
}

fn show_headers(h: &[(Vec<u8>, Vec<u8>)]) -> String {
    h.iter().map(|(n, v)| format!("{}: {}", String::from_utf8_lossy(n), String::from_utf8_lossy(v))).collect::<Vec<_>>().join(" | ")
}

fn judge(ops: &[X], outs: &[WireOut]) -> Vec<X> {
    let mut bad = Vec::new();
    let mut say = |i: usize, what: String| bad.push(X::L(vec![X::n(i), X::b(what)]));
    for (i, (op, o)) in ops.iter().zip(outs).enumerate() {
        let (l, a) = match (op.as_l(), o) {
            (Some(l), WireOut::Reply(a)) => (l, a),
            _ => continue,
        };
        let allow = l.get(5).and_then(X::as_b).unwrap_or(b"");
        let twin = l.get(6).and_then(X::as_n).unwrap_or(0) as usize;
        let enc = a.headers.iter().find(|(n, _)| n == b"content-encoding").map(|(_, v)| v.clone());
        let mut found = markers(&a.body);
        if !a.body.is_empty() {
            let (decoded, _) = pipe::decode_body(enc.as_deref(), &a.body);
            found.extend(markers(&decoded));
        }
        for m in found {
            if m != allow {
                say(i, format!(
                    "the answer (status {}) carries the content of the guarded file {:?} (allowed here: {:?})",
                    a.status, String::from_utf8_lossy(&m), String::from_utf8_lossy(allow)
                ));
                break;
            }
        }
        if l.get(2).and_then(X::as_b) == Some(b"HEAD") && !a.body.is_empty() {
            say(i, format!("{} body bytes follow the answer to HEAD", a.body.len()));
        }
        if twin > 0 {
            if let Some(WireOut::Reply(t)) = outs.get(twin - 1) {
                if a.status != t.status {
                    say(i, format!("status {} differs from the {} of the answer for a path that does not exist (op {})", a.status, t.status, twin - 1));
                } else if a.body != t.body {
                    say(i, format!("the body ({} bytes) differs from the body ({} bytes) of the answer for a path that does not exist (op {})", a.body.len(), t.body.len(), twin - 1));
                } else if comparable_headers(a) != comparable_headers(t) {
                    say(i, format!(
                        "the headers [{}] differ from the headers [{}] of the answer for a path that does not exist (op {})",
                        show_headers(&comparable_headers(a)), show_headers(&comparable_headers(t)), twin - 1
                    ));
                }
            }
        }
    }
    bad
}

fn wire(x: &X, verdict: bool) -> X {
    clean_stale_dirs();
    let l = match x.as_l() {
        Some(l) if l.len() == 2 => l,
        _ => return X::bad(),
    };
    let c = customize();
    let built = match pipe::build_host(&l[0], Some(&*c)) {
        Some(b) => b,
        None => return X::bad(),
    };
    let ops = match l[1].as_l() {
        Some(o) => o,
        None => return X::bad(),
    };
    let rt = tokio::runtime::Builder::new_multi_thread().worker_threads(2).enable_all().build().unwrap();
    let res = rt.block_on(wire_ops(&built, ops));
    rt.shutdown_timeout(Duration::from_millis(200));
    if let Some(d) = &built.dir {
        let _ = std::fs::remove_dir_all(d);
    }
    match res {
        Err(e) => e,
        Ok(outs) if verdict => X::L(judge(ops, &outs)),
        Ok(outs) => X::L(
            outs.iter()
                .map(|o| match o {
                    WireOut::Reply(a) => X::L(vec![
                        X::n(a.status),
                        X::L(comparable_headers(a).iter().map(|(n, v)| X::L(vec![X::b(n), X::b(v)])).collect()),
                        X::b(&a.body),
                    ]),
                    WireOut::Other => X::L(vec![]),
                })
                .collect(),
        ),
    }
}

// ------------------------------------------------------------------------------------------------
// HTTP/2 push (kvarn_extensions::push, mounted by mount_all): a page that links guarded files, fetched over TLS + h2;
// what the server PUSHES is judged like an answer.
//   op     = (L (N 0) addr target (L (B name) ...) min_pushes): GET target from addr over a fresh h2 connection; the answer and
//            every pushed response may carry the SECRET markers of the named files only; fewer than min_pushes pushed responses
//            = the push path was not exercised = harness trouble
//   result = (L violation ...) as guards.wire
// ------------------------------------------------------------------------------------------------
struct Tls {
    key: Arc<rustls::sign::CertifiedKey>,
    client_h2: Arc<rustls::ClientConfig>,
}
fn tls() -> &'static Tls {
    static TLS: std::sync::OnceLock<Tls> = std::sync::OnceLock::new();
    TLS.get_or_init(|| {
        use rustls::pki_types::PrivateKeyDer;
        let provider = Arc::new(rustls::crypto::ring::default_provider());
        let ss = rcgen::generate_simple_self_signed(vec!["localhost".to_string()]).expect("self-signed certificate");
        let cert = ss.cert.der().clone();
        let pk = PrivateKeyDer::Pkcs8(ss.key_pair.serialized_der().to_vec().into());
        let pk = rustls::crypto::ring::sign::any_supported_type(&pk).expect("key type");
        let key = Arc::new(rustls::sign::CertifiedKey::new(vec![cert.clone()], pk));
        let mut roots = rustls::RootCertStore::empty();
        roots.add(cert).expect("root");
        let mut c = rustls::ClientConfig::builder_with_provider(provider)
            .with_safe_default_protocol_versions()
            .expect("versions")
            .with_root_certificates(roots)
            .with_no_client_auth();
        c.alpn_protocols = vec![b"h2".to_vec()];
        Tls { key, client_h2: Arc::new(c) }
    })
}

async fn h2_fetch(hosts: Arc<HostCollection>, peer: SocketAddr, target: &[u8]) -> Result<Vec<(String, u16, Vec<u8>)>, String> {
    let listener = tokio::net::TcpListener::bind("127.0.0.1:0").await.map_err(|e| format!("bind: {e}"))?;
    let addr = listener.local_addr().map_err(|e| format!("addr: {e}"))?;
    let client = tokio::net::TcpStream::connect(addr).await.map_err(|e| format!("connect: {e}"))?;
    let (server_end, _) = listener.accept().await.map_err(|e| format!("accept: {e}"))?;
    let desc = Arc::new(PortDescriptor::new(8443, hosts));
    tokio::spawn(async move {
        let _ = kvarn::handle_connection(kvarn::Incoming::Tcp(server_end), peer, desc, || true).await;
    });
    let _ = client.set_nodelay(true);
    let name = rustls::pki_types::ServerName::try_from("localhost").unwrap();
    let s = tokio::time::timeout(WAIT, tokio_rustls::TlsConnector::from(tls().client_h2.clone()).connect(name, client))
        .await
        .map_err(|_| "time-out: TLS handshake".to_string())?
        .map_err(|e| format!("TLS handshake: {e}"))?;
    let (send, conn) = tokio::time::timeout(WAIT, h2::client::Builder::new().enable_push(true).handshake::<_, Bytes>(s))
        .await
        .map_err(|_| "time-out: h2 handshake".to_string())?
        .map_err(|e| format!("h2 handshake: {e}"))?;
    tokio::spawn(async move {
        let _ = conn.await;
    });
    let mut uri = b"https://localhost:8443".to_vec();
    uri.extend_from_slice(target);
    let req = Request::builder().method(Method::GET).uri(Uri::try_from(&uri[..]).map_err(|e| e.to_string())?).body(()).map_err(|e| e.to_string())?;
    let mut send = tokio::time::timeout(WAIT, send.ready()).await.map_err(|_| "time-out: h2 ready".to_string())?.map_err(|e| format!("h2 ready: {e}"))?;
    let (mut resp, _) = send.send_request(req, true).map_err(|e| format!("h2 send_request: {e}"))?;
    let mut pushes = resp.push_promises();
    async fn body_of(mut body: h2::RecvStream) -> Result<Vec<u8>, String> {
        let mut data = Vec::new();
        loop {
            match tokio::time::timeout(WAIT, body.data()).await {
                Err(_) => return Err("time-out: h2 body".into()),
                Ok(None) => return Ok(data),
                Ok(Some(Err(e))) => return Err(format!("h2 body: {e}")),
                Ok(Some(Ok(chunk))) => {
                    let _ = body.flow_control().release_capacity(chunk.len());
                    data.extend_from_slice(&chunk);
                }
            }
        }
    }
    let mut out = Vec::new();
    let main = tokio::time::timeout(WAIT, &mut resp).await.map_err(|_| "time-out: h2 response".to_string())?.map_err(|e| format!("h2 response: {e}"))?;
    let (parts, body) = main.into_parts();
    out.push((String::from_utf8_lossy(target).into_owned(), parts.status.as_u16(), body_of(body).await?));
    // the pushed responses: promises arrive while the request's stream is open; none for 1.5 s = no more
    loop {
        match tokio::time::timeout(Duration::from_millis(1500), pushes.push_promise()).await {
            Err(_) | Ok(None) => break,
            Ok(Some(Err(e))) => return Err(format!("h2 push promise: {e}")),
            Ok(Some(Ok(pp))) => {
                let (preq, presp) = pp.into_parts();
                let r = tokio::time::timeout(WAIT, presp).await.map_err(|_| "time-out: pushed response".to_string())?.map_err(|e| format!("pushed response: {e}"))?;
                let (parts, body) = r.into_parts();
                out.push((preq.uri().path().to_string(), parts.status.as_u16(), body_of(body).await?));
            }
        }
    }
    Ok(out)
}

fn push(x: &X) -> X {
    clean_stale_dirs();
    let l = match x.as_l() {
        Some(l) if l.len() == 2 => l,
        _ => return X::bad(),
    };
    let c: Box<pipe::Customize> = Box::new(|kv, host, shared| {
        (customize())(kv, host, shared);
        *host.certificate.write().unwrap() = Some(tls().key.clone());
    });
    let built = match pipe::build_host(&l[0], Some(&*c)) {
        Some(b) => b,
        None => return X::bad(),
    };
    let ops = match l[1].as_l() {
        Some(o) => o,
        None => return X::bad(),
    };
    let rt = tokio::runtime::Builder::new_multi_thread().worker_threads(2).enable_all().build().unwrap();
    let res: Result<Vec<X>, X> = rt.block_on(async {
        let mut bad = Vec::new();
        for (i, op) in ops.iter().enumerate() {
            let l = op.as_l().ok_or_else(X::bad)?;
            if l.len() != 5 || l[0].as_n() != Some(0) {
                return Err(X::bad());
            }
            let peer = address(&l[1], 5000 + (i % 20000) as u16).ok_or_else(|| X::L(vec![X::N(96)]))?;
            let target = l[2].as_b().ok_or_else(X::bad)?;
            let allowed: Vec<&[u8]> = l[3].as_l().ok_or_else(X::bad)?.iter().filter_map(X::as_b).collect();
            let min = l[4].as_n().ok_or_else(X::bad)? as usize;
            let got = match h2_fetch(Arc::clone(&built.hosts), peer, target).await {
                Ok(g) => g,
                Err(why) => return Err(trouble(&why)),
            };
            if got.len() < 1 + min {
                return Err(trouble(&format!("only {} pushed responses (at least {} expected): the push path was not exercised", got.len() - 1, min)));
            }
            for (k, (path, status, body)) in got.iter().enumerate() {
                for m in markers(body) {
                    if !allowed.iter().any(|a| *a == &m[..]) {
                        bad.push(X::L(vec![
                            X::n(i),
                            X::b(format!(
                                "the {} for {:?} (status {}) to {} carries the content of the guarded file {:?}",
                                if k == 0 { "answer" } else { "PUSHED response" }, path, status, peer.ip(), String::from_utf8_lossy(&m)
                            )),
                        ]));
                    }
                }
            }
        }
        Ok(bad)
    });
    rt.shutdown_timeout(Duration::from_millis(200));
    if let Some(d) = &built.dir {
        let _ = std::fs::remove_dir_all(d);
    }
    match res {
        Ok(v) => X::L(v),
        Err(e) => e,
    }
}

pub fn dispatch(comp: &str, x: &X) -> Option<X> {
    Some(match comp {
        "guards.run" => run(x),
        "guards.wire" => wire(x, true),
        "guards.wire_obs" => wire(x, false),
        "guards.push" => push(x),
        _ => return None,
    })
}
