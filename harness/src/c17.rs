//! C17 — access-guarding file directives (`!> allow-ips`, `!> hide`, `*.private`) in the
//! request pipeline: the scenario harness of c00pipe.rs (real `kvarn::handle_cache`, chosen
//! client address per request, fixture files in a fresh directory) on a host whose extensions
//! are `Extensions::empty()` (or `Extensions::new()` when cfg `default_ext` is set) + `kvarn_extensions::mount_all`.
//!
//! component `guards.run`: scenario as in c00pipe.rs; cfg keys used: files, cache, fcache, vary, report.
use crate::c00pipe;
use crate::xval::X;

pub fn dispatch(comp: &str, x: &X) -> Option<X> {
    Some(match comp {
        "guards.run" => c00pipe::run_scenario(
            x,
            Some(&|_kv, host, _shared| {
                kvarn_extensions::mount_all(&mut host.extensions);
            }),
        ),
        _ => return None,
    })
}
