//! Interchange values: (N 42) | (B 2f2e) | (L ...)
#[derive(Debug, Clone, PartialEq, Eq)]
pub enum X {
    N(u128),
    B(Vec<u8>),
    L(Vec<X>),
}
impl X {
    pub fn n(v: impl TryInto<u128>) -> X {
        X::N(v.try_into().ok().expect("number fits u128"))
    }
    pub fn b(v: impl AsRef<[u8]>) -> X {
        X::B(v.as_ref().to_vec())
    }
    pub fn bool(v: bool) -> X {
        X::N(v as u128)
    }
    pub fn opt(v: Option<X>) -> X {
        X::L(v.into_iter().collect())
    }
    pub fn ok(v: X) -> X {
        X::L(vec![X::N(0), v])
    }
    pub fn err(e: u128) -> X {
        X::L(vec![X::N(1), X::N(e)])
    }
    pub fn panic() -> X {
        X::L(vec![X::N(2)])
    }
    pub fn bad() -> X {
        X::L(vec![X::N(99)])
    }
    pub fn z(v: i128) -> X {
        X::L(vec![X::N((v < 0) as u128), X::N(v.unsigned_abs())])
    }
    pub fn as_n(&self) -> Option<u128> {
        if let X::N(n) = self { Some(*n) } else { None }
    }
    pub fn as_b(&self) -> Option<&[u8]> {
        if let X::B(b) = self { Some(b) } else { None }
    }
    pub fn as_l(&self) -> Option<&[X]> {
        if let X::L(l) = self { Some(l) } else { None }
    }
    pub fn as_bool(&self) -> Option<bool> {
        match self { X::N(0) => Some(false), X::N(1) => Some(true), _ => None }
    }
    pub fn as_z(&self) -> Option<i128> {
        match self.as_l()? {
            [X::N(0), X::N(n)] => Some(*n as i128),
            [X::N(1), X::N(n)] => Some(-(*n as i128)),
            _ => None,
        }
    }
    /// `(L)` = None, `(L x)` = Some(x)
    pub fn as_opt(&self) -> Option<Option<&X>> {
        match self.as_l()? {
            [] => Some(None),
            [x] => Some(Some(x)),
            _ => None,
        }
    }
    pub fn write(&self, out: &mut String) {
        match self {
            X::N(n) => {
                out.push_str("(N ");
                out.push_str(&n.to_string());
                out.push(')');
            }
            X::B(b) => {
                out.push_str("(B ");
                const H: &[u8; 16] = b"0123456789abcdef";
                for c in b {
                    out.push(H[(c >> 4) as usize] as char);
                    out.push(H[(c & 15) as usize] as char);
                }
                out.push(')');
            }
            X::L(l) => {
                out.push_str("(L");
                for x in l {
                    out.push(' ');
                    x.write(out);
                }
                out.push(')');
            }
        }
    }
}

pub fn parse(s: &[u8], pos: &mut usize) -> Option<X> {
    fn skip(s: &[u8], pos: &mut usize) {
        while *pos < s.len() && s[*pos] == b' ' {
            *pos += 1;
        }
    }
    skip(s, pos);
    if s.get(*pos) != Some(&b'(') {
        return None;
    }
    *pos += 1;
    let tag = *s.get(*pos)?;
    *pos += 1;
    match tag {
        b'N' => {
            skip(s, pos);
            let st = *pos;
            while *pos < s.len() && s[*pos] != b')' {
                *pos += 1;
            }
            let v = std::str::from_utf8(&s[st..*pos]).ok()?.trim().parse::<u128>().ok()?;
            *pos += 1;
            Some(X::N(v))
        }
        b'B' => {
            skip(s, pos);
            let mut v = Vec::new();
            while *pos < s.len() && s[*pos] != b')' {
                if s[*pos] == b' ' {
                    *pos += 1;
                    continue;
                }
                let h = |c: u8| -> Option<u8> {
                    match c {
                        b'0'..=b'9' => Some(c - b'0'),
                        b'a'..=b'f' => Some(c - b'a' + 10),
                        b'A'..=b'F' => Some(c - b'A' + 10),
                        _ => None,
                    }
                };
                v.push(h(s[*pos])? * 16 + h(*s.get(*pos + 1)?)?);
                *pos += 2;
            }
            *pos += 1;
            Some(X::B(v))
        }
        b'L' => {
            let mut v = Vec::new();
            skip(s, pos);
            while *pos < s.len() && s[*pos] != b')' {
                v.push(parse(s, pos)?);
                skip(s, pos);
            }
            *pos += 1;
            Some(X::L(v))
        }
        _ => None,
    }
}
