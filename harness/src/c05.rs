//! C05 — vary.  Histories through the real `kvarn::handle_cache` (shared pipeline harness, c00pipe.rs)
//! plus two observations/controls that only this property needs:
//!
//! op (L (N 4) target (N rules))               dump of the variant vectors stored for `target`, a page with `rules`
//!                                             vary rules (`host.response_cache.cache` is a public field,
//!                                             `VariedResponse` is public and `Debug`): for the PathQuery key and
//!                                             the Path key `(L)` = no entry | `(L (L hcoll ...))`,
//!                                             hcoll = `(L (L name transformed) ...)`;
//!                                             `(L (N 94))` = the Debug text has no readable shape (not an outcome
//!                                             of the code: the driver then skips the dump and says so)
//! op (L (N 5) addr method target headers body) like op 0, but the request is suspended inside its handler
//!                                             (the `.await` on the layer below in handle_cache /
//!                                             handle_vary_missing) if it gets there: `(L)`; otherwise its reply
//! op (L (N 6))                                resume the suspended request and complete it: its reply, `(L)` if none
//!
//! Every page is served by the fixture handlers of c00pipe.rs (kind 3 echoes the transformed tuple); kind 5, known
//! here only, echoes "?<query>" and then the transformed tuple; kind 6, known here only, is kind 3 with a server
//! cache preference that depends on the variant (None for some tuples) (Model/Vary.v `compute_c05`).
use crate::c00pipe as pipe;
use crate::xval::X;
use kvarn::prelude::*;
use std::future::Future;
use std::pin::Pin;
use std::sync::atomic::{AtomicBool, Ordering};
use std::sync::Arc;

/// Reads a Rust `Debug`-formatted string literal starting just after its opening quote.
fn debug_str(s: &[u8], mut i: usize) -> Option<(Vec<u8>, usize)> {
    let mut out = Vec::new();
    while i < s.len() {
        match s[i] {
            b'"' => return Some((out, i + 1)),
            b'\\' => {
                i += 1;
                match *s.get(i)? {
                    b'n' => out.push(b'\n'),
                    b'r' => out.push(b'\r'),
                    b't' => out.push(b'\t'),
                    b'0' => out.push(0),
                    b'\\' => out.push(b'\\'),
                    b'\'' => out.push(b'\''),
                    b'"' => out.push(b'"'),
                    b'u' => {
                        // \u{hex}
                        let close = s[i..].iter().position(|c| *c == b'}')? + i;
                        let hex = std::str::from_utf8(&s[i + 2..close]).ok()?;
                        let ch = char::from_u32(u32::from_str_radix(hex, 16).ok()?)?;
                        let mut buf = [0u8; 4];
                        out.extend_from_slice(ch.encode_utf8(&mut buf).as_bytes());
                        i = close;
                    }
                    _ => return None,
                }
                i += 1;
            }
            c => {
                out.push(c);
                i += 1;
            }
        }
    }
    None
}

/// Skips ASCII white space.
fn skip_ws(b: &[u8], mut i: usize) -> usize {
    while i < b.len() && (b[i] == b' ' || b[i] == b'\n' || b[i] == b'\t' || b[i] == b'\r') {
        i += 1;
    }
    i
}

/// `<field>: "<literal>"` at `i` (any white space around the colon): the literal and the index after it.
fn field_literal(b: &[u8], i: usize, field: &[u8]) -> Option<(Vec<u8>, usize)> {
    if !b[i..].starts_with(field) || (i > 0 && (b[i - 1].is_ascii_alphanumeric() || b[i - 1] == b'_')) {
        return None;
    }
    let j = skip_ws(b, i + field.len());
    if b.get(j) != Some(&b':') {
        return None;
    }
    let k = skip_ws(b, j + 1);
    if b.get(k) != Some(&b'"') {
        return None;
    }
    debug_str(b, k + 1)
}

/// The `(name, transformed)` pairs of a `Debug`-formatted `VariedResponse`, in order.  Only the two field
/// names and the form of string literals are relied on — not the struct names, not the layout (`{:?}` or
/// `{:#?}`), not how the responses are printed: a pair is a field `name: ".."` directly followed (after a
/// comma) by a field `transformed: ".."`.  `None` = the text has no such shape any more.
fn parse_varied_debug(s: &str) -> Option<Vec<(Vec<u8>, Vec<u8>)>> {
    let b = s.as_bytes();
    let mut out = Vec::new();
    let mut i = 0;
    while i < b.len() {
        if let Some((name, j)) = field_literal(b, i, b"name") {
            let k = skip_ws(b, j);
            if b.get(k) == Some(&b',') {
                let k = skip_ws(b, k + 1);
                if let Some((val, l)) = field_literal(b, k, b"transformed") {
                    out.push((name, val));
                    i = l;
                    continue;
                }
            }
            i = j;
        } else {
            if b[i..].starts_with(b"transformed") && field_literal(b, i, b"transformed").is_some() {
                // a `transformed` field that does not follow a `name` field: unknown shape
                return None;
            }
            i += 1;
        }
    }
    Some(out)
}

/// `per`: how many rules the page has = how many headers one variant has (given by the scenario).
fn dump(host: &Host, target: &[u8], per: usize) -> X {
    let uri = match Uri::try_from(target) {
        Ok(u) => u,
        Err(_) => return X::L(vec![X::N(96)]),
    };
    let cache = match &host.response_cache {
        Some(c) => c,
        None => return X::L(vec![X::L(vec![]), X::L(vec![])]),
    };
    let pq = comprash::PathQuery::from(&uri);
    let keys = [comprash::UriKey::PathQuery(pq.clone()), comprash::UriKey::Path(pq.into_path())];
    let mut out = Vec::new();
    for key in keys {
        match cache.cache.get(&key) {
            None => out.push(X::L(vec![])),
            Some((vr, _)) => {
                let text = format!("{:?}", vr);
                let headers = match parse_varied_debug(&text) {
                    Some(p) => p,
                    None => return X::L(vec![X::N(94)]),
                };
                if per == 0 {
                    // no rule: every request has the empty list, the vector holds one variant
                    if !headers.is_empty() {
                        return X::L(vec![X::N(94)]);
                    }
                    // (how many: as long as the derived Debug of the stored responses is there, count them)
                    let n = text.matches("CompressedResponse {").count().max(1);
                    out.push(X::L(vec![X::L(vec![X::L(vec![]); n])]));
                    continue;
                }
                if headers.is_empty() || headers.len() % per != 0 {
                    return X::L(vec![X::N(94)]);
                }
                let mut variants = Vec::new();
                for v in headers.chunks(per) {
                    variants.push(X::L(v.iter().map(|(a, b)| X::L(vec![X::b(a), X::b(b)])).collect()));
                }
                out.push(X::L(vec![X::L(variants)]));
            }
        }
    }
    X::L(out)
}

fn reply_x(b: &pipe::Built, reply: &CacheReply) -> X {
    let log: Vec<X> = b.shared.log.lock().unwrap().iter().map(X::b).collect();
    let enc = reply.response.headers().get("content-encoding").map(|v| v.as_bytes().to_vec());
    let (decoded, ok) = pipe::decode_body(enc.as_deref(), reply.response.body());
    X::L(vec![
        X::n(reply.response.status().as_u16()),
        pipe::report_headers(reply.response.headers(), &b.report),
        X::b(pipe::canon_body(&decoded)),
        X::bool(ok),
        X::b(pipe::canon_body(&reply.identity_body)),
        X::L(log),
    ])
}

async fn run(b: &pipe::Built, gate: &Arc<Gate>, ops: &[X]) -> Option<Vec<X>> {
    let host = b.hosts.get_host(&b.host_name)?;
    let mut out = Vec::new();
    let mut parked: Option<Pin<Box<dyn Future<Output = CacheReply> + '_>>> = None;
    for op in ops {
        let l = op.as_l()?;
        match l[0].as_n()? {
            0..=3 => out.extend(pipe::run_ops(b, std::slice::from_ref(op)).await?),
            4 => out.push(dump(host, l[1].as_b()?, l.get(2).and_then(X::as_n)? as usize)),
            5 => {
                if parked.is_some() {
                    out.push(X::L(vec![X::N(96)]));
                    continue;
                }
                let hdrs = l[4].as_l()?;
                let req = match pipe::make_request(&b.host_name, l[2].as_b()?, l[3].as_b()?, hdrs, l[5].as_b()?) {
                    Some(r) => r,
                    None => {
                        out.push(X::L(vec![X::N(96)]));
                        continue;
                    }
                };
                // lives as long as the suspended future; a handful per scenario
                let req: &'static mut FatRequest = Box::leak(Box::new(req));
                let addr = pipe::sockaddr(l[1].as_n()?);
                b.shared.log.lock().unwrap().clear();
                gate.armed.store(true, Ordering::SeqCst);
                let mut fut: Pin<Box<dyn Future<Output = CacheReply> + '_>> = Box::pin(kvarn::handle_cache(req, addr, host));
                let early = tokio::select! {
                    biased;
                    r = &mut fut => Some(r),
                    _ = gate.reached.notified() => None,
                };
                match early {
                    Some(reply) => {
                        gate.armed.store(false, Ordering::SeqCst);
                        out.push(reply_x(b, &reply));
                    }
                    None => {
                        parked = Some(fut);
                        out.push(X::L(vec![]));
                    }
                }
            }
            6 => match parked.take() {
                None => out.push(X::L(vec![])),
                Some(fut) => {
                    b.shared.log.lock().unwrap().clear();
                    gate.release.notify_one();
                    let reply = fut.await;
                    out.push(reply_x(b, &reply));
                }
            },
            _ => return None,
        }
    }
    Some(out)
}

pub struct Gate {
    armed: AtomicBool,
    reached: tokio::sync::Notify,
    release: tokio::sync::Notify,
}
impl Gate {
    pub fn new() -> Arc<Gate> {
        Arc::new(Gate { armed: AtomicBool::new(false), reached: tokio::sync::Notify::new(), release: tokio::sync::Notify::new() })
    }
}

/// Every fixture handler is wrapped: when the gate is armed, the first invocation parks before it
/// produces its response (the counter and the log entry are written after the release).
/// Also used by c05wire.rs (with a gate that is never armed) for the kind-5 handlers.
pub fn customize(g2: Arc<Gate>) -> impl Fn(&[(String, X)], &mut Host, &Arc<pipe::Shared>) {
    move |kv: &[(String, X)], host: &mut Host, shared: &Arc<pipe::Shared>| {
        // cfg `ovroutes` = (L (L public-path internal-target) ...): ONE Prime extension that answers a request whose path is
        // `public-path` with the internal URI `internal-target` ("/./..." [+ "?query"]): the request's own URI is left
        // alone, the page is handled, looked up and cached under the internal URI (Model/Vary.v `route_fix`).  It runs
        // after the Primes of Extensions::new() (uri_redirect, CORS), so it sees the rewritten path and has the last word.
        if let Some(routes) = kv.iter().find(|(n, _)| n == "ovroutes").and_then(|(_, v)| v.as_l()) {
            let mut table: Vec<(String, Uri)> = Vec::new();
            for r in routes {
                if let Some([X::B(from), X::B(to)]) = r.as_l() {
                    if to.starts_with(b"/./") {
                        if let Ok(uri) = Uri::try_from(&to[..]) {
                            table.push((String::from_utf8_lossy(from).into_owned(), uri));
                        }
                    }
                }
            }
            if !table.is_empty() {
                let table = Arc::new(table);
                host.extensions.add_prime(
                    prime!(req, _host, _addr, move |table: Arc<Vec<(String, Uri)>>| {
                        table.iter().find(|(from, _)| from == req.uri().path()).map(|(_, to)| to.clone())
                    }),
                    extensions::Id::new(-1000, "verif: internal routes"),
                );
            }
        }
        let handlers = match kv.iter().find(|(n, _)| n == "handlers").and_then(|(_, v)| v.as_l()) {
            Some(h) => h,
            None => return,
        };
        for (i, h) in handlers.iter().enumerate() {
            if let Some((path, spec)) = pipe::parse_handler(i, h) {
                let spec = Arc::new(spec);
                let sh = Arc::clone(shared);
                let gate = Arc::clone(&g2);
                host.extensions.add_prepare_single(
                    pipe::leak(&path),
                    prepare!(req, _host, _path, _addr, move |spec: Arc<pipe::HSpec>, sh: Arc<pipe::Shared>, gate: Arc<Gate>| {
                        if gate.armed.swap(false, Ordering::SeqCst) {
                            gate.reached.notify_one();
                            gate.release.notified().await;
                        }
                        if spec.kind == 5 {
                            // kind 5: "<body>?<query>" and then the transformed tuple (kind 3 with the query in the prefix)
                            let mut s5 = (**spec).clone();
                            s5.kind = 3;
                            if let Some(q) = req.uri().query().filter(|q| !q.is_empty()) {
                                s5.body.push(b'?');
                                s5.body.extend_from_slice(q.as_bytes());
                            }
                            pipe::handler_response(&s5, sh, req)
                        } else if spec.kind == 6 {
                            // kind 6: kind 3 whose variants differ in cacheability: the handler declares
                            // ServerCachePreference::None when the first component it renders is empty or starts
                            // with 'n', 'z' or '0' (Model/Vary.v `picky_refused`)
                            let mut s6 = (**spec).clone();
                            s6.kind = 3;
                            if let Some((name, xf, default)) = spec.tuple.first() {
                                let v = req
                                    .headers()
                                    .get(pipe::leak(name))
                                    .and_then(|h| h.to_str().ok())
                                    .map(|s| pipe::xform(*xf, s))
                                    .unwrap_or_else(|| String::from_utf8_lossy(default).into_owned());
                                if v.is_empty() || matches!(v.as_bytes()[0], b'n' | b'z' | b'0') {
                                    s6.spref = 0;
                                }
                            }
                            pipe::handler_response(&s6, sh, req)
                        } else {
                            pipe::handler_response(spec, sh, req)
                        }
                    }),
                );
            }
        }
    }
}

fn run_scenario(x: &X) -> X {
    let l = match x.as_l() {
        Some(l) if l.len() == 2 => l,
        _ => return X::bad(),
    };
    let gate = Gate::new();
    let customize = customize(Arc::clone(&gate));
    let built = match pipe::build_host(&l[0], Some(&customize)) {
        Some(b) => b,
        None => return X::bad(),
    };
    let ops = match l[1].as_l() {
        Some(o) => o,
        None => return X::bad(),
    };
    match pipe::block_on(run(&built, &gate, ops)) {
        Some(v) => X::L(v),
        None => X::bad(),
    }
}

pub fn dispatch(comp: &str, x: &X) -> Option<X> {
    Some(match comp {
        "vary.run" => run_scenario(x),
        _ => return None,
    })
}
