//! C05 — vary.  Histories through the real `kvarn::handle_cache` (shared pipeline harness, c00pipe.rs)
//! plus two observations/controls that only this property needs:
//!
//! op (L (N 4) target)                         dump of the variant vectors stored for `target`
//!                                             (`host.response_cache.cache` is a public field, `VariedResponse`
//!                                             is public and `Debug`): for the PathQuery key and the Path key
//!                                             `(L)` = no entry | `(L (L hcoll ...))`, hcoll = `(L (L name transformed) ...)`
//! op (L (N 5) addr method target headers body) like op 0, but the request is suspended inside its handler
//!                                             (the `.await` on the layer below in handle_cache /
//!                                             handle_vary_missing) if it gets there: `(L)`; otherwise its reply
//! op (L (N 6))                                resume the suspended request and complete it: its reply, `(L)` if none
//!
//! Every page is served by the fixture handlers of c00pipe.rs (kind 3 echoes the transformed tuple).
use crate::c00pipe as pipe;
use crate::xval::X;
use kvarn::prelude::*;
use std::future::Future;
use std::pin::Pin;
use std::sync::atomic::{AtomicBool, Ordering};
use std::sync::Arc;

struct Gate {
    armed: AtomicBool,
    reached: tokio::sync::Notify,
    release: tokio::sync::Notify,
}

/// Reads a Rust `Debug`-formatted string literal starting just after its opening quote.
fn debug_str(s: &[u8], mut i: usize) -> Option<(Vec<u8>, usize)> {
    let mut out = Vec::new();
    while i < s.len() {
        match s[i] {
            b'"' => return Some((out, i + 1)),
            b'\\' => {
                i += 1;
                match *s.get(i)? {
                    b'n' => out.push(b'\n'),
                    b'r' => out.push(b'\r'),
                    b't' => out.push(b'\t'),
                    b'0' => out.push(0),
                    b'\\' => out.push(b'\\'),
                    b'\'' => out.push(b'\''),
                    b'"' => out.push(b'"'),
                    b'u' => {
                        // \u{hex}
                        let close = s[i..].iter().position(|c| *c == b'}')? + i;
                        let hex = std::str::from_utf8(&s[i + 2..close]).ok()?;
                        let ch = char::from_u32(u32::from_str_radix(hex, 16).ok()?)?;
                        let mut buf = [0u8; 4];
                        out.extend_from_slice(ch.encode_utf8(&mut buf).as_bytes());
                        i = close;
                    }
                    _ => return None,
                }
                i += 1;
            }
            c => {
                out.push(c);
                i += 1;
            }
        }
    }
    None
}

/// All `Header { name: "..", transformed: ".." }` of a `{:?}`-formatted `VariedResponse`, in order,
/// and the number of stored responses.
fn parse_varied_debug(s: &str) -> Option<(Vec<(Vec<u8>, Vec<u8>)>, usize)> {
    let b = s.as_bytes();
    let pat = b"Header { name: \"";
    let mut out = Vec::new();
    let mut i = 0;
    while i + pat.len() <= b.len() {
        if &b[i..i + pat.len()] == pat && !(i >= 9 && &b[i - 9..i] == b"Reference") {
            let (name, j) = debug_str(b, i + pat.len())?;
            let pat2 = b", transformed: \"";
            if b.len() < j + pat2.len() || &b[j..j + pat2.len()] != pat2 {
                return None;
            }
            let (val, k) = debug_str(b, j + pat2.len())?;
            out.push((name, val));
            i = k;
        } else {
            i += 1;
        }
    }
    let n = s.matches("CompressedResponse {").count();
    Some((out, n))
}

fn dump(host: &Host, target: &[u8]) -> X {
    let uri = match Uri::try_from(target) {
        Ok(u) => u,
        Err(_) => return X::L(vec![X::N(96)]),
    };
    let cache = match &host.response_cache {
        Some(c) => c,
        None => return X::L(vec![X::L(vec![]), X::L(vec![])]),
    };
    let pq = comprash::PathQuery::from(&uri);
    let keys = [comprash::UriKey::PathQuery(pq.clone()), comprash::UriKey::Path(pq.into_path())];
    let mut out = Vec::new();
    for key in keys {
        match cache.cache.get(&key) {
            None => out.push(X::L(vec![])),
            Some((vr, _)) => {
                let text = format!("{:?}", vr);
                let (headers, n) = match parse_varied_debug(&text) {
                    Some(p) => p,
                    None => return X::L(vec![X::N(95)]),
                };
                if n == 0 || headers.len() % n != 0 {
                    return X::L(vec![X::N(95)]);
                }
                let per = headers.len() / n;
                let mut variants = Vec::new();
                for v in 0..n {
                    variants.push(X::L(
                        headers[v * per..(v + 1) * per].iter().map(|(a, b)| X::L(vec![X::b(a), X::b(b)])).collect(),
                    ));
                }
                out.push(X::L(vec![X::L(variants)]));
            }
        }
    }
    X::L(out)
}

fn reply_x(b: &pipe::Built, reply: &CacheReply) -> X {
    let log: Vec<X> = b.shared.log.lock().unwrap().iter().map(X::b).collect();
    let enc = reply.response.headers().get("content-encoding").map(|v| v.as_bytes().to_vec());
    let (decoded, ok) = pipe::decode_body(enc.as_deref(), reply.response.body());
    X::L(vec![
        X::n(reply.response.status().as_u16()),
        pipe::report_headers(reply.response.headers(), &b.report),
        X::b(pipe::canon_body(&decoded)),
        X::bool(ok),
        X::b(pipe::canon_body(&reply.identity_body)),
        X::L(log),
    ])
}

async fn run(b: &pipe::Built, gate: &Arc<Gate>, ops: &[X]) -> Option<Vec<X>> {
    let host = b.hosts.get_host(&b.host_name)?;
    let mut out = Vec::new();
    let mut parked: Option<Pin<Box<dyn Future<Output = CacheReply> + '_>>> = None;
    for op in ops {
        let l = op.as_l()?;
        match l[0].as_n()? {
            0..=3 => out.extend(pipe::run_ops(b, std::slice::from_ref(op)).await?),
            4 => out.push(dump(host, l[1].as_b()?)),
            5 => {
                if parked.is_some() {
                    out.push(X::L(vec![X::N(96)]));
                    continue;
                }
                let hdrs = l[4].as_l()?;
                let req = match pipe::make_request(&b.host_name, l[2].as_b()?, l[3].as_b()?, hdrs, l[5].as_b()?) {
                    Some(r) => r,
                    None => {
                        out.push(X::L(vec![X::N(96)]));
                        continue;
                    }
                };
                // lives as long as the suspended future; a handful per scenario
                let req: &'static mut FatRequest = Box::leak(Box::new(req));
                let addr = pipe::sockaddr(l[1].as_n()?);
                b.shared.log.lock().unwrap().clear();
                gate.armed.store(true, Ordering::SeqCst);
                let mut fut: Pin<Box<dyn Future<Output = CacheReply> + '_>> = Box::pin(kvarn::handle_cache(req, addr, host));
                let early = tokio::select! {
                    biased;
                    r = &mut fut => Some(r),
                    _ = gate.reached.notified() => None,
                };
                match early {
                    Some(reply) => {
                        gate.armed.store(false, Ordering::SeqCst);
                        out.push(reply_x(b, &reply));
                    }
                    None => {
                        parked = Some(fut);
                        out.push(X::L(vec![]));
                    }
                }
            }
            6 => match parked.take() {
                None => out.push(X::L(vec![])),
                Some(fut) => {
                    b.shared.log.lock().unwrap().clear();
                    gate.release.notify_one();
                    let reply = fut.await;
                    out.push(reply_x(b, &reply));
                }
            },
            _ => return None,
        }
    }
    Some(out)
}

fn run_scenario(x: &X) -> X {
    let l = match x.as_l() {
        Some(l) if l.len() == 2 => l,
        _ => return X::bad(),
    };
    let gate = Arc::new(Gate { armed: AtomicBool::new(false), reached: tokio::sync::Notify::new(), release: tokio::sync::Notify::new() });
    let g2 = Arc::clone(&gate);
    // every fixture handler is wrapped: when the gate is armed, the first invocation parks before it
    // produces its response (the counter and the log entry are written after the release)
    let customize = move |kv: &[(String, X)], host: &mut Host, shared: &Arc<pipe::Shared>| {
        let handlers = match kv.iter().find(|(n, _)| n == "handlers").and_then(|(_, v)| v.as_l()) {
            Some(h) => h,
            None => return,
        };
        for (i, h) in handlers.iter().enumerate() {
            if let Some((path, spec)) = pipe::parse_handler(i, h) {
                let spec = Arc::new(spec);
                let sh = Arc::clone(shared);
                let gate = Arc::clone(&g2);
                host.extensions.add_prepare_single(
                    pipe::leak(&path),
                    prepare!(req, _host, _path, _addr, move |spec: Arc<pipe::HSpec>, sh: Arc<pipe::Shared>, gate: Arc<Gate>| {
                        if gate.armed.swap(false, Ordering::SeqCst) {
                            gate.reached.notify_one();
                            gate.release.notified().await;
                        }
                        pipe::handler_response(spec, sh, req)
                    }),
                );
            }
        }
    };
    let built = match pipe::build_host(&l[0], Some(&customize)) {
        Some(b) => b,
        None => return X::bad(),
    };
    let ops = match l[1].as_l() {
        Some(o) => o,
        None => return X::bad(),
    };
    match pipe::block_on(run(&built, &gate, ops)) {
        Some(v) => X::L(v),
        None => X::bad(),
    }
}

pub fn dispatch(comp: &str, x: &X) -> Option<X> {
    Some(match comp {
        "vary.run" => run_scenario(x),
        _ => return None,
    })
}
