//! C02, end-to-end EXPLORATION (a test, not a proof): raw client bytes are written to a loopback TCP
//! connection served by the real `kvarn::handle_connection` on a host with the default extensions
//! (`Extensions::new()`: uri redirect, CORS gate, CSP, nonce, server header) + CORS rules + a vary
//! rule + handlers (cached page, query-parsing page, body-reading page), files (plain, `!> nonce`,
//! `!> tmpl`, hidden) and `stream_body()`.  Observed: a panic in ANY task of the process (counting
//! panic hook) and the connection task's `JoinHandle::is_panic`; the task must end after the client
//! has closed its sending side.
//!
//! `stream.window` reads the `content-length` the streamed reply announces (`end - start`).
use crate::xval::X;
use kvarn::prelude::*;
use std::sync::atomic::{AtomicU64, Ordering};
use std::sync::{Arc, Mutex, OnceLock};
use std::time::Duration;

static PANICS: AtomicU64 = AtomicU64::new(0);
static LAST_PANIC: Mutex<String> = Mutex::new(String::new());

fn install_hook() {
    static ONCE: OnceLock<()> = OnceLock::new();
    ONCE.get_or_init(|| {
        // still quiet (main.rs installs a silent hook), but counts and remembers the message
        std::panic::set_hook(Box::new(|info| {
            PANICS.fetch_add(1, Ordering::SeqCst);
            if let Ok(mut m) = LAST_PANIC.lock() {
                *m = info.to_string();
            }
        }));
    });
}

fn rt() -> &'static tokio::runtime::Runtime {
    static RT: OnceLock<tokio::runtime::Runtime> = OnceLock::new();
    RT.get_or_init(|| {
        tokio::runtime::Builder::new_multi_thread()
            .worker_threads(2)
            .enable_all()
            .build()
            .expect("tokio runtime")
    })
}

pub const STREAM_LENS: [usize; 5] = [0, 1, 10, 1000, 70000];

fn lang(header: &str) -> &'static str {
    let mut langs = utils::list_header(header);
    langs.sort_by(|l1, l2| l2.quality.partial_cmp(&l1.quality).unwrap_or(std::cmp::Ordering::Equal));
    for l in &langs {
        match l.value {
            "sv" => return "sv",
            "en-GB" | "en" => return "en-GB",
            _ => (),
        }
    }
    "en-GB"
}

fn build_descriptor() -> Arc<PortDescriptor> {
    // one fixture tree per run: the shards of a run share their parent (the driver), which removes the tree at exit;
    // files are written under a private name and renamed, so that a reader never sees a partial file
    let dir = format!("{}/kvh-c02-{}/", std::env::temp_dir().display(), std::os::unix::process::parent_id());
    let public = format!("{dir}public");
    std::fs::create_dir_all(format!("{public}/sub")).expect("fixture dir");
    std::fs::create_dir_all(format!("{public}/stream")).expect("fixture dir");
    let put = |name: &str, data: &[u8]| {
        let path = format!("{public}/{name}");
        if std::fs::metadata(&path).map_or(true, |m| m.len() != data.len() as u64) {
            let tmp = format!("{path}.{}.tmp", std::process::id());
            std::fs::write(&tmp, data).expect("fixture file");
            std::fs::rename(&tmp, &path).expect("fixture rename");
        }
    };
    let text: Vec<u8> = (0..3000).map(|i| b"lorem ipsum dolor sit amet "[i % 27]).collect();
    put("index.html", &text);
    put("f.txt", &text[..1000]);
    put("sub/index.html", b"<h1>sub</h1>");
    put("n.html", b"!> nonce\n<script nonce=\"x\">a</script><script nonce='y'>");
    put("e.html", b"!> nonce");
    put("t.html", b"!> tmpl a.html b &> hide \r\n<p>t</p>");
    put("x.html", b"!> \n");
    put("secret.private", b"private");
    for n in STREAM_LENS {
        let data: Vec<u8> = (0..n).map(|i| (i % 251) as u8).collect();
        put(&format!("stream/s{n}.bin"), &data);
    }

    let mut ext = Extensions::new();
    let cors = Cors::empty()
        .add("/api/*", CorsAllowList::new(Duration::from_secs(60)).add_origin("https://icelk.dev").add_method(Method::PUT))
        .add("/h", CorsAllowList::new(Duration::from_secs(60)).allow_all_origins());
    ext.with_cors(cors.arc());
    // a cached, compressible page
    let page = Bytes::from(text.clone());
    ext.add_prepare_single(
        "/h",
        prepare!(_req, _host, _path, _addr, move |page: Bytes| {
            let mut r = Response::new(page.clone());
            r.headers_mut().insert("content-type", HeaderValue::from_static("text/html"));
            FatResponse::cache(r)
        }),
    );
    ext.add_prepare_single(
        "/v",
        prepare!(req, _host, _path, _addr, {
            let l = req.headers().get("accept-language").and_then(|h| h.to_str().ok()).map_or("en-GB", lang);
            FatResponse::cache(Response::new(Bytes::from(format!("language {l}").into_bytes())))
        }),
    );
    // a handler that uses the query API on the client's query string
    ext.add_prepare_fn(
        Box::new(|req, _| req.uri().path().starts_with("/api/")),
        prepare!(req, _host, _path, _addr, {
            let mut out = String::new();
            if let Some(q) = req.uri().query() {
                let q = utils::parse::query(q);
                out.push_str(&format!("{q}|"));
                for name in ["a", "b", ""] {
                    out.push_str(&format!(
                        "{:?}{:?}{:?}{}",
                        q.get(name).map(|p| p.value().to_owned()),
                        q.get_first(name).map(|p| p.value().to_owned()),
                        q.get_last(name).map(|p| p.value().to_owned()),
                        q.get_all(name).count()
                    ));
                }
            }
            FatResponse::no_cache(Response::new(Bytes::from(out.into_bytes())))
        }),
        extensions::Id::new(5, "query handler"),
    );
    // a handler that reads the request body
    ext.add_prepare_single(
        "/post",
        prepare!(req, _host, _path, _addr, {
            let n = req.body_mut().read_to_bytes(64 * 1024).await.map_or(0, |b| b.len());
            FatResponse::no_cache(Response::new(Bytes::from(format!("read {n}").into_bytes())))
        }),
    );
    ext.add_prepare_fn(
        Box::new(|req, _| req.uri().path().starts_with("/stream/")),
        extensions::stream_body(),
        extensions::Id::new(6, "stream body"),
    );

    let mut host = Host::unsecure("localhost", &dir, ext, host::Options::default());
    host.limiter.disable();
    host.vary.add_mut(
        "/v",
        vary::Settings::empty().add_rule("accept-language", |h| std::borrow::Cow::Borrowed(lang(h)), "en-GB"),
    );
    let mut other = Host::unsecure("b.example", format!("{dir}other"), Extensions::new(), host::Options::default());
    other.limiter.disable();
    other.add_alternative_name("alias.example");
    let coll = HostCollection::builder().default(host).insert(other).build();
    Arc::new(PortDescriptor::unsecure(8080, coll))
}

fn descriptor() -> Arc<PortDescriptor> {
    static D: OnceLock<Arc<PortDescriptor>> = OnceLock::new();
    D.get_or_init(build_descriptor).clone()
}

enum Run {
    Clean,
    Panicked(String),
    Hung,
    Harness(String),
}

async fn run_conn(data: Vec<u8>, chunks: Vec<usize>, read_response: bool) -> Run {
    use tokio::io::{AsyncReadExt, AsyncWriteExt};
    let desc = descriptor();
    let before = PANICS.load(Ordering::SeqCst);
    let listener = match tokio::net::TcpListener::bind("127.0.0.1:0").await {
        Ok(l) => l,
        Err(e) => return Run::Harness(format!("bind {e}")),
    };
    let addr = match listener.local_addr() {
        Ok(a) => a,
        Err(e) => return Run::Harness(format!("addr {e}")),
    };
    let mut client = match tokio::net::TcpStream::connect(addr).await {
        Ok(c) => c,
        Err(e) => return Run::Harness(format!("connect {e}")),
    };
    let (server_end, peer) = match listener.accept().await {
        Ok(p) => p,
        Err(e) => return Run::Harness(format!("accept {e}")),
    };
    let task = tokio::spawn(async move {
        let _ = kvarn::handle_connection(kvarn::Incoming::Tcp(server_end), peer, desc, || true).await;
    });
    // write in the scheduled segments; a failed write means the server already closed
    let mut off = 0;
    let mut sched = chunks.into_iter();
    while off < data.len() {
        let n = sched.next().unwrap_or(data.len()).max(1).min(data.len() - off);
        if client.write_all(&data[off..off + n]).await.is_err() {
            break;
        }
        let _ = client.flush().await;
        off += n;
        tokio::task::yield_now().await;
    }
    let _ = client.shutdown().await;
    if read_response {
        let mut sink = vec![0u8; 16 * 1024];
        let deadline = tokio::time::Instant::now() + Duration::from_secs(20);
        loop {
            match tokio::time::timeout_at(deadline, client.read(&mut sink)).await {
                Ok(Ok(0)) | Ok(Err(_)) => break,
                Ok(Ok(_)) => {}
                Err(_) => break,
            }
        }
    }
    drop(client);
    let joined = tokio::time::timeout(Duration::from_secs(20), task).await;
    let after = PANICS.load(Ordering::SeqCst);
    match joined {
        Err(_) => Run::Hung,
        Ok(Err(e)) if e.is_panic() => Run::Panicked(LAST_PANIC.lock().map(|m| m.clone()).unwrap_or_default()),
        Ok(_) if after != before => Run::Panicked(LAST_PANIC.lock().map(|m| m.clone()).unwrap_or_default()),
        Ok(_) => Run::Clean,
    }
}

/// input: (L (B bytes) (L segment..) (N read_response))
fn explore_conn(x: &X) -> X {
    let l = match x.as_l() {
        Some(l) if l.len() == 3 => l,
        _ => return X::bad(),
    };
    let (data, segs, rd) = match (l[0].as_b(), l[1].as_l(), l[2].as_bool()) {
        (Some(d), Some(s), Some(r)) => (d.to_vec(), s, r),
        _ => return X::bad(),
    };
    let mut chunks = Vec::new();
    for s in segs {
        match s.as_n() {
            Some(n) => chunks.push(n as usize),
            None => return X::bad(),
        }
    }
    install_hook();
    let mut last = String::new();
    // a harness failure (no port, ...) is retried, never turned into a verdict
    for _ in 0..3 {
        match rt().block_on(run_conn(data.clone(), chunks.clone(), rd)) {
            Run::Clean => return X::ok(X::L(vec![])),
            Run::Panicked(msg) => return X::L(vec![X::N(2), X::b(msg.as_bytes())]),
            Run::Hung => return X::L(vec![X::N(94), X::b(b"connection task still running 20 s after the client closed")]),
            Run::Harness(e) => last = e,
        }
    }
    X::L(vec![X::N(93), X::b(last.as_bytes())])
}

/// input: (L checked (L [range]) file_len) -> Ok content-length (of the 200, or of the 206 a ranged request gets) | Err 416
fn stream_window(x: &X) -> X {
    use tokio::io::{AsyncReadExt, AsyncWriteExt};
    let l = match x.as_l() {
        Some(l) if l.len() == 3 => l,
        _ => return X::bad(),
    };
    let (hdr, len) = match (l[1].as_opt(), l[2].as_n()) {
        (Some(h), Some(n)) => (h.and_then(X::as_b).map(<[u8]>::to_vec), n as usize),
        _ => return X::bad(),
    };
    if !STREAM_LENS.contains(&len) {
        return X::L(vec![X::N(96)]);
    }
    if let Some(h) = &hdr {
        // only values a header line carries unchanged
        if h.is_empty() || h.iter().any(|c| (*c < 32 && *c != 9) || *c == 127) || h[0] == b' ' || h[0] == 9
            || h[h.len() - 1] == b' ' || h[h.len() - 1] == 9
        {
            return X::L(vec![X::N(96)]);
        }
    }
    install_hook();
    let before = PANICS.load(Ordering::SeqCst);
    let out = rt().block_on(async move {
        let desc = descriptor();
        let listener = tokio::net::TcpListener::bind("127.0.0.1:0").await.map_err(|e| e.to_string())?;
        let addr = listener.local_addr().map_err(|e| e.to_string())?;
        let mut client = tokio::net::TcpStream::connect(addr).await.map_err(|e| e.to_string())?;
        let (server_end, peer) = listener.accept().await.map_err(|e| e.to_string())?;
        let task = tokio::spawn(async move {
            let _ = kvarn::handle_connection(kvarn::Incoming::Tcp(server_end), peer, desc, || true).await;
        });
        let mut req = format!("GET /stream/s{len}.bin HTTP/1.1\r\nHost: localhost\r\n").into_bytes();
        if let Some(h) = &hdr {
            req.extend_from_slice(b"Range: ");
            req.extend_from_slice(h);
            req.extend_from_slice(b"\r\n");
        }
        req.extend_from_slice(b"\r\n");
        client.write_all(&req).await.map_err(|e| e.to_string())?;
        let mut buf = Vec::new();
        let mut tmp = [0u8; 4096];
        let head = loop {
            if let Some(p) = buf.windows(4).position(|w| w == b"\r\n\r\n") {
                break Some(String::from_utf8_lossy(&buf[..p + 4]).to_ascii_lowercase());
            }
            match tokio::time::timeout(Duration::from_secs(10), client.read(&mut tmp)).await {
                Ok(Ok(0)) | Ok(Err(_)) => break None,
                Ok(Ok(n)) => buf.extend_from_slice(&tmp[..n]),
                Err(_) => return Err("no response head in 10 s".to_string()),
            }
        };
        drop(client);
        let _ = tokio::time::timeout(Duration::from_secs(10), task).await;
        Ok(head)
    });
    let after = PANICS.load(Ordering::SeqCst);
    if after != before {
        return X::panic();
    }
    match out {
        Err(e) => X::L(vec![X::N(93), X::b(e.as_bytes())]),
        Ok(None) => X::panic(), // closed without an answer
        Ok(Some(head)) => {
            let status: u16 = head.split(' ').nth(1).and_then(|s| s.parse().ok()).unwrap_or(0);
            let cl: Option<u128> = head.lines().find_map(|l| l.strip_prefix("content-length:").and_then(|v| v.trim().parse().ok()));
            match (status, cl) {
                (416, _) => X::err(416),
                (200 | 206, Some(n)) => X::ok(X::N(n)),
                _ => X::L(vec![X::N(91), X::n(status), X::b(head.as_bytes())]),
            }
        }
    }
}

pub fn dispatch(comp: &str, x: &X) -> Option<X> {
    Some(match comp {
        "explore.conn" => explore_conn(x),
        "stream.window" => stream_window(x),
        _ => return None,
    })
}
